"""Run-time support shared by all harnesses.

A harness is an ordinary Python function.  It is executed in two modes:

* symbolically, by CrossHair (vf.worker), where its arguments are z3-backed
  proxies and every branch in the harness *and in Gin* forks the path;
* concretely (vf.replay, smoke runs, known-finding witnesses) with plain
  Python values and no CrossHair loaded at all.

Everything in here works in both modes.
"""
import contextlib
import os
import sys

try:  # CrossHair is only present in the overlay venv; replays run without it.
  if os.environ.get('VERIF_NO_CROSSHAIR'):
    raise ImportError
  import crosshair as _ch
  from crosshair.tracers import NoTracing as _NoTracing, is_tracing as _is_tracing
  from crosshair.util import IgnoreAttempt
  HAVE_CH = True
except ImportError:  # pragma: no cover
  _ch = None
  HAVE_CH = False

  class IgnoreAttempt(Exception):
    pass

  def _is_tracing():
    return False


@contextlib.contextmanager
def native():
  """Run the body without symbolic tracing (concrete phases, bookkeeping)."""
  if HAVE_CH and _is_tracing():
    with _NoTracing():
      yield
  else:
    yield


def realize(v):
  if HAVE_CH and _is_tracing():
    return _ch.deep_realize(v)
  return v


def pick(k, n):
  """Turns the F-input `k` (0 <= k < n) into a concrete int by comparison search.

  Each comparison is a proper binary decision node in CrossHair's path tree
  (measured: ~30 leaves/s, no redundant revisits, unlike realize()).
  """
  lo, hi = 0, n - 1
  while lo < hi:
    mid = (lo + hi) // 2
    if k <= mid:
      hi = mid
    else:
      lo = mid + 1
  return lo


def flag(b):
  """Forks on the boolean F-input and returns a concrete bool."""
  if b:
    return True
  return False


class Stats:
  paths = 0          # harness invocations (= path-tree iterations)
  completed = 0      # invocations that reached the comparison with the oracle
  infra = []         # HarnessError texts
  fails = []         # realised kwargs of failing paths
  errors = []        # text of exceptions that escaped the harness body
  sigs = {}          # signature -> nontrivial flag
  samples = []


def reset_stats():
  Stats.paths = 0
  Stats.completed = 0
  Stats.fails = []
  Stats.infra = []
  Stats.errors = []
  Stats.sigs = {}
  Stats.samples = []


def sig(signature, nontrivial=True):
  """Records the (concrete) signature of the current path."""
  with native():
    s = repr(signature)
    if s not in Stats.sigs:
      Stats.sigs[s] = bool(nontrivial)
      if len(Stats.samples) < 6:
        Stats.samples.append(s)
    elif nontrivial and not Stats.sigs[s]:
      Stats.sigs[s] = True


class Discard(Exception):
  pass


class HarnessError(Exception):
  """The harness found its own model/stub inconsistent with reality (e.g. the
  token stub disagrees with the real tokenizer).  Never a property violation:
  reported as an infrastructure error (exit 2)."""


def discard():
  """Abandons the current path (input outside the harness's domain).

  The path counts as trivially true; it is not counted as completed.
  """
  raise Discard()


TWIN = False  # set by the worker for the vacuity twin


def guard(fn, names, args):
  """Runs one harness path; records a realised counterexample when it fails.

  (`names`/`args` rather than a dict: CrossHair's symbolic-aware dict() costs
  ~50 ms for 30 entries, more than the rest of a path.)
  """
  with native():
    Stats.paths += 1
  err = None
  try:
    ok = fn(*args)
  except Discard:
    return True
  except HarnessError as e:
    with native():
      if len(Stats.infra) < 5:
        Stats.infra.append(str(e)[:500])
    return True
  except Exception as e:  # never BaseException: CrossHair steers with those
    ok = False
    with native():
      import traceback
      err = ''.join(traceback.format_exception(type(e), e, e.__traceback__)[-6:])
  with native():
    Stats.completed += 1
  if TWIN:
    return False
  if ok is True or (ok is not False and ok):
    return True
  concrete = realize(args)
  with native():
    concrete = dict(zip(names, concrete))
    plain = all(type(v) in (int, bool, str) for v in concrete.values())
    if plain and len(Stats.fails) < 5 and concrete not in Stats.fails:
      Stats.fails.append(concrete)
    if err and len(Stats.errors) < 5:
      Stats.errors.append(err)
  return False


class Mismatch(Exception):
  pass


def same(label, got, want):
  """Equality that explains itself in concrete replays (harness diagnostics)."""
  r = (got == want)
  if r:
    return True
  if not (HAVE_CH and _is_tracing()) and os.environ.get('VERIF_EXPLAIN'):
    sys.stderr.write('MISMATCH %s: got %r want %r\n' % (label, got, want))
  return False


def no(label):
  """`return rt.no('why')` = `return False`, explained in concrete replays."""
  if os.environ.get('VERIF_EXPLAIN') and not (HAVE_CH and _is_tracing()):
    sys.stderr.write('FAIL: %s\n' % (label,))
  return False
