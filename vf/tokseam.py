"""The tokenizer seam: a symbolic *token stream* in place of tokenize.generate_tokens.

Python 3.12's tokenizer is C code, so symbolic *text* would simply be realised.
The recursive-descent parser of gin.config_parser only ever looks at
TokenInfo.type / .string / .start / .end / .line, so the harness swaps the name
`tokenize` inside gin.config_parser for a proxy whose generate_tokens() yields a
stream whose k-th token is chosen lazily - by comparison search on an F-input -
at the moment the parser pulls it.  A syntax error after two tokens therefore
prunes everything behind it.

The stub obeys the tokenizer's contract (NL/COMMENT only inside brackets,
COMMENT followed by NL, EOF inside a bracket => NL + TokenError, final NEWLINE
+ ENDMARKER) and every finished path is validated against the real tokenizer
and the real tokenizer-driven parse (see the harnesses), so a wrong stub is a
harness error, never a finding.
"""
import contextlib
import io
import tokenize as _tk

from gin import config_parser

TokenInfo = _tk.TokenInfo
TYPES = {'OP': _tk.OP, 'NUMBER': _tk.NUMBER, 'STRING': _tk.STRING, 'NAME': _tk.NAME,
         'NL': _tk.NL, 'COMMENT': _tk.COMMENT, 'NEWLINE': _tk.NEWLINE,
         'ENDMARKER': _tk.ENDMARKER, 'INDENT': _tk.INDENT, 'DEDENT': _tk.DEDENT,
         'ERRORTOKEN': _tk.ERRORTOKEN}
TokenError = _tk.TokenError


class _Proxy:
  """Stands in for the `tokenize` module inside gin.config_parser."""

  def __init__(self, gen_factory):
    self._gen_factory = gen_factory

  def generate_tokens(self, readline):
    return self._gen_factory()

  def __getattr__(self, name):
    return getattr(_tk, name)


@contextlib.contextmanager
def installed(gen_factory):
  saved = config_parser.tokenize
  config_parser.tokenize = _Proxy(gen_factory)
  try:
    yield
  finally:
    config_parser.tokenize = saved


def real_tokens(text):
  """[(type name, string)] of the real tokenizer on `text`, plus the exception if any."""
  out = []
  exc = None
  try:
    for t in _tk.generate_tokens(io.StringIO(text).readline):
      out.append((_tk.tok_name[t.type], t.string))
  except Exception as e:  # TokenError / IndentationError
    exc = e
  return out, exc


def as_real_312(emitted):
  """The (type name, string) list the tokenizer of Python 3.12 produces for a stream handed out by the stub.

  Identical except for characters that are no Python token ('$', '?', '`'): the pure-Python tokenizer of
  Python <= 3.11 reported ERRORTOKEN ' ' for each blank before such a character and ERRORTOKEN <char> for the
  character itself (the stub's 'ERR' kinds follow that contract, which gin's _advance_one_token is written
  for); the C tokenizer of 3.12 reports a plain OP <char> and nothing for the blanks.
  """
  out = []
  for typ, s in emitted:
    if typ == 'ERRORTOKEN':
      if s in (' ', '\t'):
        continue
      typ = 'OP'
    out.append((typ, s))
  return out


class Writer:
  """Hands out TokenInfos with consistent positions and keeps the rendered text."""

  def __init__(self):
    self.row = 1
    self.cur = ''          # text of the current physical line
    self.done = []         # finished physical lines
    self.emitted = []      # (type name, string) of everything handed to the parser

  def tok(self, typ, string, gap=1, line=None):
    if typ in ('NEWLINE', 'NL'):
      start = (self.row, len(self.cur))
      end = (self.row, len(self.cur) + 1)
      info = TokenInfo(TYPES[typ], '\n', start, end, self.cur + '\n')
      self.done.append(self.cur + '\n')
      self.cur = ''
      self.row += 1
      self.emitted.append((typ, '\n'))
      return info
    if typ in ('ENDMARKER', 'DEDENT'):
      pos = (self.row, len(self.cur))
      self.emitted.append((typ, ''))
      return TokenInfo(TYPES[typ], '', pos, pos, '')
    if self.cur and typ != 'INDENT':
      self.cur += ' ' * gap
    start = (self.row, len(self.cur))
    self.cur += string
    end = (self.row, len(self.cur))
    self.emitted.append((typ, string))
    return TokenInfo(TYPES[typ], string, start, end, self.cur if line is None else line)

  def raw(self, string, gap=1):
    """Text that reaches the tokenizer but never becomes a token (the tokenizer raises on it)."""
    if self.cur:
      self.cur += ' ' * gap
    self.cur += string

  def text(self):
    return ''.join(self.done) + self.cur
