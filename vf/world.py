"""Probe configurables registered once per process under the Gin module path `vw`.

Every probe records what it actually received together with the scope that was
active inside it.  Harnesses compare that record with their reference model.
"""
import logging

import gin
from gin import config as gc

logging.disable(logging.CRITICAL)  # gin's package reader logs an error per missing path

LOG = []


def rec(name, *args, **kwargs):
  LOG.append((name, args, kwargs, gin.current_scope()))


DA, DB = -101, -102  # signature defaults of the two focus parameters


@gin.configurable(module='vw')
def plain(a, b):
  rec('plain', a, b)
  return (a, b)


@gin.configurable(module='vw')
def dflt(a=DA, b=DB):
  rec('dflt', a, b)
  return (a, b)


@gin.configurable(module='vw')
def kwo(*, a=DA, b=DB):
  rec('kwo', a, b)
  return (a, b)


@gin.configurable(module='vw')
def var(a, b=DB, *rest):
  rec('var', a, b, *rest)
  return (a, b) + tuple(rest)


@gin.configurable(module='vw')
def kws(a=DA, **kw):
  rec('kws', a, **kw)
  return (a, kw)


@gin.configurable(module='vw')
class Kinit:

  def __init__(self, a=DA, b=DB):
    rec('Kinit', a, b)
    self.got = (a, b)


@gin.register(module='vw')
class Kreg:

  def __init__(self, a=DA, b=DB):
    rec('Kreg', a, b)
    self.got = (a, b)


@gin.register(module='vw')
class Kmeth:

  def __init__(self):
    pass

  @gin.register
  def meth(self, a=DA, b=DB):
    rec('Kmeth.meth', a, b)
    return (a, b)


# A source configurable for references (C04/C05/C07) and a consumer.
SRC_CALLS = []


@gin.configurable(module='vw')
def src(v=0):
  SRC_CALLS.append((v, gin.current_scope()))
  return [v]


@gin.configurable(module='vw')
def src2(v=0):
  SRC_CALLS.append(('src2', v, gin.current_scope()))
  return {'v': v}


@gin.configurable(module='vw')
def cons(p=None, q=None):
  rec('cons', p, q)
  return (p, q)


# allow/deny-listed probes
@gin.configurable(module='vw', allowlist=['a'])
def allow_a(a=DA, b=DB):
  rec('allow_a', a, b)
  return (a, b)


@gin.configurable(module='vw', denylist=['b'])
def deny_b(a=DA, b=DB):
  rec('deny_b', a, b)
  return (a, b)


# name families sharing suffixes (C08 API half)
@gin.configurable('fam', module='vw.x.m')
def fam_xm(p=0):
  rec('fam_xm', p)
  return p


@gin.configurable('fam', module='vw.y.m')
def fam_ym(p=0):
  rec('fam_ym', p)
  return p


_BASE_HOOKS = None
_BASE_READERS = None
_BASE_PREFIXES = None


def fresh():
  """Returns Gin to the state it had right after this module was imported."""
  global _BASE_HOOKS, _BASE_READERS, _BASE_PREFIXES
  if _BASE_HOOKS is None:
    _BASE_HOOKS = list(gc._FINALIZE_HOOKS)
    _BASE_READERS = list(gc._FILE_READERS)
    _BASE_PREFIXES = list(gc._LOCATION_PREFIXES)
  gc._FINALIZE_HOOKS[:] = _BASE_HOOKS
  gc._FILE_READERS[:] = _BASE_READERS
  gc._LOCATION_PREFIXES[:] = _BASE_PREFIXES
  gc._INTERACTIVE_MODE = False
  # scope stack of this thread, parse-context stack
  gc._SCOPE_MANAGER._active_scopes = [[]]
  del gc._PARSE_CONTEXTS[1:]
  # Reset every store directly (clear_config itself is the subject of C20, so
  # the harnesses of the other properties must not depend on it being right).
  gc._CONFIG.clear()
  gc._CONFIG_PROVENANCE.clear()
  gc._SINGLETONS.clear()
  gc._CONSTANTS.clear()
  gc._CONSTANTS['gin.REQUIRED'] = gin.REQUIRED
  gc._IMPORTS.clear()
  gc._OPERATIVE_CONFIG.clear()
  gc._set_config_is_locked(False)
  del LOG[:]
  del SRC_CALLS[:]


# ---- C10: REQUIRED probes ---------------------------------------------------
DD = -104


@gin.configurable(module='vw')
def req(a, b=gin.REQUIRED, *, c=gin.REQUIRED, d=DD):
  rec('req', a, b, c=c, d=d)
  return (a, b, c, d)


@gin.configurable(module='vw')
def reqkw(a, **kw):
  rec('reqkw', a, **kw)
  return (a, kw)


@gin.configurable(module='vw')
class ReqK:

  def __init__(self, a, b=gin.REQUIRED):
    rec('ReqK', a, b)


@gin.configurable(module='vw')
def reqvar(a, *rest):
  rec('reqvar', a, *rest)
  return (a,) + tuple(rest)


@gin.configurable(module='vw')
def lit(p=None, q=None):
  rec('lit', p, q)
  return (p, q)


# ---- in-memory file system behind Gin's own reader interface (C03/C14/C16) ----
FILES = {}


class _MemFile:

  def __init__(self, name, text):
    import io
    self._io = io.StringIO(text)
    self.name = name

  def readline(self, *a):
    return self._io.readline(*a)

  def __enter__(self):
    return self

  def __exit__(self, *a):
    return False


def mem_open(path):
  return _MemFile(path, FILES[path])


def mem_exists(path):
  return path in FILES


def use_mem_fs(files):
  """Installs (after fresh()) the in-memory reader with the given files."""
  FILES.clear()
  FILES.update(files)
  gin.config.register_file_reader(mem_open, mem_exists)


# ---- C17: raising probes -------------------------------------------------------
RAISE = [None]


@gin.configurable(module='vw')
def boom(z=0):
  raise RAISE[0]


@gin.configurable(module='vw')
def outer1(z=0):
  return boom()


@gin.configurable(module='vw')
def outer2(z=0):
  with gin.config_scope('deep'):
    return outer1()


# ---- C06: names that differ only in case ------------------------------------------
@gin.configurable('Foo', module='vw.case')
def case_upper(p=0):
  rec('Foo', p)
  return p


@gin.configurable('foo', module='vw.case')
def case_lower(p=0):
  rec('foo', p)
  return p


# ---- C18: singleton constructor probe ------------------------------------------------
CONSTRUCT_HOOK = [None]


@gin.configurable(module='vw')
def mkobj(tag='k'):
  if CONSTRUCT_HOOK[0] is not None:
    CONSTRUCT_HOOK[0](tag)
  return object()


# ---- C11: a function behind a signature-agnostic functools.wraps decorator ------------------------
import functools as _functools


def _agnostic(fn):
  @_functools.wraps(fn)
  def wrapper(*args, **kwargs):
    return fn(*args, **kwargs)
  return wrapper


@gin.configurable(module='vw')
@_agnostic
def wrapped(a=DA, b=DB):
  rec('wrapped', a, b)
  return (a, b)


@gin.configurable(module='vw', denylist=['b'])
@_agnostic
def wrapped_deny(a=DA, b=DB):
  rec('wrapped_deny', a, b)
  return (a, b)


@gin.configurable(module='vw')
def varkwo(a=DA, *rest, b=DB):
  rec('varkwo', a, *rest, b=b)
  return (a, rest, b)


# ---- C10: classes registered through register / external_configurable with signature REQUIRED ----
@gin.register(module='vw')
class ReqReg:

  def __init__(self, a, b=gin.REQUIRED):
    rec('ReqReg', a, b)


class _ReqExt:

  def __init__(self, a, b=gin.REQUIRED):
    rec('ReqExt', a, b)


ReqExt = gin.external_configurable(_ReqExt, 'ReqExt', module='vw')


# ---- round-c probes ---------------------------------------------------------------------------
@gin.configurable('include', module='vw.kw')
def kw_include(x=0):
  rec('include', x)
  return x


@gin.configurable('import', module='vw.kw')
def kw_import(x=0):
  rec('import', x)
  return x


@gin.configurable(module='vw', allowlist=['a'])
def allow_kwo(a=DA, *, k=5):
  rec('allow_kwo', a, k=k)
  return (a, k)


@gin.configurable(module='vw', denylist=['k'])
def deny_kwo(a=DA, *, k=5):
  rec('deny_kwo', a, k=k)
  return (a, k)


@gin.register(module='vw')
class ReqM:
  """registered class with a registered method that has signature-REQUIRED parameters"""

  def __init__(self):
    pass

  @gin.register
  def run(self, steps=gin.REQUIRED, seed=gin.REQUIRED):
    rec('ReqM.run', steps, seed)
    return (steps, seed)


@gin.register(module='vw')
class KmethD:
  """registered class whose registered methods carry their own deny / allow lists"""

  def __init__(self):
    pass

  @gin.register(denylist=['b'])
  def dmeth(self, a=DA, b=DB):
    rec('KmethD.dmeth', a, b)
    return (a, b)

  @gin.register(allowlist=['a'])
  def ameth(self, a=DA, b=DB):
    rec('KmethD.ameth', a, b)
    return (a, b)


@gin.configurable(module='vw')
@_agnostic
@_agnostic
def wrapped2(a=DA, b=DB):
  rec('wrapped2', a, b)
  return (a, b)
