"""Runs CrossHair on ONE partition of one harness and prints a JSON verdict.

usage: python -m vf.worker <module> <function> <json spec>

spec = {"pins": {name: value, ...},      # F-choices fixed for this partition
        "exclude": ["expr", ...],        # known-finding predicates (extra pre:)
        "budget_s": float, "twin": bool}

The partition function is generated as source text into /verif/.work so that
CrossHair's PEP 316 parser sees a normal module-level function with the
harness's own preconditions; pinned parameters become module-level constants.
"""
import hashlib
import importlib
import inspect
import json
import os
import re
import sys
import time

WORK = os.environ.get('VERIF_WORK', os.path.join(os.path.dirname(os.path.dirname(os.path.abspath(__file__))), '.work'))


def install_shims():
  """The two shims of DESIGN.md section 2 (both only remove over-approximation)."""
  import crosshair.enforce
  import crosshair.core
  crosshair.enforce.manual_constructor = lambda typ: typ
  crosshair.core.consider_shortcircuit = lambda *a, **k: None


class SolverStats:
  queries = 0
  seconds = 0.0


def count_solver():
  import z3
  orig = z3.Solver.check

  def check(self, *a, **k):
    t = time.perf_counter()
    try:
      return orig(self, *a, **k)
    finally:
      SolverStats.queries += 1
      SolverStats.seconds += time.perf_counter() - t

  z3.Solver.check = check


def gen_partition(modname, fname, pins, exclude):
  mod = importlib.import_module(modname)
  fn = getattr(mod, fname)
  sig = inspect.signature(fn)
  doc = inspect.getdoc(fn) or ''
  pres = [l.strip() for l in doc.splitlines() if l.strip().startswith('pre:')]
  free = [p for p in sig.parameters.values() if p.name not in pins]
  for name in pins:
    if name not in sig.parameters:
      raise SystemExit('pin %r is not a parameter of %s' % (name, fname))
  ann = {int: 'int', bool: 'bool', str: 'str'}
  params = ', '.join('%s: %s' % (p.name, ann[p.annotation]) for p in free)
  lines = ['import %s as _m' % modname, 'from vf import rt as _rt', '']
  for k, v in pins.items():
    lines.append('%s = %r' % (k, v))
  lines.append('_NAMES = %r' % (list(sig.parameters),))
  lines.append('')
  lines.append('def part(%s) -> bool:' % params)
  lines.append('  """')
  for p in pres:
    lines.append('  ' + p)
  for e in exclude:
    lines.append('  pre: not (%s)' % e)
  lines.append('  post: _')
  lines.append('  """')
  names = list(sig.parameters)
  lines.append('  return _rt.guard(_m.%s, _NAMES, (%s,))' % (fname, ', '.join(names)))
  src = '\n'.join(lines) + '\n'
  h = hashlib.sha1(src.encode()).hexdigest()[:16]
  os.makedirs(os.path.join(WORK, 'parts'), exist_ok=True)
  pmod = 'part_%s_%s_%d' % (fname, h, os.getpid())   # private to this process
  path = os.path.join(WORK, 'parts', pmod + '.py')
  tmp = path + '.%d' % os.getpid()
  with open(tmp, 'w') as f:
    f.write(src)
  os.replace(tmp, path)
  sys.path.insert(0, os.path.join(WORK, 'parts'))
  return importlib.import_module(pmod).part, path


def main(argv):
  modname, fname, spec = argv[0], argv[1], json.loads(argv[2])
  t0 = time.time()
  install_shims()
  count_solver()
  from vf import rt
  part, path = gen_partition(modname, fname, spec.get('pins', {}),
                             spec.get('exclude', []))
  rt.reset_stats()
  rt.TWIN = bool(spec.get('twin'))
  from crosshair.core_and_libs import analyze_function, run_checkables
  from crosshair.options import AnalysisOptionSet
  from crosshair.statespace import MessageType
  opts = AnalysisOptionSet(
      per_condition_timeout=float(spec.get('budget_s', 60)),
      per_path_timeout=float(spec.get('path_s', 30)),
      max_uninteresting_iterations=0,
      max_iterations=10**9,
      report_all=True)
  msgs = run_checkables(analyze_function(part, opts))
  states = [m.state.name for m in msgs]
  if not msgs:
    raise SystemExit('CrossHair produced no verdict for %s (no conditions found?)' % fname)
  if any(s in ('POST_FAIL', 'EXEC_ERR', 'POST_ERR', 'PRE_INVALID', 'SYNTAX_ERR',
               'IMPORT_ERR') for s in states):
    verdict = 'REFUTED'
  elif 'PRE_UNSAT' in states:
    verdict = 'PRE_UNSAT'
  elif states and all(s == 'CONFIRMED' for s in states):
    verdict = 'CONFIRMED'
  else:
    verdict = 'UNKNOWN'
  out = {
      'fn': fname, 'pins': spec.get('pins', {}), 'twin': rt.TWIN,
      'verdict': verdict, 'states': states,
      'messages': [m.message[:600] for m in msgs if m.state.name != 'CONFIRMED'],
      'paths': rt.Stats.paths, 'completed': rt.Stats.completed,
      'fails': rt.Stats.fails, 'errors': rt.Stats.errors, 'infra': rt.Stats.infra,
      'sigs': rt.Stats.sigs, 'samples': rt.Stats.samples,
      'queries': SolverStats.queries, 'solver_s': round(SolverStats.seconds, 3),
      'wall_s': round(time.time() - t0, 2),
  }
  try:
    os.remove(path)
  except OSError:
    pass
  sys.stdout.write('\n@@RESULT@@' + json.dumps(out, default=repr) + '\n')


if __name__ == '__main__':
  main(sys.argv[1:])
