"""Check driver: python -m vf.runner <PROPERTY_ID> <quick|thorough>

Exit 0: nothing explored violates the property.
Exit 1: at least one counterexample that was REPLAYED on the real code without
        CrossHair (one `VIOLATION property=<ID> replay=<path>` line each).
Exit 2: infrastructure error (non-reproducing counterexample, vacuity twin not
        refuted, anchor functions not executed ...) - never with a VIOLATION.
"""
import concurrent.futures
import hashlib
import importlib
import itertools
import json
import os
import random
import subprocess
import sys
import time

ROOT = os.path.dirname(os.path.dirname(os.path.abspath(__file__)))
VENV_PY = os.path.join(ROOT, '.venv', 'bin', 'python')
PLAIN_PY = '/venv/bin/python'
# development aids (never set by the registered commands): VERIF_REPO points the check at a scratch
# copy of google/gin-config instead of /repo, VERIF_EVID keeps its evidence out of /verif/evidence
REPO = os.environ.get('VERIF_REPO', '/repo')
EVID = os.environ.get('VERIF_EVID', os.path.join(ROOT, 'evidence'))
NPROC = int(os.environ.get('VERIF_JOBS', '16'))


def env_for(plain):
  e = dict(os.environ)
  e['PYTHONPATH'] = ROOT + ':' + REPO
  e['PYTHONDONTWRITEBYTECODE'] = '1'
  e['PYTHONHASHSEED'] = '0'
  if plain:
    e['VERIF_NO_CROSSHAIR'] = '1'
  else:
    e.pop('VERIF_NO_CROSSHAIR', None)
  return e


def run_worker(modname, fname, spec, hard_timeout):
  cmd = [VENV_PY, '-m', 'vf.worker', modname, fname, json.dumps(spec)]
  t0 = time.time()
  try:
    p = subprocess.run(cmd, cwd=ROOT, env=env_for(False), capture_output=True,
                       text=True, timeout=hard_timeout)
    out = p.stdout
    i = out.rfind('@@RESULT@@')
    if i < 0:
      return {'fn': fname, 'pins': spec.get('pins', {}), 'verdict': 'CRASH',
              'twin': bool(spec.get('twin')),
              'messages': [(p.stderr or out)[-1500:]], 'paths': 0, 'completed': 0,
              'fails': [], 'errors': [], 'sigs': {}, 'samples': [], 'queries': 0,
              'solver_s': 0.0, 'wall_s': round(time.time() - t0, 2)}
    return json.loads(out[i + len('@@RESULT@@'):].strip().splitlines()[0])
  except subprocess.TimeoutExpired:
    return {'fn': fname, 'pins': spec.get('pins', {}), 'verdict': 'UNKNOWN',
            'twin': bool(spec.get('twin')),
            'messages': ['hard timeout'], 'paths': 0, 'completed': 0, 'fails': [],
            'errors': [], 'sigs': {}, 'samples': [], 'queries': 0, 'solver_s': 0.0,
            'wall_s': round(time.time() - t0, 2)}


def run_replay(modname, fname, kwargs, trace=False, timeout=300):
  cmd = [PLAIN_PY, '-m', 'vf.replay', modname, fname, json.dumps(kwargs)]
  if trace:
    cmd.append('--trace')
  p = subprocess.run(cmd, cwd=ROOT, env=env_for(True), capture_output=True,
                     text=True, timeout=timeout)
  i = p.stdout.rfind('@@REPLAY@@')
  if i < 0:
    return {'ok': None, 'error': (p.stderr or p.stdout)[-2000:], 'functions': []}
  return json.loads(p.stdout[i + len('@@REPLAY@@'):].strip().splitlines()[0])


def load_known(pid):
  path = os.path.join(ROOT, 'known_findings.json')
  if not os.path.exists(path):
    return []
  with open(path) as f:
    data = json.load(f)
  return [e for e in data.get('findings', []) if e.get('property') == pid]


def partitions(split):
  names = list(split)
  for combo in itertools.product(*[split[n] for n in names]):
    yield dict(zip(names, combo))


def main(argv):
  pid, tier = argv[0], (argv[1] if len(argv) > 1 else 'quick')
  tier = os.environ.get('VERIF_TIER', tier) if len(argv) < 2 else tier
  seed = int(os.environ.get('VERIF_SEED', '0'))
  only = os.environ.get('VERIF_ONLY')  # development aid: one harness only
  t0 = time.time()
  modname = 'vf.harness.' + pid.lower()
  sys.path.insert(0, ROOT)
  os.environ['VERIF_NO_CROSSHAIR'] = '1'
  try:
    mod = importlib.import_module(modname)
  except Exception:
    import traceback
    print('HARNESS-ERROR: cannot import %s: %s' % (modname, traceback.format_exc()[-800:]))
    return 2
  known = load_known(pid)
  rng = random.Random(seed)

  infra = []          # infrastructure errors -> exit 2
  violations = []     # replayed counterexamples
  known_lines = []
  per_harness = []
  functions = set()
  jobs = []

  extra_engines = getattr(mod, 'ENGINES', {})

  for hname, h in mod.HARNESSES.items():
    if only and hname != only:
      continue
    t = h['tiers'].get(tier) or h['tiers']['quick']
    # 1. concrete smoke runs with call tracing (functions_encoded + anchors)
    seen = set()
    for kw in h.get('smoke', []):
      r = run_replay(modname, h['fn'], kw, trace=True)
      if r['ok'] is None:
        infra.append('%s: smoke run crashed: %s' % (hname, r['error']))
      elif not r['ok']:
        # an ordinary failing input: handled like a solver counterexample
        jobs.append(('smokefail', hname, kw, r))
      seen.update(r['functions'])
    functions.update(seen)
    missing = [a for a in h.get('anchors', []) if a not in seen]
    if missing and not any(j[0] == 'smokefail' and j[1] == hname for j in jobs):
      infra.append('%s: anchor functions not executed: %s' % (hname, missing))
    # 2. known findings: predicates to exclude + witnesses to replay
    exclude = []
    for e in known:
      if e.get('harness') == hname and e.get('status') == 'finding':
        r = run_replay(modname, h['fn'], e['witness'])
        if r['ok'] is False:
          exclude.append(e['match'])
          known_lines.append('KNOWN-FINDING: property=%s %s' % (pid, e['what']))
        else:   # not excluded any more: the region is checked like everything else
          print('note: listed finding %s no longer reproduces (%s)' % (e.get('id'), r))
    # 3. partitions (one that a listed finding covers entirely has nothing left to explore)
    def wholly_known(pins):
      for m in exclude:
        try:
          if eval(m, {}, dict(pins)):
            return True
        except Exception:
          pass   # the predicate needs parameters this partition leaves free
      return False
    base_pins = dict(t.get('fixed', {}))
    parts = [p_ for p_ in partitions(t.get('split', {}))
             if not wholly_known(dict(base_pins, **p_))]
    first_part = parts[0] if parts else {}
    rng.shuffle(parts)
    if parts:   # the vacuity twin runs on the first partition in declared order
      parts.remove(first_part)
      parts.insert(0, first_part)
    specs = []
    for pins in parts:
      allpins = dict(t.get('fixed', {}))
      allpins.update(pins)
      specs.append(dict(pins=allpins, exclude=exclude,
                        budget_s=t.get('budget_s', 60 if tier == 'quick' else 600),
                        path_s=t.get('path_s', 30)))
    per_harness.append(dict(name=hname, h=h, specs=specs, results=[], twin=None,
                            exclude=exclude, tier=t))

  # run everything in one pool (twins first: they are short)
  with concurrent.futures.ThreadPoolExecutor(NPROC) as pool:
    futs = {}
    for ph in per_harness:
      if ph['specs']:
        tw = dict(ph['specs'][0])
        tw['twin'] = True
        tw['budget_s'] = min(60, tw['budget_s'])
        futs[pool.submit(run_worker, modname, ph['h']['fn'], tw, 200)] = (ph, True)
      for s in ph['specs']:
        futs[pool.submit(run_worker, modname, ph['h']['fn'], s,
                         s['budget_s'] * 2 + 120)] = (ph, False)
    for fut in concurrent.futures.as_completed(futs):
      ph, is_twin = futs[fut]
      r = fut.result()
      if is_twin:
        ph['twin'] = r
      else:
        ph['results'].append(r)

  os.makedirs(os.path.join(EVID, 'replays'), exist_ok=True)
  for fn_ in os.listdir(os.path.join(EVID, 'replays')):
    if fn_.startswith(pid + '-'):
      os.remove(os.path.join(EVID, 'replays', fn_))
  tot = dict(paths=0, completed=0, queries=0, solver_s=0.0)
  sigs = {}
  samples = []
  part_summ = []
  exhaustive = True

  def handle_cex(hname, fn, kwargs, origin):
    blob = json.dumps(kwargs, sort_keys=True, default=repr)
    hsh = hashlib.sha1((hname + blob).encode()).hexdigest()[:12]
    rel = os.path.relpath(os.path.join(EVID, 'replays', '%s-%s.json' % (pid, hsh)), ROOT)
    r = run_replay(modname, fn, kwargs)
    if r['ok'] is False:
      with open(os.path.join(ROOT, rel), 'w') as f:
        json.dump({'property': pid, 'harness': hname, 'module': modname,
                   'function': fn, 'kwargs': kwargs, 'origin': origin,
                   'error': r.get('error'),
                   'replay_cmd': 'bin/check --replay ' + rel}, f, indent=1,
                  default=repr)
      violations.append((rel, hname, kwargs, r.get('error')))
    elif r['ok'] is True:
      infra.append('%s: counterexample does not reproduce concretely: %s' %
                   (hname, blob[:400]))
    else:
      infra.append('%s: replay crashed: %s' % (hname, r.get('error')))

  def is_known(hname, kw):
    for e in known:
      if e.get('harness') == hname and e.get('status') == 'finding':
        try:
          if eval(e['match'], {}, dict(kw)):
            return True
        except Exception:
          pass
    return False

  for j in jobs:
    _, hname, kw, r = j
    if is_known(hname, kw):
      continue          # a smoke input that is exactly a listed finding (reported above)
    handle_cex(hname, mod.HARNESSES[hname]['fn'], kw, 'smoke input')

  for ph in per_harness:
    hname = ph['name']
    tw = ph['twin']
    if tw is not None and tw['verdict'] != 'REFUTED':
      infra.append('%s: vacuity twin not refuted (%s %s)' %
                   (hname, tw['verdict'], tw.get('messages')))
    conf = unk = 0
    for r in ph['results']:
      tot['paths'] += r['paths']
      tot['completed'] += r['completed']
      tot['queries'] += r['queries']
      tot['solver_s'] += r['solver_s']
      for m_ in r.get('infra', []):
        infra.append('%s: %s' % (hname, m_))
      for s, nt in r['sigs'].items():
        sigs[s] = sigs.get(s, False) or nt
      for s in r['samples']:
        if len(samples) < 8 and s not in samples:
          samples.append(s)
      if r['verdict'] == 'CONFIRMED':
        conf += 1
      elif r['verdict'] == 'REFUTED':
        if not r['fails']:
          infra.append('%s: refuted without recorded counterexample: %s' %
                       (hname, r['messages']))
        for kw in r['fails'][:2]:
          handle_cex(hname, ph['h']['fn'], kw, 'solver counterexample')
      elif r['verdict'] in ('CRASH', 'PRE_UNSAT'):
        infra.append('%s: partition %s: %s %s' %
                     (hname, r['pins'], r['verdict'], r['messages']))
      else:
        unk += 1
        exhaustive = False
        print('inconclusive: %s %s %s paths=%d wall=%.0fs' % (hname, r['pins'], r.get('messages'),
                                                               r['paths'], r.get('wall_s', 0)))
    part_summ.append(dict(harness=hname, partitions=len(ph['results']),
                          confirmed=conf, inconclusive=unk,
                          bounds=ph['h'].get('bounds', ''),
                          pins_fixed=ph['tier'].get('fixed', {}),
                          excluded_known_findings=ph['exclude']))

  # engines other than CrossHair (z3 schedule BMC) hook in here
  engine_cov = {}
  for ename, efn in extra_engines.items():
    if only and ename != only:
      continue
    er = efn(tier, seed)
    engine_cov[ename] = er['coverage']
    for v in er.get('violations', []):
      # (tag, harness function, kwargs, text): replayed like any other counterexample
      if is_known(v[1], v[2]):
        continue
      handle_cex(ename, v[1], v[2], 'solver schedule: ' + str(v[3]))
    infra.extend(er.get('infra', []))
    known_lines.extend(er.get('known_lines', []))
    functions.update(er.get('functions', []))
    tot['paths'] += er['coverage'].get('states', 0)
    tot['queries'] += er['coverage'].get('queries', 0)
    tot['solver_s'] += er['coverage'].get('solver_s', 0.0)
    tot['completed'] += er['coverage'].get('replayed', 0)
    for s in er['coverage'].get('samples', []):
      samples.append(s)
    for s, nt in er['coverage'].get('sigs', {}).items():
      sigs[s] = nt
    if not er['coverage'].get('exhaustive', True):
      exhaustive = False

  wall = time.time() - t0
  nontriv = sum(1 for v in sigs.values() if v)
  ev = {
      'property_id': pid, 'tier': tier, 'seed': seed, 'level': 'model_checking',
      'coverage': {
          'states': max(tot['paths'], 1),
          'transitions': max(tot['queries'], 1),
          'traces_validated_against_impl': tot['completed'],
          'samples': samples or ['(none)'],
          'evaluations': max(tot['paths'], 1),
          'distinct_nontrivial': nontriv,
          'rule': getattr(mod, 'RULE', 'one case per distinct path signature '
                          '(the concrete F-choices of the path); non-trivial as '
                          'flagged by the harness (a binding applies / the oracle '
                          'has something to decide)'),
          'exhaustive': bool(exhaustive and not infra),
          'engine': 'CrossHair 0.0.110 + z3 (symbolic execution of the harness and '
                    'of the real gin code in /repo, per-path solver queries)',
          'solver_role': getattr(mod, 'SOLVER_ROLE', ''),
          'functions_encoded': sorted(functions),
          'partitions': part_summ,
          'queries': tot['queries'],
          'solver_s': round(tot['solver_s'], 2),
          'outside_bounds': getattr(mod, 'OUTSIDE', ''),
          'engines': engine_cov,
          'known_findings_reported': known_lines,
          'infrastructure_errors': infra,
      },
      'assumptions': getattr(mod, 'ASSUMPTIONS', []) + [
          'CrossHair shims: enforce.manual_constructor=identity (metaclass __call__ '
          'preserved), core.consider_shortcircuit disabled (no uninterpreted callee '
          'results)',
          'CrossHair path-tree exhaustion (CONFIRMED) is trusted; counterexamples '
          'are not: each is replayed on /repo with plain /venv/bin/python',
      ],
      'wall_s': round(wall, 2),
      'violations': len(violations),
  }
  os.makedirs(EVID, exist_ok=True)
  tmp = os.path.join(EVID, pid + '.json.tmp')
  with open(tmp, 'w') as f:
    json.dump(ev, f, indent=1, default=repr)
  os.replace(tmp, os.path.join(EVID, pid + '.json'))

  for l in known_lines:
    print(l)
  for ps in part_summ:
    print('%s: %d partitions, %d confirmed, %d inconclusive' %
          (ps['harness'], ps['partitions'], ps['confirmed'], ps['inconclusive']))
  print('%s %s: paths=%d queries=%d solver_s=%.1f wall=%.1fs exhaustive=%s' %
        (pid, tier, tot['paths'], tot['queries'], tot['solver_s'], wall,
         ev['coverage']['exhaustive']))
  if violations:
    for rel, hname, kw, err in violations:
      print('VIOLATION property=%s replay=%s' % (pid, os.path.join(ROOT, rel)))
      print('  harness=%s args=%s' % (hname, json.dumps(kw, default=repr)[:600]))
    for i in sorted(set(map(str, infra)))[:6]:
      print('note (harness error, not counted): ' + i[:600])
    return 1
  if infra:
    for i in sorted(set(map(str, infra)))[:12]:
      print('HARNESS-ERROR: ' + i[:1500])
    return 2
  return 0


def replay_file(path):
  with open(path) as f:
    d = json.load(f)
  os.environ['VERIF_EXPLAIN'] = '1'
  r = run_replay(d['module'], d['function'], d['kwargs'])
  print(json.dumps(r, indent=1))
  if r['ok'] is False:
    print('VIOLATION property=%s replay=%s' % (d['property'], os.path.abspath(path)))
    return 1
  return 0


if __name__ == '__main__':
  if sys.argv[1] == '--replay':
    sys.exit(replay_file(sys.argv[2]))
  sys.exit(main(sys.argv[1:]))
