"""Engine S driver: record thread programs from the real code, learn their
observation tries, ask z3 for violating schedules, force them on real threads."""
import json
import os
import threading
import time

from vf.sched import proxies
from vf.sched.proxies import CTL


LIST_INIT = {}   # canonical list name -> initial contents (same in every run of a scenario)
CELL_INIT = {}   # (dict name, repr(key)) -> content token right after setup()


def _dump(gc, names):
  out = {}
  for name in names:
    obj = getattr(gc, name)
    if isinstance(obj, proxies.PDict):
      for k, v in dict.items(obj):
        out[(name, repr(k))] = proxies.tok(v)
        if isinstance(v, proxies.PDict):
          for k2, v2 in dict.items(v):
            out[(v._pname, repr(k2))] = proxies.tok(v2)
  for d in proxies.EXTERNAL_DICTS:
    for k, v in dict.items(d):
      out[(d._pname, repr(k))] = proxies.tok(v)
  return out


_CLASS_STATE = {}


def _reset_class_state(cls):
  """Every run starts from the same state: containers stored ON THE CLASS of the scope manager (which no
  setup function knows about - a changed implementation may add some) get the contents they had when this
  process first looked.  Without this, what one run leaves behind in such a container leaks into the next
  run of the same process, and a violation seen there does not replay in a fresh process."""
  import copy
  for name, v in list(vars(cls).items()):
    if name.startswith('__') or not isinstance(v, (list, dict, set)):
      continue
    key = (cls, name)
    if key not in _CLASS_STATE:
      _CLASS_STATE[key] = copy.deepcopy(v)
      continue
    first = copy.deepcopy(_CLASS_STATE[key])
    v.clear()
    if isinstance(v, list):
      v.extend(first)
    else:
      v.update(first)


def run(programs, setup, mode, schedule=(), tail=(), shared=None):
  """Runs `programs` (callables) on real threads against a fresh Gin state.

  Returns (raw traces per thread, results per thread, controller errors)."""
  import gin
  from gin import config as gc
  _reset_class_state(gc._ScopeManager)
  undo, names = proxies.install(gc)
  undo_tap = proxies.tap_instance_lists(gc._ScopeManager, ('_active_scopes',))
  proxies._PLISTS.clear()
  try:
    setup()
    CELL_INIT.clear()
    CELL_INIT.update(_dump(gc, names))
    CTL.mode = 'off'
    CTL.tids.clear()
    CTL.logs = {i: [] for i in range(len(programs))}
    CTL.schedule = list(schedule)
    CTL.pos = 0
    CTL.finished = set()
    CTL.tail = list(tail)
    CTL.errors = []
    CTL.shared = shared
    CTL.blocked = set()
    CTL.executed = []
    CTL.unfaithful = False
    results = [None] * len(programs)

    def body(i):
      CTL.register(i)
      try:
        results[i] = ('ok', programs[i]())
      except BaseException as e:  # pylint: disable=broad-except
        results[i] = ('exc', e)
      finally:
        CTL.done(i)

    threads = [threading.Thread(target=body, args=(i,), daemon=True) for i in range(len(programs))]
    CTL.mode = mode
    if mode == 'forced':
      for t in threads:
        t.start()
      for t in threads:
        t.join(60)
    else:               # 'solo': one after another, each recorded
      CTL.mode = 'record'
      for t in threads:
        t.start()
        t.join(60)
    CTL.mode = 'off'
    LIST_INIT.update(proxies.canonical_list_names(CTL.logs))
    alive = [i for i, t in enumerate(threads) if t.is_alive()]
    errors = list(CTL.errors) + (['threads still alive: %r' % alive] if alive else [])
    final = _dump(gc, names)
    return [list(CTL.logs[i]) for i in range(len(programs))], results, errors, final, names
  finally:
    undo_tap()
    undo()


def sequential_finals(programs, setup, limit=24):
  """Final shared states of running the programs one after another in EVERY order
  (the identity order first).  A statement of the form "the final state equals that
  of running the same calls one after another" does not fix the order, so a final
  state is accepted when it equals that of some order.  LIST_INIT / CELL_INIT are
  left as the identity-order run set them."""
  import itertools
  out = []
  keep_l, keep_c = None, None
  for n, perm in enumerate(itertools.permutations(range(len(programs)))):
    if n >= limit:
      break
    _, results, errors, final, _ = run([programs[i] for i in perm], setup, 'solo')
    if n == 0:
      keep_l, keep_c = dict(LIST_INIT), dict(CELL_INIT)
    out.append(final)
  LIST_INIT.clear()
  LIST_INIT.update(keep_l or {})
  CELL_INIT.clear()
  CELL_INIT.update(keep_c or {})
  return out


def shared_objects(all_traces):
  """Objects touched by >= 2 threads with at least one write (locks: >= 2 threads)."""
  users, writers = {}, set()
  for traces in all_traces:             # traces: list (per thread) of event lists
    for i, tr in enumerate(traces):
      for ev in tr:
        users.setdefault(ev.obj, set()).add(i)
        if ev.writes is not None or ev.op in ('acquire', 'release', 'effect'):
          writers.add(ev.obj)
  return {o for o, u in users.items() if o in writers and (len(u) >= 2 or o.startswith('external:'))}


def _bmc():
  from vf.sched import bmc     # needs z3: only the solving side imports it (replays do not)
  return bmc


class Atomic:
  """A critical section executed as one step (see Scenario.build)."""

  def __init__(self, lock, inner):
    self.obj, self.op = 'CS:' + lock, 'atomic'
    self.key = None
    self.obs = tuple((e.sig(), e.obs) for e in inner)   # the whole section is the observation
    self.writes = ('ATOMIC', inner)
    self.reallen = len(inner) + 2

  def sig(self):
    return (self.obj, self.op, self.key)


def sections_ok(trace, guard, bad):
  """Adds to `bad` every lock that has a critical section which cannot be compressed."""
  i = 0
  while i < len(trace):
    ev = trace[i]
    if ev.op == 'acquire':
      j = i + 1
      while j < len(trace) and trace[j].op not in ('acquire', 'release'):
        j += 1
      if not (j < len(trace) and trace[j].op == 'release' and trace[j].obj == ev.obj and
              all(guard.get(e.obj) == ev.obj for e in trace[i + 1:j])):
        bad.add(ev.obj)
    i += 1


def compress(trace, guard, bad=frozenset()):
  """[acquire L, e1..ek, release L] -> one Atomic step when every ej is on an object
  that is only ever accessed under L (then no other thread can observe or disturb
  the section, and the section commutes with everything else other threads do)."""
  out = []
  i = 0
  while i < len(trace):
    ev = trace[i]
    if ev.op == 'acquire':
      j = i + 1
      while j < len(trace) and trace[j].op not in ('acquire', 'release'):
        j += 1
      if (ev.obj not in bad and j < len(trace) and trace[j].op == 'release' and trace[j].obj == ev.obj and
          all(guard.get(e.obj) == ev.obj for e in trace[i + 1:j])):
        out.append(Atomic(ev.obj, trace[i + 1:j]))
        i = j + 1
        continue
    out.append(ev)
    i += 1
  return out


class Scenario:
  """One multi-threaded scenario: programs + setup + property queries."""

  def __init__(self, name, programs, setup, prop, check_result=None, ignore=(), permute=False,
               final_objects=()):
    self.name, self.programs, self.setup = name, programs, setup
    # object-name prefixes whose final contents are compared with the sequential run(s) after EVERY
    # forced run, whether or not the model contains them (a record replaced as a whole is a write to
    # the outer dict only; its contents are then visible in the dump, not in the events)
    self.final_objects = tuple(final_objects)
    self.permute = permute            # accept the final state of ANY sequential order (see sequential_finals)
    self.seq_finals = None
    self.ignore = tuple(ignore)   # object-name prefixes abstracted away in this scenario
    self.prop = prop                  # function(model) -> list of (label, z3 constraint list)
    self.check_result = check_result  # function(results, final) -> violation text or None
    self.raw = []                     # all recorded raw traces (list per run of per-thread lists)
    self.forced_runs = 0
    self.stats = dict(queries=0, solver_s=0.0, states=0, learn_iters=0)
    self.infra = []
    self.samples = []

  def abstract(self, final):
    """Final state restricted to the modelled objects; identity tokens only as presence."""
    out = {}
    for (obj, key), tokv in final.items():
      if obj in self.shared or (self.final_objects and obj.startswith(self.final_objects)):
        out[(obj, key)] = 'present' if str(tokv).startswith(('obj#', 'dict#')) else tokv
    return out

  def final_differs(self, final):
    return self.abstract(final) not in [self.abstract(f) for f in (self.seq_finals or [self.seq_final])]

  def record(self, mode, schedule=(), tail=()):
    traces, results, errors, final, names = run(self.programs, self.setup, mode, schedule, tail,
                                                getattr(self, 'shared', None))
    self.names = names
    self.raw.append(traces)
    if mode == 'forced':
      self.forced_runs += 1
    return traces, results, errors, final

  def build(self):
    shared = {o for o in shared_objects(self.raw) if not o.startswith(self.ignore)} if self.ignore else shared_objects(self.raw)
    # lock discipline: objects whose every access (any thread, any run) happens under one lock
    ctx = {}
    for traces in self.raw:
      for tr in traces:
        held = []
        for ev in tr:
          if ev.op == 'acquire':
            held.append(ev.obj)
          elif ev.op == 'release':
            if ev.obj in held:
              held.remove(ev.obj)
          elif ev.obj in shared:
            ctx.setdefault(ev.obj, []).append(frozenset(held))
    guard = {}
    for obj, hs in ctx.items():
      common = frozenset.intersection(*hs)
      if common:
        guard[obj] = sorted(common)[0]
    tries = [_bmc().Trie() for _ in self.programs]
    bad = set()          # locks with at least one section that is not a plain guarded block
    for traces in self.raw:
      for tr in traces:
        sections_ok([ev for ev in tr if ev.obj in shared], guard, bad)
    for traces in self.raw:
      for i, tr in enumerate(traces):
        tries[i].add(compress([ev for ev in tr if ev.obj in shared], guard, bad))
    self.shared = shared
    self.guard = guard
    model = _bmc().Model(tries, init_present=dict(CELL_INIT), list_init=dict(LIST_INIT))
    return model

  def solve(self, max_iters=40):
    """Returns (violations, exhaustive flag)."""
    violations = []
    # 1. solo recordings in both sequential orders seed the tries
    _, results, errors, self.seq_final = self.record('solo')
    self.seq_results = results
    if errors:
      self.infra.append('%s: recording errors %r' % (self.name, errors))
    if self.check_result:
      v = self.check_result(results, self.seq_final)
      if v:
        violations.append(('sequential run: ' + v, []))
        return violations, False
    if self.permute:
      self.seq_finals = sequential_finals(self.programs, self.setup)
    # 2. learning loop: ask for a schedule reaching an unrecorded observation, run it
    model = None
    for it in range(max_iters):
      model = self.build()
      self.stats['learn_iters'] = it + 1
      dv = model.first_divergence()
      self.stats['queries'] += model.queries
      self.stats['solver_s'] += model.solver_s
      if dv is None:
        break
      sched, who = dv
      order = [who] + [i for i in range(len(self.programs)) if i != who]
      traces, results, errors, final = self.record('forced', sched, order)
      if CTL.unfaithful:
        self.infra.append('%s: a forced run went on without a lock it needed (%r): ignored' % (self.name, errors))
        continue
      if self.check_result:
        v = self.check_result(results, final)
        if v:
          # found while exploring: confirm by running the same schedule again
          # (reported with the complete schedule that was run, so that the replay does not depend
          # on the order in which the tail phase let the threads finish)
          violations.append((v, list(CTL.executed)))
          return violations, False
      if self.final_objects and not errors and self.final_differs(final):
        violations.append(('final shared state differs from the sequential one', list(CTL.executed)))
        return violations, False
      model = None
    else:
      self.infra.append('%s: observation tries did not close in %d iterations' % (self.name, max_iters))
      return violations, False
    self.stats['states'] = model.T * sum(len(t.nodes) for t in model.tries)
    # 3. property queries over ALL schedules of the closed model
    exhaustive = True
    for label, extra in self.prop(model, self):
      r = model.ask(extra)
      if r is None:
        continue
      _, m = r
      sched = list(model.last_expanded)
      traces, results, errors, final = self.record('forced', sched, list(range(len(self.programs))))
      if CTL.unfaithful:
        self.infra.append('%s: the forced run for "%s" went on without a lock it needed (%r): ignored' %
                          (self.name, label, errors))
        exhaustive = False
        continue
      v = self.check_result(results, final) if self.check_result else None
      if v is None and (label.startswith('final') or self.final_objects) and self.final_differs(final):
        v = 'final shared state differs from the sequential one'
      if v:
        violations.append(('%s: %s' % (label, v), sched))
      else:
        self.infra.append('%s: solver schedule for "%s" does not reproduce on real threads: %r %r' %
                          (self.name, label, sched, errors))
        exhaustive = False
    self.stats['queries'] += model.queries
    self.stats['solver_s'] += model.solver_s
    self.samples.append({'scenario': self.name,
                         'shared_objects': sorted(self.shared),
                         'trie_nodes': [len(t.nodes) for t in model.tries],
                         'steps': model.T,
                         'example_trace': [repr(e.as_tuple()) for e in
                                           [ev for ev in self.raw[0][0] if ev.obj in self.shared][:8]]})
    return violations, exhaustive


def standard_queries(model, scen):
  import z3
  """(a) an error event in some thread, (b) a final state different from the sequential one."""
  out = [('error event (KeyError / dict changed size during iteration / deadlock)',
          [model.bad[model.T], z3.Not(model.div[model.T])])]
  # the final state must equal that of SOME sequential order (one order unless scen.permute)
  differs_from_all, seen = [], []
  for seq_final in (getattr(scen, 'seq_finals', None) or [scen.seq_final]):
    key = sorted((c, _bmc().abs_tok(t)) for c, t in seq_final.items() if c in model.cells)
    if key in seen:
      continue
    seen.append(key)
    diffs = []
    for c, ci in model.cells.items():
      want_p = c in seq_final
      diffs.append(model.pres[ci][model.T] != want_p)
      if want_p and _bmc().abs_tok(seq_final[c]) in model.tokens:
        diffs.append(z3.And(model.pres[ci][model.T],
                            model.val[ci][model.T] != model.tokens[_bmc().abs_tok(seq_final[c])]))
    if diffs:
      differs_from_all.append(z3.Or(diffs))
  if differs_from_all:
    out.append(('final state', [z3.Not(model.bad[model.T]), z3.Not(model.div[model.T]),
                                model.all_done_end, z3.And(differs_from_all)]))
  return out
