"""Logging / scheduling proxies for the module-level shared state of gin.config.

Every operation a *registered* thread performs on a proxied object is one
EVENT.  In record mode events are appended to the thread's log; in forced mode
the operation first waits until the schedule grants this thread the next step
(so a schedule found by the solver can be imposed on real threads running the
real code).  The operation itself runs while the thread holds the turn, i.e.
events are atomic with respect to each other, exactly like single dict
operations under the GIL.
"""
import threading

_REAL_LOCK_TYPE = type(threading.Lock())
_REAL_RLOCK_TYPE = type(threading.RLock())


class Event:
  __slots__ = ('obj', 'op', 'key', 'obs', 'writes', 'thread')

  def __init__(self, obj, op, key=None):
    self.obj, self.op, self.key = obj, op, key
    self.obs = None          # observation that can influence the continuation
    self.writes = None       # {cell key: value token} or 'CLEAR'
    self.thread = None

  def sig(self):
    return (self.obj, self.op, self.key)

  def as_tuple(self):
    return (self.obj, self.op, self.key, self.obs,
            tuple(sorted(self.writes.items())) if isinstance(self.writes, dict) else self.writes)

  def __repr__(self):
    return 'Event%r' % (self.as_tuple(),)


class ModelMismatch(Exception):
  pass


class Controller:
  """Record / forced-schedule controller shared by all proxies."""

  def __init__(self):
    self.mode = 'off'
    self.tids = {}            # threading ident -> logical thread index
    self.logs = {}            # logical index -> [Event]
    self.cv = threading.Condition()
    self.schedule = []        # forced mode: list of logical thread indices
    self.pos = 0
    self.finished = set()
    self.tail = []            # after the schedule prefix: run threads to completion in this order
    self.errors = []
    self.timeout = 20.0
    self.shared = None        # forced mode: only events on these objects consume schedule steps
    self.executed = []
    self.unfaithful = False   # a forced run went on without a lock it needed (controller gave up): not an execution
    self.blocked = set()      # forced mode, tail phase: threads waiting for a lock another thread holds

  # -- thread registration ----------------------------------------------------------
  def register(self, index):
    self.tids[threading.get_ident()] = index
    self.logs.setdefault(index, [])

  def me(self):
    return self.tids.get(threading.get_ident())

  def done(self, index):
    with self.cv:
      self.finished.add(index)
      self.blocked.discard(index)
      self.cv.notify_all()

  # -- the step protocol -----------------------------------------------------------------
  def _whose_turn(self):
    """Logical thread allowed to perform the next event (forced mode)."""
    while self.pos < len(self.schedule) and (self.schedule[self.pos] in self.finished or
                                             self.schedule[self.pos] in self.blocked):
      # a finished thread, or one that waits for a lock another thread holds, cannot take its step:
      # skip (recorded as a mismatch between the requested schedule and the real code)
      self.errors.append('schedule step for a %s thread' % (
          'finished' if self.schedule[self.pos] in self.finished else 'blocked'))
      self.pos += 1
    if self.pos < len(self.schedule):
      return self.schedule[self.pos]
    for i in self.tail:
      if i not in self.finished and i not in self.blocked:
        return i
    return None

  def _is_shared_list(self, raw):
    """Lists get their canonical name ('<attr>@shared#k' / '<attr>@T<i>#k') only AFTER a run, from who used
    them; during a forced run an event still carries the raw name.  A list stored under an attribute for
    which the recorded runs found a list shared between threads takes scheduled steps like every other
    shared object (otherwise the requested interleaving of exactly those events is left to chance)."""
    for p in _PLISTS.values():
      if p._pname == raw:
        pref = '%s@shared#' % p._attr
        return any(s.startswith(pref) for s in self.shared)
    return False

  def begin(self, ev):
    i = self.me()
    if i is None or self.mode == 'off':
      return None
    ev.thread = i
    if (self.mode == 'forced' and self.shared is not None and ev.obj not in self.shared
        and not self._is_shared_list(ev.obj)):
      return ('free', i)
    if self.mode == 'forced':
      with self.cv:
        ok = self.cv.wait_for(lambda: self._whose_turn() in (i, None), timeout=self.timeout)
        if not ok:
          self.errors.append('thread %d starved waiting for its turn at %r' % (i, ev.sig()))
    return i

  def end(self, i, ev):
    if i is None:
      return
    if isinstance(i, tuple):
      self.logs[i[1]].append(ev)
      return
    self.logs[i].append(ev)
    if self.mode == 'forced':
      self.executed.append(i)     # the complete schedule actually run (prefix + tail phase)
      with self.cv:
        if self.pos < len(self.schedule) and self.schedule[self.pos] == i:
          self.pos += 1
        self.cv.notify_all()


CTL = Controller()


def tok(v):
  """Content token of a stored value (identity for objects without a stable repr)."""
  if isinstance(v, (int, float, str, bool, type(None), tuple, list)):
    try:
      return repr(v)[:80]
    except Exception:
      pass
  if isinstance(v, dict):
    return 'dict#%s' % getattr(v, '_pname', id(v))
  return 'obj#%d' % id(v)


class PDict(dict):
  """dict whose operations by registered threads are events."""

  def __init__(self, name, *a, **k):
    dict.__init__(self, *a, **k)
    self._pname = name

  def _child(self, key, value):
    if type(value) is dict:
      return PDict('%s[%r]' % (self._pname, key), value)
    return value

  def _run(self, ev, fn):
    i = CTL.begin(ev)
    try:
      return fn()
    finally:
      CTL.end(i, ev)

  def __contains__(self, key):
    ev = Event(self._pname, 'contains', repr(key))
    def fn():
      r = dict.__contains__(self, key)
      ev.obs = r
      return r
    return self._run(ev, fn)

  def __getitem__(self, key):
    ev = Event(self._pname, 'getitem', repr(key))
    def fn():
      ev.obs = dict.__contains__(self, key)
      return dict.__getitem__(self, key)
    return self._run(ev, fn)

  def get(self, key, default=None):
    ev = Event(self._pname, 'get', repr(key))
    def fn():
      ev.obs = dict.__contains__(self, key)
      return dict.get(self, key, default)
    return self._run(ev, fn)

  def __setitem__(self, key, value):
    ev = Event(self._pname, 'setitem', repr(key))
    def fn():
      v = self._child(key, value)
      ev.writes = {repr(key): tok(v)}
      dict.__setitem__(self, key, v)
    return self._run(ev, fn)

  def setdefault(self, key, default=None):
    ev = Event(self._pname, 'setdefault', repr(key))
    def fn():
      ev.obs = dict.__contains__(self, key)
      if not ev.obs:
        v = self._child(key, default)
        ev.writes = {repr(key): tok(v)}
        dict.__setitem__(self, key, v)
      return dict.__getitem__(self, key)
    return self._run(ev, fn)

  def update(self, *a, **k):
    ev = Event(self._pname, 'update', None)
    def fn():
      new = dict(*a, **k)
      ev.key = repr(sorted(map(repr, new)))
      ev.writes = {repr(kk): tok(vv) for kk, vv in new.items()}
      for kk, vv in new.items():
        dict.__setitem__(self, kk, self._child(kk, vv))
    return self._run(ev, fn)

  def pop(self, key, *default):
    ev = Event(self._pname, 'pop', repr(key))
    def fn():
      ev.obs = dict.__contains__(self, key)
      if ev.obs:
        ev.writes = {repr(key): None}
      return dict.pop(self, key, *default)
    return self._run(ev, fn)

  def clear(self):
    ev = Event(self._pname, 'clear', None)
    def fn():
      ev.writes = 'CLEAR'
      dict.clear(self)
    return self._run(ev, fn)

  def __len__(self):
    return dict.__len__(self)

  def copy(self):
    ev = Event(self._pname, 'bulk_read', None)
    def fn():
      ev.obs = tuple(sorted(map(repr, dict.keys(self))))
      return dict.copy(self)
    return self._run(ev, fn)

  # ---- iteration -------------------------------------------------------------------------
  def items(self):
    return _PView(self, 'items')

  def keys(self):
    return _PView(self, 'keys')

  def values(self):
    return _PView(self, 'values')

  def __iter__(self):
    return iter(_PView(self, 'keys'))


class _PView:
  """View whose Python-level iteration is a sequence of events; consumption by a
  C-level bulk consumer (list(), sorted(), dict.update: they ask for the length
  first) is ONE atomic event, as it is for a real dict under the GIL."""

  def __init__(self, d, kind):
    self._d, self._kind, self._bulk = d, kind, False

  def _real(self):
    return getattr(dict, self._kind)(self._d)

  def __len__(self):
    self._bulk = True
    return dict.__len__(self._d)

  def __contains__(self, x):
    return x in self._real()

  def __iter__(self):
    d = self._d
    if self._bulk:
      self._bulk = False
      ev = Event(d._pname, 'bulk_read', None)
      def fn():
        ev.obs = tuple(sorted(map(repr, dict.keys(d))))
        return list(self._real())
      return iter(d._run(ev, fn))
    return self._gen()

  def _gen(self):
    d = self._d
    ev = Event(d._pname, 'iter_start', None)
    def start():
      ev.obs = tuple(sorted(map(repr, dict.keys(d))))
      return iter(self._real())
    it = d._run(ev, start)
    while True:
      ev2 = Event(d._pname, 'iter_next', None)
      box = []
      def nxt():
        try:
          box.append(next(it))
          ev2.obs = 'item'
        except StopIteration:
          ev2.obs = 'stop'
        except RuntimeError:
          ev2.obs = 'RuntimeError'
          raise
      d._run(ev2, nxt)
      if not box:
        return
      yield box[0]


class PList:
  """Event-producing view of a real list (the list itself stays the one Gin uses)."""

  def __init__(self, name, real):
    self._pname, self._real = name, real

  def _run(self, ev, fn):
    i = CTL.begin(ev)
    try:
      return fn()
    finally:
      CTL.end(i, ev)

  def append(self, x):
    ev = Event(self._pname, 'push', None)
    def fn():
      ev.writes = {'top': tok(x)}
      self._real.append(x)
    return self._run(ev, fn)

  def pop(self, *a):
    if a and a[0] != -1:
      raise NotImplementedError('PList.pop(index)')
    ev = Event(self._pname, 'pop_top', None)
    def fn():
      ev.writes = {'top': None}
      r = self._real.pop()
      ev.obs = tok(r)              # the popped value may steer the thread
      return r
    return self._run(ev, fn)

  def __delitem__(self, idx):
    if not (isinstance(idx, slice) and idx.stop is None and idx.step is None and
            isinstance(idx.start, int) and idx.start >= 0):
      raise NotImplementedError('PList.__delitem__(%r)' % (idx,))
    ev = Event(self._pname, 'truncate', repr(idx.start))
    def fn():
      ev.writes = {'len': idx.start}
      del self._real[idx]
    return self._run(ev, fn)

  def __setitem__(self, idx, value):
    raise NotImplementedError('PList.__setitem__')

  def extend(self, xs):
    for x in xs:
      self.append(x)

  def clear(self):
    del self[0:]

  def __getitem__(self, idx):
    if isinstance(idx, slice):
      ev = Event(self._pname, 'read_all', None)
      def fn():
        ev.obs = tuple(tok(x) for x in self._real)
        return self._real[idx]
      return self._run(ev, fn)
    ev = Event(self._pname, 'read_top' if idx == -1 else 'read_at', repr(idx))
    def fn():
      r = self._real[idx]
      ev.obs = tok(r)
      return r
    return self._run(ev, fn)

  def __len__(self):
    return len(self._real)

  def __iter__(self):
    return iter(self._real[:])


_PLISTS = {}


def _is_data_attr(obj, cls, name, value, base_get, had):
  """True when `value` is stored under `name` on the instance (per thread for a
  threading.local) or on the class - not computed by a property."""
  for k in cls.__mro__:
    if vars(k).get(name) is value:
      return True
  try:
    d = base_get(obj, '__dict__') if had is None else had(obj, '__dict__')
  except Exception:
    return False
  return d.get(name) is value


def tap_instance_lists(cls, attr_names):
  """Makes reads of the named list attributes on instances of `cls` return PList
  views named after the identity of the list the reading thread actually got -
  this is what tells a per-thread (threading.local) list from a shared one."""
  base_get = None
  for b in cls.__mro__[1:]:
    if '__getattribute__' in vars(b):
      base_get = vars(b)['__getattribute__']
      break
  had = vars(cls).get('__getattribute__')

  def tapped(self, name):
    v = base_get(self, name) if had is None else had(self, name)
    if (type(v) is list and not name.startswith('__') and CTL.mode != 'off' and CTL.me() is not None
        and _is_data_attr(self, cls, name, v, base_get, had)):
      key = id(v)
      p = _PLISTS.get(key)
      if p is None or p._real is not v:
        p = PList('%s.%s#%d' % (cls.__name__, name, len(_PLISTS)), v)
        p._init = tuple(tok(x) for x in v)
        p._attr = '%s.%s' % (cls.__name__, name)
        _PLISTS[key] = p
      return p
    return v

  cls.__getattribute__ = tapped

  def undo():
    if had is None:
      del cls.__getattribute__
    else:
      cls.__getattribute__ = had
  return undo


def canonical_list_names(logs):
  """Renames list objects after a run: a list touched by one thread is
  '<attr>@T<i>#<k>', a list touched by several threads '<attr>@shared#<k>'.
  Returns {new name: initial contents}."""
  users = {}
  for i, tr in logs.items():
    for ev in tr:
      users.setdefault(ev.obj, [])
      if i not in users[ev.obj]:
        users[ev.obj].append(i)
  rename, init = {}, {}
  counters = {}
  for p in sorted(_PLISTS.values(), key=lambda q: q._pname):
    u = users.get(p._pname)
    if not u:
      continue
    tag = 'T%d' % u[0] if len(u) == 1 else 'shared'
    k = counters.get((p._attr, tag), 0)
    counters[(p._attr, tag)] = k + 1
    new = '%s@%s#%d' % (p._attr, tag, k)
    rename[p._pname] = new
    init[new] = p._init
  for tr in logs.values():
    for ev in tr:
      if ev.obj in rename:
        ev.obj = rename[ev.obj]
  _PLISTS.clear()
  return init


class SelfDeadlock(RuntimeError):
  """A thread asked (blocking, without timeout) for a non-reentrant lock it already
  holds.  On a real lock this blocks for ever; the proxy raises instead so that the
  thread fails visibly (in record mode as well as under a forced schedule)."""


class PLock:
  """Wrapper around a real lock; acquire/release by registered threads are events.

  Reentrant locks: only the OUTERMOST acquire / release of a thread are events.  An inner
  acquire by the holder can neither block nor change the holder, so it commutes with every
  event of every other thread; folding it keeps a nested critical section one plain section
  [acquire, ..., release] (which the lock-discipline reduction of the driver can compress) and
  keeps the model's lock state a plain holder.  If the lock is NOT reentrant, the same inner
  acquire is a self-deadlock and raises SelfDeadlock in the acquiring thread."""

  def __init__(self, name, real, reentrant=False):
    self._pname, self._real, self._reentrant = name, real, reentrant
    self._owner, self._depth = None, 0     # maintained by the holder only
    self._owner_idx = None                 # logical index of the holder (None: free / unregistered thread)

  def acquire(self, blocking=True, timeout=-1):
    me = threading.get_ident()
    if self._owner == me:
      if self._reentrant:
        got = self._real.acquire(blocking, timeout)
        if got:
          self._depth += 1
        return got
      if blocking and timeout == -1:
        raise SelfDeadlock('self-deadlock: thread re-acquires the non-reentrant lock %s that it '
                           'already holds' % self._pname)
    ev = Event(self._pname, 'acquire', None)
    i = CTL.begin(ev)
    got = False
    try:
      if i is not None and not isinstance(i, tuple) and CTL.mode == 'forced':
        got = self._real.acquire(False)
        while not got:
          # The lock is held by another thread.  Whatever the requested schedule says, the execution
          # must stay one the real code can perform: this thread gives its step up, lets the others
          # run and retries when the lock has been released (in the prescribed prefix this is noted as
          # a mismatch; in the tail phase, where threads simply run to completion, it is normal).
          holder = self._owner_idx
          with CTL.cv:
            if CTL.pos < len(CTL.schedule):
              CTL.errors.append('forced schedule grants an acquire of a held lock')
            if holder is not None and holder in CTL.finished:
              raise SelfDeadlock('deadlock: lock %s was left held by a thread that has finished' % self._pname)
            CTL.blocked.add(i)
            CTL.cv.notify_all()
            ok = CTL.cv.wait_for(lambda: i not in CTL.blocked or
                                 (self._owner_idx is not None and self._owner_idx in CTL.finished),
                                 timeout=CTL.timeout)
            CTL.blocked.discard(i)
          if not ok:
            CTL.errors.append('thread %d starved waiting for lock %s' % (i, self._pname))
            break
          with CTL.cv:
            CTL.cv.wait_for(lambda: CTL._whose_turn() in (i, None), timeout=CTL.timeout)
          got = self._real.acquire(False)
        if not got:
          got = self._real.acquire(True, 5)
          if not got:
            CTL.unfaithful = True
        return got
      if i is not None and CTL.mode == 'record' and blocking and timeout == -1:
        # solo recording: one program thread runs at a time, so a lock that is not free now is held
        # by a thread that has finished (it will never be released): fail instead of hanging
        got = self._real.acquire(False)
        if not got:
          raise SelfDeadlock('deadlock: lock %s was left held by a thread that has finished' % self._pname)
        return got
      got = self._real.acquire(blocking, timeout)
      return got
    finally:
      if got:
        self._owner, self._depth = me, 1
        self._owner_idx = CTL.me()
      CTL.end(i, ev)

  def release(self):
    if self._reentrant and self._owner == threading.get_ident() and self._depth > 1:
      self._depth -= 1
      self._real.release()
      return
    ev = Event(self._pname, 'release', None)
    i = CTL.begin(ev)
    try:
      self._owner, self._depth, self._owner_idx = None, 0, None
      self._real.release()
      if CTL.blocked:
        with CTL.cv:
          CTL.blocked.clear()       # waiters retry (in tail order)
          CTL.cv.notify_all()
    finally:
      CTL.end(i, ev)

  def __enter__(self):
    self.acquire()
    return self

  def __exit__(self, *a):
    self.release()
    return False

  def locked(self):
    return self._real.locked()


def external(name, key=None):
  """An effect outside Gin's stores that the property counts (e.g. a constructor call)."""
  ev = Event('external:' + name, 'effect', repr(key))
  i = CTL.begin(ev)
  ev.writes = {'count': 'inc'}
  CTL.end(i, ev)


EXTERNAL_DICTS = []


def external_dict(name):
  """A harness-owned shared cell store (for example "this constructor has not failed yet") whose
  accesses are events like those of Gin's own dicts.  Object name 'external:<name>'; its contents
  right after setup() and at the end of a run are part of the dumped state (driver._dump)."""
  d = PDict('external:' + name)
  EXTERNAL_DICTS.append(d)
  return d


def install(module):
  """Replaces every module-level dict / Lock / RLock of `module` by a proxy (dict values that
  are themselves plain dicts become child proxies named parent[key]).  Returns an undo function
  and the list of names that were wrapped (reported in the evidence).

  NOT wrapped, hence invisible to the engine: module-level lists and sets (gin.config:
  _PARSE_CONTEXTS, _IMPORTS, _FINALIZE_HOOKS ...), instances such as SelectorMap (_REGISTRY,
  _CONSTANTS) and the dicts inside them, locks created at run time.  The scope stacks are
  covered separately by tap_instance_lists."""
  saved = {}
  names = []
  for name, val in list(vars(module).items()):
    if name.startswith('__'):
      continue            # __builtins__ and friends are not Gin state
    if type(val) is dict:
      saved[name] = val
      p = PDict(name, val)
      for k in list(dict.keys(p)):
        if type(dict.__getitem__(p, k)) is dict:
          dict.__setitem__(p, k, PDict('%s[%r]' % (name, k), dict.__getitem__(p, k)))
      setattr(module, name, p)
      names.append(name)
    elif isinstance(val, _REAL_LOCK_TYPE):
      saved[name] = val
      setattr(module, name, PLock(name, val))
      names.append(name)
    elif isinstance(val, _REAL_RLOCK_TYPE):
      saved[name] = val
      setattr(module, name, PLock(name, val, reentrant=True))
      names.append(name)

  def undo():
    for name, val in saved.items():
      cur = getattr(module, name)
      if isinstance(cur, PDict):
        val.clear()
        for k, v in dict.items(cur):
          val[k] = dict(v) if isinstance(v, PDict) else v
      setattr(module, name, val)
  return undo, names
