"""Schedule-symbolic bounded model checking (z3) over recorded event programs.

Each logical thread is a TRIE of recorded traces: a node carries the event the
thread performs next, its children are keyed by the observation that event can
make (dict membership, the key set seen by an iterator ...).  The schedule
(which thread performs step t) is the symbolic variable; the shared state
(presence bit and content token per dict cell, structure version per dict,
lock holders, effect counters) is unrolled for T = total number of events.
"""
import time

import z3


def abs_tok(t):
  """Identity tokens (addresses are reused between runs) only count as 'present'."""
  return 'present' if str(t).startswith(('obj#', 'dict#')) else t


class Trie:

  def __init__(self):
    self.nodes = [{'event': None, 'children': {}, 'writes': None, 'variants': {}}]

  def add(self, trace):
    """trace: list of proxies.Event; returns True if something new was learnt."""
    new = False
    n = 0
    for ev in trace:
      node = self.nodes[n]
      if node['event'] is None:
        node['event'] = ev.sig()
        new = True
      elif node['event'] != ev.sig():
        raise ValueError('thread is not deterministic given its observations: %r vs %r' %
                         (node['event'], ev.sig()))
      obs = ev.obs
      if obs not in node['children']:
        self.nodes.append({'event': None, 'children': {}, 'writes': None, 'variants': {}})
        node['children'][obs] = len(self.nodes) - 1
        node['variants'][obs] = ev.writes
        node.setdefault('reallen', {})[obs] = getattr(ev, 'reallen', 1)
        new = True
      n = node['children'][obs]
    return new

  def depth(self):
    best = 0
    stack = [(0, 0)]
    while stack:
      n, d = stack.pop()
      best = max(best, d)
      for c in self.nodes[n]['children'].values():
        stack.append((c, d + 1))
    return best


class Model:
  """Unrolled transition system for a list of Tries."""

  K = 8   # capacity of a modelled list (scope stacks are far shallower)
  TIMEOUT_MS = 120000   # per solver query ("unknown" is an infrastructure error, never a verdict)

  def __init__(self, tries, init_present=None, list_init=None):
    self.tries = tries
    self.N = len(tries)
    self.T = sum(t.depth() for t in tries)
    self.cells = {}       # (obj, key) -> index
    self.objs = {}        # dict object name -> index
    self.locks = {}
    self.effects = {}
    self.lists = {}
    self.list_init = list_init or {}
    self.tokens = {None: 0}
    for t in tries:
      for node in t.nodes:
        if node['event'] is None:
          continue
        obj, op, key = node['event']
        if op in ('acquire', 'release'):
          self.locks.setdefault(obj, len(self.locks))
          continue
        if op == 'effect':
          self.effects.setdefault((obj, key), len(self.effects))
          continue
        if op == 'atomic':
          self.locks.setdefault(obj[3:], len(self.locks))
          for obs, w in node['variants'].items():
            for ie in w[1]:
              self._discover(ie.obj, ie.op, ie.key, ie.obs, ie.writes)
          continue
        for obs, w in node['variants'].items():
          self._discover(obj, op, key, obs, w)
    self.init_present = init_present or {}
    for init in self.list_init.values():
      for tk in init:
        self.tokens.setdefault(abs_tok(tk), len(self.tokens))
    for tk in self.init_present.values():
      self.tokens.setdefault(abs_tok(tk), len(self.tokens))
    self.solver_s = 0.0
    self.queries = 0
    self._build()

  LIST_OPS = ('push', 'pop_top', 'read_top', 'read_all', 'read_at', 'truncate')

  def _discover(self, obj, op, key, obs, w):
    if op == 'effect':
      self.effects.setdefault((obj, key), len(self.effects))
      return
    if op in self.LIST_OPS:
      self.lists.setdefault(obj, len(self.lists))
      if isinstance(w, dict):
        for tokv in w.values():
          self.tokens.setdefault(abs_tok(tokv), len(self.tokens))
      if op in ('read_top', 'read_at', 'pop_top'):
        self.tokens.setdefault(abs_tok(obs), len(self.tokens))
      if op == 'read_all':
        for tk in obs:
          self.tokens.setdefault(abs_tok(tk), len(self.tokens))
      return
    self.objs.setdefault(obj, len(self.objs))
    if op in ('contains', 'getitem', 'get', 'setitem', 'setdefault', 'pop'):
      self.cells.setdefault((obj, key), len(self.cells))
    if isinstance(w, dict):
      for k, tokv in w.items():
        self.cells.setdefault((obj, k), len(self.cells))
        self.tokens.setdefault(abs_tok(tokv), len(self.tokens))
    if isinstance(obs, tuple) and op in ('iter_start', 'bulk_read', 'copy'):
      for k in obs:
        self.cells.setdefault((obj, k), len(self.cells))

  def cells_of(self, obj):
    return [(c, i) for c, i in self.cells.items() if c[0] == obj]

  def cells_under(self, obj):
    """Cells of `obj` and of the child dicts stored in it (named obj[key]): clearing the outer
    dict makes the children unreachable, so the dumped state no longer shows their cells."""
    return [(c, i) for c, i in self.cells.items() if c[0] == obj or c[0].startswith(obj + '[')]

  def _build(self):
    T, N = self.T, self.N
    W = 10
    I = lambda name: z3.BitVec(name, W)
    B = z3.Bool
    self.W = W
    IV = lambda v: z3.BitVecVal(v, W)
    self.sched = [I('sched_%d' % t) for t in range(T)]
    self.node = [[I('node_%d_%d' % (i, t)) for t in range(T + 1)] for i in range(N)]
    self.pres = [[B('pres_%d_%d' % (c, t)) for t in range(T + 1)] for c in range(len(self.cells))]
    self.val = [[I('val_%d_%d' % (c, t)) for t in range(T + 1)] for c in range(len(self.cells))]
    self.ver = [[I('ver_%d_%d' % (o, t)) for t in range(T + 1)] for o in range(len(self.objs))]
    self.lock = [[I('lock_%d_%d' % (l, t)) for t in range(T + 1)] for l in range(len(self.locks))]
    self.eff = [[I('eff_%d_%d' % (e, t)) for t in range(T + 1)] for e in range(len(self.effects))]
    # per (thread, dict object): version snapshot taken by the thread's live iterator
    self.snap = [[[I('snap_%d_%d_%d' % (i, o, t)) for t in range(T + 1)] for o in range(len(self.objs))]
                 for i in range(N)]
    self.llen = [[I('llen_%d_%d' % (o, t)) for t in range(T + 1)] for o in range(len(self.lists))]
    self.lcell = [[[I('lcell_%d_%d_%d' % (o, k, t)) for t in range(T + 1)] for k in range(self.K)]
                  for o in range(len(self.lists))]
    self.bad = [B('bad_%d' % t) for t in range(T + 1)]
    self.div = [B('div_%d' % t) for t in range(T + 1)]
    self.divinfo = []     # (t, thread, node, condition) for decoding
    cons = []
    # ---- initial state --------------------------------------------------------------------------
    for i in range(N):
      cons.append(self.node[i][0] == 0)
    for c, ci in self.cells.items():
      cons.append(self.pres[ci][0] == (c in self.init_present))
      cons.append(self.val[ci][0] == IV(self.tokens.get(abs_tok(self.init_present.get(c)), 0)))
    for o in range(len(self.objs)):
      cons.append(self.ver[o][0] == 0)
      for i in range(N):
        cons.append(self.snap[i][o][0] == IV(1023))
    for l in range(len(self.locks)):
      cons.append(self.lock[l][0] == IV(1023))
    for e in range(len(self.effects)):
      cons.append(self.eff[e][0] == 0)
    for name, o in self.lists.items():
      init = self.list_init.get(name, ())
      cons.append(self.llen[o][0] == IV(len(init)))
      for k in range(self.K):
        cons.append(self.lcell[o][k][0] == IV(self.tokens[abs_tok(init[k])] if k < len(init) else 0))
    cons.append(z3.Not(self.bad[0]))
    cons.append(z3.Not(self.div[0]))

    def terminal(i, t):
      return z3.Or([self.node[i][t] == n for n, nd in enumerate(self.tries[i].nodes)
                    if nd['event'] is None])

    for t in range(T):
      all_done = z3.And([terminal(i, t) for i in range(N)])
      cons.append(z3.ULT(self.sched[t], IV(N)))
      # accumulate guarded updates
      upd_pres = {c: [] for c in range(len(self.cells))}
      upd_val = {c: [] for c in range(len(self.cells))}
      upd_ver = {o: [] for o in range(len(self.objs))}
      upd_lock = {l: [] for l in range(len(self.locks))}
      upd_eff = {e: [] for e in range(len(self.effects))}
      upd_snap = {(i, o): [] for i in range(N) for o in range(len(self.objs))}
      upd_node = {i: [] for i in range(N)}
      upd_llen = {o: [] for o in range(len(self.lists))}
      upd_lcell = {(o, k): [] for o in range(len(self.lists)) for k in range(self.K)}
      bad_now, div_now = [], []
      enabled_any = []
      for i in range(N):
        active = self.sched[t] == i
        for n, nd in enumerate(self.tries[i].nodes):
          if nd['event'] is None:
            continue
          obj, op, key = nd['event']
          at = self.node[i][t] == n
          g = z3.And(active, at)
          enabled = z3.BoolVal(True)
          # ---- which child is taken: condition per observation --------------------------------------
          conds = []
          if op in ('contains', 'getitem', 'get', 'setdefault', 'pop'):
            ci = self.cells[(obj, key)]
            for obs, child in nd['children'].items():
              conds.append((self.pres[ci][t] == bool(obs), obs, child))
            if op == 'getitem':
              bad_now.append(z3.And(g, z3.Not(self.pres[ci][t])))      # KeyError in this thread
          elif op in ('iter_start', 'bulk_read'):
            mine = self.cells_of(obj)
            for obs, child in nd['children'].items():
              conds.append((z3.And([self.pres[ci][t] == (c[1] in obs) for c, ci in mine] or [True]),
                            obs, child))
          elif op == 'iter_next':
            o = self.objs[obj]
            changed = self.snap[i][o][t] != self.ver[o][t]
            # CPython: "dictionary changed size during iteration"
            bad_now.append(z3.And(g, changed))
            for obs, child in nd['children'].items():
              conds.append((z3.BoolVal(True), obs, child))
          elif op in self.LIST_OPS:
            o = self.lists[obj]
            ln = self.llen[o][t]
            top = IV(0)
            for k in range(self.K):
              top = z3.If(ln == IV(k + 1), self.lcell[o][k][t], top)
            if op in ('read_top', 'pop_top'):
              bad_now.append(z3.And(g, ln == IV(0)))            # IndexError in this thread
            if op == 'push':
              bad_now.append(z3.And(g, ln == IV(self.K)))       # model capacity exceeded
            for obs, child in nd['children'].items():
              if op in ('read_top', 'pop_top'):
                conds.append((top == IV(self.tokens[abs_tok(obs)]), obs, child))
              elif op == 'read_all':
                conds.append((z3.And([ln == IV(len(obs))] +
                                     [self.lcell[o][k][t] == IV(self.tokens[abs_tok(tk)])
                                      for k, tk in enumerate(obs)]), obs, child))
              else:
                conds.append((z3.BoolVal(True), obs, child))
          elif op == 'acquire':
            l = self.locks[obj]
            enabled = self.lock[l][t] == IV(1023)
            for obs, child in nd['children'].items():
              conds.append((z3.BoolVal(True), obs, child))
          elif op == 'atomic':
            # a whole critical section [acquire L, events on objects only ever touched
            # under L, release L] performed as ONE step; enabled when L is free
            l = self.locks[obj[3:]]
            enabled = self.lock[l][t] == IV(1023)
            atomic_fx = {}
            for obs, child in nd['children'].items():
              inner = nd['variants'][obs][1]
              lp, lv, bumps, cnd, errs, effs = {}, {}, {}, [], [], []
              P = lambda ci: lp.get(ci, self.pres[ci][t])
              for ie in inner:
                if ie.op == 'effect':
                  effs.append(self.effects[(ie.obj, ie.key)])
                  continue
                if ie.op in ('contains', 'getitem', 'get', 'setdefault', 'pop'):
                  ci = self.cells[(ie.obj, ie.key)]
                  cnd.append(P(ci) == bool(ie.obs))
                  if ie.op == 'getitem':
                    errs.append(z3.Not(P(ci)))
                elif ie.op in ('iter_start', 'bulk_read'):
                  cnd.append(z3.And([P(ci) == (c[1] in ie.obs) for c, ci in self.cells_of(ie.obj)] or [True]))
                if isinstance(ie.writes, dict):
                  o = self.objs[ie.obj]
                  for k, tokv in ie.writes.items():
                    ci = self.cells[(ie.obj, k)]
                    if tokv is None and ie.op == 'pop':
                      bumps.setdefault(o, []).append(P(ci))
                      lp[ci] = z3.BoolVal(False)
                    else:
                      bumps.setdefault(o, []).append(z3.Not(P(ci)))
                      lp[ci] = z3.BoolVal(True)
                      lv[ci] = IV(self.tokens[abs_tok(tokv)])
                elif ie.writes == 'CLEAR':
                  o = self.objs[ie.obj]
                  bumps.setdefault(o, []).append(z3.BoolVal(True))
                  for c, ci in self.cells_under(ie.obj):
                    lp[ci] = z3.BoolVal(False)
              conds.append((z3.And(cnd) if cnd else z3.BoolVal(True), obs, child))
              atomic_fx[obs] = (lp, lv, bumps, errs, effs)
          else:
            for obs, child in nd['children'].items():
              conds.append((z3.BoolVal(True), obs, child))
          cons.append(z3.Implies(g, enabled))
          enabled_any.append(z3.And(at, enabled))
          matched = z3.Or([c for c, _, _ in conds]) if conds else z3.BoolVal(False)
          div_now.append(z3.And(g, z3.Not(matched)))
          self.divinfo.append((t, i, n))
          # ---- effects per child ------------------------------------------------------------------------
          done_one = z3.BoolVal(False)
          for cond, obs, child in conds:
            gc_ = z3.And(g, cond, z3.Not(done_one))
            done_one = z3.Or(done_one, cond)
            upd_node[i].append((gc_, IV(child)))
            w = nd['variants'].get(obs)
            if op == 'atomic':
              lp, lv, bumps, errs, effs = atomic_fx[obs]
              for ci, e_ in lp.items():
                upd_pres[ci].append((gc_, e_))
              for ci, e_ in lv.items():
                upd_val[ci].append((gc_, e_))
              for o, bl in bumps.items():
                upd_ver[o].append((gc_, z3.If(z3.Or(bl), self.ver[o][t] + 1, self.ver[o][t])))
              for e_ in effs:
                upd_eff[e_].append((gc_, self.eff[e_][t] + 1))
              if errs:
                bad_now.append(z3.And(gc_, z3.Or(errs)))
              continue
            if op == 'push':
              o = self.lists[obj]
              tv = IV(self.tokens[abs_tok(list(w.values())[0])])
              for k in range(self.K):
                upd_lcell[(o, k)].append((z3.And(gc_, self.llen[o][t] == IV(k)), tv))
              upd_llen[o].append((gc_, self.llen[o][t] + 1))
              continue
            if op == 'pop_top':
              o = self.lists[obj]
              upd_llen[o].append((gc_, self.llen[o][t] - 1))
              continue
            if op == 'truncate':
              o = self.lists[obj]
              n_ = IV(int(key))
              upd_llen[o].append((gc_, z3.If(z3.ULT(n_, self.llen[o][t]), n_, self.llen[o][t])))
              continue
            if op in self.LIST_OPS:
              continue
            if op == 'acquire':
              upd_lock[self.locks[obj]].append((gc_, IV(i)))
            elif op == 'release':
              upd_lock[self.locks[obj]].append((gc_, IV(1023)))
            elif op == 'effect':
              e = self.effects[(obj, key)]
              upd_eff[e].append((gc_, self.eff[e][t] + 1))
            elif op == 'iter_start':
              o = self.objs[obj]
              upd_snap[(i, o)].append((gc_, self.ver[o][t]))
            if isinstance(w, dict) and op != 'effect':
              o = self.objs[obj]
              bump = []
              for k, tokv in w.items():
                ci = self.cells[(obj, k)]
                if tokv is None and op == 'pop':
                  upd_pres[ci].append((gc_, z3.BoolVal(False)))
                  bump.append(self.pres[ci][t])
                else:
                  upd_pres[ci].append((gc_, z3.BoolVal(True)))
                  upd_val[ci].append((gc_, IV(self.tokens[abs_tok(tokv)])))
                  bump.append(z3.Not(self.pres[ci][t]))
              upd_ver[o].append((gc_, z3.If(z3.Or(bump), self.ver[o][t] + 1, self.ver[o][t])))
            elif w == 'CLEAR':
              o = self.objs[obj]
              for c, ci in self.cells_under(obj):
                upd_pres[ci].append((gc_, z3.BoolVal(False)))
              upd_ver[o].append((gc_, self.ver[o][t] + 1))
      # a scheduled thread must be at a non-terminal node unless everybody is done
      for i in range(N):
        cons.append(z3.Implies(self.sched[t] == i, z3.Or(z3.Not(terminal(i, t)), all_done)))
      deadlock = z3.And(z3.Not(all_done), z3.Not(z3.Or(enabled_any)))

      def fold(updates, cur):
        e = cur
        for g, v in reversed(updates):
          e = z3.If(g, v, e)
        return e
      for c in range(len(self.cells)):
        cons.append(self.pres[c][t + 1] == fold(upd_pres[c], self.pres[c][t]))
        cons.append(self.val[c][t + 1] == fold(upd_val[c], self.val[c][t]))
      for o in range(len(self.objs)):
        cons.append(self.ver[o][t + 1] == fold(upd_ver[o], self.ver[o][t]))
        for i in range(N):
          cons.append(self.snap[i][o][t + 1] == fold(upd_snap[(i, o)], self.snap[i][o][t]))
      for l in range(len(self.locks)):
        cons.append(self.lock[l][t + 1] == fold(upd_lock[l], self.lock[l][t]))
      for e in range(len(self.effects)):
        cons.append(self.eff[e][t + 1] == fold(upd_eff[e], self.eff[e][t]))
      for o in range(len(self.lists)):
        cons.append(self.llen[o][t + 1] == fold(upd_llen[o], self.llen[o][t]))
        for k in range(self.K):
          cons.append(self.lcell[o][k][t + 1] == fold(upd_lcell[(o, k)], self.lcell[o][k][t]))
      for i in range(N):
        cons.append(self.node[i][t + 1] == fold(upd_node[i], self.node[i][t]))
      cons.append(self.bad[t + 1] == z3.Or(self.bad[t], z3.Or(bad_now + [deadlock])))
      cons.append(self.div[t + 1] == z3.Or(self.div[t], z3.And(z3.Not(self.div[t]), z3.Or(div_now))))
      # once diverged the model knows nothing: freeze by forbidding further badness claims
    self.cons = cons
    self.all_done_end = z3.And([terminal(i, T) for i in range(N)])

  def ask(self, extra, need_complete=True):
    """Returns a schedule (list of thread indices) satisfying `extra`, or None."""
    s = z3.Solver()
    s.set('timeout', self.TIMEOUT_MS)
    s.add(self.cons)
    s.add(extra)
    t0 = time.time()
    r = s.check()
    self.solver_s += time.time() - t0
    self.queries += 1
    if str(r) == 'unknown':
      raise RuntimeError('solver returned unknown')
    if str(r) == 'unsat':
      return None
    m = s.model()
    sched = [m.eval(x, model_completion=True).as_long() for x in self.sched]
    # expand compressed (atomic) steps into the number of real shared events they stand for
    self.last_expanded = []
    self.last_steps = []
    for t in range(self.T):
      i = sched[t]
      n0 = m.eval(self.node[i][t], model_completion=True).as_long()
      n1 = m.eval(self.node[i][t + 1], model_completion=True).as_long()
      nd = self.tries[i].nodes[n0] if n0 < len(self.tries[i].nodes) else None
      k = 1
      if nd is not None and nd['event'] is not None:
        for obs, child in nd['children'].items():
          if child == n1:
            k = nd.get('reallen', {}).get(obs, 1)
      if nd is None or nd['event'] is None or n0 == n1:
        k = 0 if (nd is None or nd['event'] is None) else 1
      self.last_steps.append(k)
      self.last_expanded.extend([i] * k)
    return sched, m

  def first_divergence(self):
    """A schedule that reaches an observation for which no continuation is recorded."""
    r = self.ask([self.div[self.T]])
    if r is None:
      return None
    sched, m = r
    # cut the schedule at the diverging step: (expanded real prefix before it, diverging thread)
    for t in range(self.T):
      if z3.is_true(m.eval(self.div[t + 1], model_completion=True)):
        return self.expanded_prefix(t), sched[t]
    return self.last_expanded, sched[-1]

  def expanded_prefix(self, t):
    out = []
    pos = 0
    for k in self.last_steps[:t]:
      out.extend(self.last_expanded[pos:pos + k])
      pos += k
    return out
