"""Reference model of suffix matching over a set of dotted names (C05, C08)."""


def spec_matching(names, q):
  """Names addressed by `q`: an exact match wins, otherwise every name ending with `.q`."""
  if q in names:
    return [q]
  return sorted(n for n in names if n == q or n.endswith('.' + q))
