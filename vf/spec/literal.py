"""Reference recogniser/evaluator for the literal grammar G of property C02.

Written from the property text.  Works on a list of (TYPE, string) tokens where
TYPE is one of 'OP', 'NUMBER', 'STRING', 'NAME' (NL / COMMENT tokens inside
brackets are removed by the caller: the property allows them anywhere there).

  value  := '-'? NUMBER | STRING+ (all str or all bytes) | True | False | None
          | '[' items ']' | '(' items ')' | '{' pairs '}'
  items  := [ value (',' value)* [','] ]          pairs := [ value ':' value (',' ...)* [','] ]
  '(' v ')' is v itself; '(' v ',' ')' and '()' are tuples.

classify(tokens) -> ('accept', value) | ('viable', None) | ('dead', None) | ('typeerror', None)
  accept : the whole list is a sentence of G (value computed)
  viable : a proper prefix of some sentence (more tokens could complete it)
  dead   : no sentence of G starts with this list
  typeerror : a sentence whose evaluation Python itself refuses (unhashable key)
"""
import ast


class NeedMore(Exception):
  pass


class Dead(Exception):
  pass


class Unhashable(Exception):
  pass


class P:

  def __init__(self, toks):
    self.t = toks
    self.i = 0

  def peek(self):
    if self.i >= len(self.t):
      raise NeedMore()
    return self.t[self.i]

  def take(self):
    tok = self.peek()
    self.i += 1
    return tok

  def value(self):
    typ, s = self.peek()
    if typ == 'OP' and s in '[({' and len(s) == 1:
      return self.container()
    neg = False
    if typ == 'OP' and s == '-':
      self.take()
      neg = True
      typ, s = self.peek()
      if typ != 'NUMBER':
        raise Dead()
    if typ == 'NUMBER':
      self.take()
      try:
        v = ast.literal_eval(s)      # the tokenizer lets 007 / 0_7 through; Python does not
      except Exception:
        raise Dead()
      return -v if neg else v
    if typ == 'STRING':
      pieces = []
      while self.i < len(self.t) and self.t[self.i][0] == 'STRING':
        pieces.append(ast.literal_eval(self.take()[1]))
        if len(set(type(p) for p in pieces)) > 1:
          raise Dead()           # mixing bytes and str
      out = pieces[0]
      for p in pieces[1:]:
        out = out + p
      return out
    if typ == 'NAME' and s in ('True', 'False', 'None'):
      self.take()
      return {'True': True, 'False': False, 'None': None}[s]
    raise Dead()

  def container(self):
    op = self.take()[1]
    close = {'[': ']', '(': ')', '{': '}'}[op]
    items = []
    saw_comma = False
    while True:
      typ, s = self.peek()
      if typ == 'OP' and s == close:
        self.take()
        break
      if items and not expecting_item:
        raise Dead()
      if op == '{':
        k = self.value()
        typ, s = self.peek()
        if not (typ == 'OP' and s == ':'):
          raise Dead()
        self.take()
        v = self.value()
        items.append((k, v))
      else:
        items.append(self.value())
      typ, s = self.peek()
      if typ == 'OP' and s == ',':
        self.take()
        saw_comma = True
        expecting_item = True
      elif typ == 'OP' and s == close:
        expecting_item = False
      else:
        raise Dead()
    if op == '[':
      return list(items)
    if op == '(':
      if len(items) == 1 and not saw_comma:
        return items[0]
      return tuple(items)
    try:
      return dict(items)
    except TypeError:
      raise Unhashable()


def classify(tokens):
  p = P(list(tokens))
  try:
    v = p.value()
  except NeedMore:
    return ('viable', None)
  except Dead:
    return ('dead', None)
  except Unhashable:
    # evaluation order: the key error only matters if the rest is well formed
    return ('typeerror', None)
  if p.i < len(tokens):
    # something follows a complete value: only another STRING after a STRING is
    # consumed by value() itself, everything else is trailing junk
    return ('dead', None)
  return ('accept', v)


def same_value(a, b):
  """Equal value AND equal type, recursively (1 != 1.0 != True here)."""
  if type(a) is not type(b):
    return False
  if isinstance(a, (list, tuple)):
    return len(a) == len(b) and all(same_value(x, y) for x, y in zip(a, b))
  if isinstance(a, dict):
    if len(a) != len(b):
      return False
    for k1, v1 in a.items():       # dict equality does not depend on insertion order
      match = [k2 for k2 in b if same_value(k1, k2)]
      if len(match) != 1 or not same_value(v1, b[match[0]]):
        return False
    return True
  return a == b
