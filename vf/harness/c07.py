"""C07 - the operative config records exactly what Gin supplied and suffices to replay."""
import re

import gin
from gin import config as gc
from gin import config_parser
from vf import rt
from vf import world
from vf.harness.c03 import Delegate

PROBES = ['dflt', 'allow_a', 'deny_b', 'cons', 'Kmeth.meth', 'allow_kwo', 'deny_kwo']
NP = len(PROBES)
FULL = {p: 'vw.' + p for p in PROBES}
PARAMS = {'dflt': ('a', 'b'), 'allow_a': ('a', 'b'), 'deny_b': ('a', 'b'), 'cons': ('p', 'q'),
          'Kmeth.meth': ('a', 'b'), 'allow_kwo': ('a', 'k'), 'deny_kwo': ('a', 'k')}
DEFAULTS = {'dflt': {'a': world.DA, 'b': world.DB}, 'allow_a': {'a': world.DA}, 'deny_b': {'a': world.DA},
            'cons': {'p': None, 'q': None}, 'Kmeth.meth': {'a': world.DA, 'b': world.DB},
            'allow_kwo': {'a': world.DA}, 'deny_kwo': {'a': world.DA}}
VK = ['5', "'text'", "[1, [2, 'x']]", '@vw.src()', '%mac', '%vwc.K', 'OBJECT', '@vw.src', "{'k': (1,)}"]
VK_CANON = [5, 'text', [1, [2, 'x']], ('ref', 'vw.src', True), ('macro', 'mac'), ('macro', 'vwc.K'),
            None, ('ref', 'vw.src', False), {'k': (1,)}]
NVK = len(VK)


def call(probe, scope, ma, mb):
  first, second = PARAMS[probe]
  pos, kw = [], {}
  if ma == 1:
    pos.append(101)
  elif ma == 2:
    kw[first] = 101
  elif ma == 3:
    pos.append(gin.REQUIRED)       # the caller asks Gin to supply it: it IS Gin-supplied
  elif ma == 4:
    kw[first] = gin.REQUIRED
  if mb == 1:
    kw[second] = 202

  def go():
    if probe == 'Kmeth.meth':
      with gin.config_scope(None):
        obj = gin.get_configurable('vw.Kmeth')()
      return obj.meth(*pos, **kw)
    return getattr(world, probe)(*pos, **kw)

  if scope:
    with gin.config_scope(scope):
      return go()
  return go()


def parse_text(text):
  """Sections named in the comments and the bindings spelled in the text."""
  sections = re.findall(r'^# Parameters for (.*):$', text, re.M)
  binds = {}
  for st in config_parser.ConfigParser(text, Delegate()):
    if isinstance(st, config_parser.BindingStatement):
      binds.setdefault((st.scope, st.selector), {})[st.arg_name] = st.value
  return sections, binds


def full_name(printed):
  scope, _, sel = printed.rpartition('/')
  return scope, gc._REGISTRY.get_match(sel).selector


REBIND = [None, ('1', 1, 'True', True), ('%mac', ('macro', 'mac'), '%mac2', ('macro', 'mac2')),
          ('@vw.src()', ('ref', 'vw.src', True), '@s/vw.src()', ('ref', 's/vw.src', True)),
          ('0', 0, 'False', False)]


def c07_operative(rebind: int, nma2: int, p1: int, s1: bool, ma1: int, mb1: int, second: int, s2: bool, ma2: int, mb2: int,
                  broot: bool, vk: int, bscope: bool) -> bool:
  """
  pre: 0 <= p1 < 7 and 0 <= ma1 < 5 and 0 <= mb1 < 2 and 0 <= second < 3 and 0 <= ma2 < nma2 and 0 <= mb2 < 2
  pre: 0 <= vk < 9 and 0 <= rebind < 5
  """
  p1 = rt.pick(p1, NP)
  s1 = rt.flag(s1)
  ma1, mb1 = rt.pick(ma1, 5), rt.pick(mb1, 2)
  second = rt.pick(second, 3)           # 0: no second call, 1: same probe again, 2: the next probe
  if second:
    s2 = rt.flag(s2)
    ma2, mb2 = rt.pick(ma2, nma2), rt.pick(mb2, 2)
  else:
    s2, ma2, mb2 = False, 0, 0
  broot, bscope = rt.flag(broot), rt.flag(bscope)
  vk = rt.pick(vk, NVK) if broot else 0
  # between two calls of the same probe the root binding is replaced by a DIFFERENT value that
  # compares equal to the old one (1 / True, two macros, the same configurable under two scopes)
  if second == 1 and broot and vk == 0 and not bscope:
    rebind = rt.pick(rebind, 5)       # chosen only where it applies
  else:
    rebind = 0
  with rt.native():
    world.fresh()
    probe1 = PROBES[p1]
    calls = [(probe1, 's' if s1 else '', ma1, mb1)]
    if second:
      probe2 = probe1 if second == 1 else PROBES[(p1 + 1) % NP]
      calls.append((probe2, 's' if s2 else '', ma2, mb2))
    rt.sig(('operative', tuple(calls), broot, vk, bscope), nontrivial=broot or bscope or second)
    # ---- configuration: the first parameter of probe1 is bound at root and/or in scope s ----
    first = PARAMS[probe1][0]
    sentinel = object()
    gin.constant('vwc.K', 31)
    setup = ['mac = 17', 'mac2 = 17', 'vw.src.v = 9', 's/vw.src.v = 9']
    gin.parse_config('\n'.join(setup))
    bound = {}
    if broot and not (probe1 in ('allow_a',) and False):
      if VK[vk] == 'OBJECT':
        gin.bind_parameter(FULL[probe1] + '.' + first, sentinel)
      elif rebind:
        gin.parse_config('%s.%s = %s' % (FULL[probe1], first, REBIND[rebind][0]))
      else:
        gin.parse_config('%s.%s = %s' % (FULL[probe1], first, VK[vk]))
      bound[''] = vk
    if bscope:
      gin.parse_config('s/%s.%s = 6' % (FULL[probe1], first))
      bound['s'] = 'six'
    # a REQUIRED marker needs an applicable binding (otherwise the call fails: that is C10)
    for probe, scope, ma, mb in calls:
      if ma in (3, 4):
        applicable = probe == probe1 and ('' in bound or ('s' in bound and scope == 's'))
        if not applicable:
          rt.discard()
    # ---- run the calls --------------------------------------------------------------------------
    logs = []
    for ci, c in enumerate(calls):
      if ci == 1 and rebind:
        gin.parse_config('%s.%s = %s' % (FULL[probe1], first, REBIND[rebind][2]))
      del world.LOG[:]
      call(*c)
      logs.append([(n, a, k) for (n, a, k, _) in world.LOG])
    text = gin.operative_config_str()
    # ---- reference model of the record --------------------------------------------------------------
    want = {}          # (scope, full selector) -> {param: canonical value}
    uses_src, uses_mac, uses_mac2 = set(), False, False
    representable_only = True
    for ci, (probe, scope, ma, mb) in enumerate(calls):
      rec = want.setdefault((scope, FULL[probe]), {})
      if probe == 'Kmeth.meth':
        want.setdefault(('', 'vw.Kmeth'), {})      # the class was constructed (outside any scope)
      pfirst, psecond = PARAMS[probe]
      supplied = dict(DEFAULTS[probe])
      if probe == probe1:
        which = None
        if 's' in bound and scope == 's':
          which = 'six'
        elif '' in bound:
          which = bound['']
        if which == 'six':
          supplied[pfirst] = 6
        elif which is not None and rebind:
          supplied[pfirst] = REBIND[rebind][1 if ci == 0 else 3]
        elif which is not None:
          if VK[which] == 'OBJECT':
            supplied.pop(pfirst, None)
            supplied['__object__'] = True
          else:
            supplied[pfirst] = VK_CANON[which]
      if ma in (1, 2):
        supplied.pop(pfirst, None)
        supplied.pop('__object__', None)
      if mb:
        supplied.pop(psecond, None)
      if supplied.pop('__object__', False):
        rec.pop(pfirst, None) if False else None
        representable_only = False
        # an unrepresentable value replaces what was recorded before, and is not shown
        rec[pfirst] = '__hidden__'
      v = supplied.get(pfirst)
      if v == ('ref', 'vw.src', True):
        uses_src.add(scope)
      if v == ('ref', 's/vw.src', True):
        uses_src.add('s')
      if v == ('macro', 'mac2'):
        uses_mac2 = True
      if v == ('macro', 'mac'):
        uses_mac = True
      rec.update(supplied)
    for sc in uses_src:
      want.setdefault((sc, 'vw.src'), {}).update({'v': 9})
    shown = {k: {p: v for p, v in d.items() if v != '__hidden__'} for k, d in want.items()}
    # ---- compare ----------------------------------------------------------------------------------------
    sections, binds = parse_text(text)
    got_sections = sorted(full_name(s) for s in sections)
    if got_sections != sorted(shown):
      return rt.no('sections %r != %r\n%s' % (got_sections, sorted(shown), text))
    got = {}
    for (scope, sel), d in binds.items():
      if not next(iter(d)):          # macro definition
        if not ((uses_mac and (scope, sel, d['']) == ('', 'mac', 17)) or
                (uses_mac2 and (scope, sel, d['']) == ('', 'mac2', 17))):
          return rt.no('macro section %r' % ((scope, sel, d),))
        continue
      got[(scope, gc._REGISTRY.get_match(sel).selector)] = d
    if uses_mac and ('', 'mac') not in binds:
      return rt.no('a used macro must appear as a macro definition')
    if 'vwc.K' in text.replace('%vwc.K', '') or 'gin.constant' in text:
      return rt.no('constant lookups must be omitted')
    want_nonempty = {k: d for k, d in shown.items() if d}
    from vf.spec import literal
    if set(got) != set(want_nonempty) or not all(literal.same_value(got[k], want_nonempty[k]) for k in got):
      return rt.no('parameters %r != %r\n%s' % (got, want_nonempty, text))
    # ---- replay: clear, parse the text, repeat the calls ---------------------------------------------------
    # (the replay clause is about a fixed configuration: not applicable when the harness re-binds between calls)
    if representable_only and not rebind:
      gin.clear_config()
      gin.parse_config(text)
      relogs = []
      for c in calls:
        del world.LOG[:]
        call(*c)
        relogs.append([(n, a, k) for (n, a, k, _) in world.LOG])
      if relogs != logs:
        # callables delivered by '@vw.src' are the same function object
        return rt.no('replayed calls received %r, originally %r' % (relogs, logs))
      if gin.operative_config_str() != text:
        return rt.no('replay does not reproduce the text')
    return True


# =====================================================================================================
# Widened vocabulary (review of C07, items 1 and 3-12).  As in c07_operative every leaf is a concrete
# native execution: the F-choices select WHICH kind of configurable / scope / value / signature / event
# is exercised, the solver certifies that every combination was visited.
# =====================================================================================================
from vf.spec import literal as _literal

DA, DB = world.DA, world.DB
_P = world.__dict__.setdefault('_VW07', {})      # the extra probes live once per process


def _define_probes():
  if _P:
    return
  rec = world.rec

  @gin.configurable(module='vw07')
  class Base:

    def __init__(self, a=DA, b=DB):
      rec('Base', a, b)

  @gin.configurable(module='vw07')
  class Sub(Base):           # configurable subclass WITHOUT its own __init__: a wrapper around a wrapper
    pass

  @gin.configurable(module='vw07')
  class SubSuper(Base):

    def __init__(self, a=DA, c=-103):
      rec('SubSuper', a, c)
      super().__init__(a=a)

  class Plain(Base):         # not configurable itself
    pass

  @gin.configurable(module='vw07')
  class NewOnly:

    def __new__(cls, a=DA, b=DB):
      rec('NewOnly', a, b)
      return object.__new__(cls)

  class _Ext:

    def __init__(self, a=DA, b=DB):
      rec('Ext', a, b)

  Ext = gin.external_configurable(_Ext, 'Ext', module='vw07')

  @gin.configurable(module='vw07')
  def caller(p=None):
    rec('caller')
    p()
    return None

  @gin.configurable(module='vw07')
  def lst(a=[1]):            # mutates its own signature default
    rec('lst', list(a))
    a.append(9)

  @gin.configurable(module='vw07')
  def sdef(a='it\'s "q"\n', b=(1, 'x'), c={'k': [1]}, d='x' * 90, e=object(), f=lambda: 0, g={1, 2},
           h=float('inf')):
    rec('sdef', a, b, c, d)

  @gin.configurable(module='vw07')
  def boomer(a=DA):
    raise KeyError('body')

  @gin.configurable(module='vw07')
  def nested(a=DA):          # defined inside a function: __qualname__ is not an attribute path of its module
    rec('nested', a)

  _P.update(nested=nested, Base=Base, Sub=Sub, SubSuper=SubSuper, Plain=Plain, NewOnly=NewOnly, Ext=Ext, caller=caller,
            lst=lst, sdef=sdef, boomer=boomer)


_define_probes()


def _canon(v):
  """Parsed value -> comparable form; a reference becomes ('ref', scope, full selector, evaluate)."""
  if isinstance(v, tuple) and len(v) == 3 and v[0] == 'ref' and isinstance(v[1], str):
    scope, _, sel = v[1].rpartition('/')
    return ('ref', scope, gc._REGISTRY.get_match(sel).selector, v[2])
  if isinstance(v, (list, tuple)):
    return type(v)(_canon(x) for x in v)
  if isinstance(v, dict):
    return {k: _canon(x) for k, x in v.items()}
  return v


def _plain(v):
  """Logged argument -> comparable across two runs (callables by name: scoped references are rebuilt per call)."""
  if isinstance(v, (list, tuple)):
    return type(v)(_plain(x) for x in v)
  if isinstance(v, dict):
    return {k: _plain(x) for k, x in v.items()}
  if callable(v):
    return 'callable:' + getattr(v, '__qualname__', type(v).__name__)
  return v


def _eff(binds, scope, sel):
  """Bindings applicable to `sel` in `scope`: root, then every prefix of the scope, innermost last."""
  parts = scope.split('/') if scope else []
  out = {}
  for i in range(len(parts) + 1):
    out.update(binds.get(('/'.join(parts[:i]), sel), {}))
  return out


def _observe(names=None):
  """-> (text, sections, macros, problem).  sections: {(scope, full selector): {param: value}},
  macros: {(scope, name): value}; problem is a text when the operative text cannot even be read."""
  try:
    text = gin.operative_config_str()
  except Exception as e:  # pylint: disable=broad-except
    return None, None, None, 'operative_config_str() raised %s: %s' % (type(e).__name__, e)
  try:
    printed, binds = parse_text(text)
  except Exception as e:  # pylint: disable=broad-except
    return text, None, None, 'the operative text does not parse (%s: %s)\n%s' % (type(e).__name__, e, text)

  def resolve(sel):
    if names is not None:
      return names.get(sel, sel)
    return gc._REGISTRY.get_match(sel).selector

  sections, macros = {}, {}
  for p in printed:
    scope, _, sel = p.rpartition('/')
    sections[(scope, resolve(sel))] = {}
  for (scope, sel), d in binds.items():
    if '' in d:
      macros[(scope, sel)] = _canon(d[''])
      continue
    key = (scope, resolve(sel))
    if key not in sections:
      return text, None, None, 'binding for %r outside a section\n%s' % (key, text)
    sections[key] = {k: _canon(v) for k, v in d.items()}
  return text, sections, macros, None


def _compare(text, got_s, got_m, want_s, want_m, optional=()):
  """Exact comparison; keys in `optional` may be missing from the text, but if present their parameters must
  be a subset of the expected ones with the expected values."""
  for key in optional:
    if key in got_s and key in want_s:
      extra = [p for p in got_s[key] if p not in want_s[key]]
      if extra:
        return 'section %r lists %r\n%s' % (key, extra, text)
      want_s = dict(want_s)
      want_s[key] = {p: want_s[key][p] for p in got_s[key]}
    elif key in want_s:
      want_s = {k: v for k, v in want_s.items() if k != key}
  want_s = {k: _canon(v) for k, v in want_s.items()}
  want_m = {k: _canon(v) for k, v in want_m.items()}
  if sorted(got_s) != sorted(want_s):
    return 'sections %r != %r\n%s' % (sorted(got_s), sorted(want_s), text)
  for k in want_s:
    if not _literal.same_value(got_s[k], want_s[k]):
      return 'parameters of %r: %r != %r\n%s' % (k, got_s[k], want_s[k], text)
  if sorted(got_m) != sorted(want_m) or not all(_literal.same_value(got_m[k], want_m[k]) for k in want_m):
    return 'macro definitions %r != %r\n%s' % (got_m, want_m, text)
  if 'vwc.K' in text.replace('%vwc.K', '') or 'gin.constant' in text:
    return 'constant lookups must be omitted\n%s' % text
  return None


def _run(thunks):
  """Runs the calls; -> comparable log: per call ('ok', what the probes received) or ('raised', type)."""
  out = []
  for t in thunks:
    del world.LOG[:]
    del world.SRC_CALLS[:]
    try:
      t()
      tag = 'ok'
    except Exception as e:  # pylint: disable=broad-except
      tag = 'raised ' + type(e).__name__
    out.append((tag, [(n, _plain(a), _plain(k), list(s)) for (n, a, k, s) in world.LOG],
                [_plain(x) for x in world.SRC_CALLS]))
  return out


def _replay(text, thunks, first, calls=True):
  """Second sentence of the statement: clear, parse the text, repeat the calls."""
  gin.clear_config()
  try:
    gin.parse_config(text)
  except Exception as e:  # pylint: disable=broad-except
    return 'parse_config rejects the operative text (%s: %s)\n%s' % (type(e).__name__, e, text)
  if not calls:
    return None
  second = _run(thunks)
  if second != first:
    return 'replayed calls received %r, originally %r\n%s' % (second, first, text)
  again = gin.operative_config_str()
  if again != text:
    return 'replay does not reproduce the text:\n%s\n--- first ---\n%s' % (again, text)
  return None


def _in_scope(scope, fn):
  def go():
    if scope:
      with gin.config_scope(scope):
        return fn()
    return fn()
  return go


def _supplied(defaults, applicable, caller):
  d = dict(defaults)
  d.update(applicable)
  for n in caller:
    d.pop(n, None)
  return d


# ---- item 4 (+1): ways to enter a scope, multi-component scopes, bindings on every prefix -------------
NHOW = 9
# partition groups (CrossHair stops a partition at its first counterexample: the dotted scope names, which fail on
# the pinned tree, are kept apart from the kinds that hold)
HOW_GROUP = [0, 0, 0, 1, 1, 1, 2, 3, 3]


def c07_scopes(grp: int, how: int, b0: bool, b1: bool, b2: bool, bt: bool, ma: int) -> bool:
  """
  pre: 0 <= grp < 4 and 0 <= how < 9 and 0 <= ma < 2
  """
  grp = rt.pick(grp, 4)
  how = rt.pick(how, NHOW)
  if HOW_GROUP[how] != grp:
    rt.discard()
  b0, b1, b2, bt = rt.flag(b0), rt.flag(b1), rt.flag(b2), rt.flag(bt)
  ma = rt.pick(ma, 2)
  with rt.native():
    world.fresh()
    rt.sig(('scopes', how, b0, b1, b2, bt, ma), nontrivial=True)
    via_ref = how in (6, 8)                    # the scoped thing is the evaluated reference @<scope>/vw.src()
    target = 'vw.src' if via_ref else 'vw.dflt'
    p1, p2 = ('v', 'v') if via_ref else ('a', 'b')
    binds = {}
    lines = []
    for on, scope, param, val in ((b0, '', p1, 1), (b1, 's', p1, 2), (b2, 's/t', p2, 3), (bt, 't', p1, 4)):
      if on:
        binds.setdefault((scope, target), {})[param] = val
        lines.append('%s%s.%s = %d' % (scope + '/' if scope else '', target, param, val))
    if how == 6:
      lines.append('vw.cons.p = @s/vw.src()')
    if how == 8:
      lines.append('vw.cons.p = @a.b/vw.src()')
    gin.parse_config('\n'.join(lines))
    pos = (101,) if ma else ()

    def enter():
      if how == 0:
        with gin.config_scope('s/t'):
          world.dflt(*pos)
      elif how == 1:
        with gin.config_scope('s'):
          with gin.config_scope('t'):
            world.dflt(*pos)
      elif how == 2:
        with gin.config_scope('s'):
          with gin.config_scope(None):
            world.dflt(*pos)
      elif how == 3:
        gin.get_configurable('s/vw.dflt')(*pos)
      elif how == 4:
        with gin.config_scope('t'):
          gin.get_configurable('s/vw.dflt')(*pos)
      elif how == 5:
        with gin.config_scope('s/t'):
          captured = gin.current_scope()
        with gin.config_scope('u'):
          with gin.config_scope(captured):
            world.dflt(*pos)
      elif how == 6:
        with gin.config_scope('t'):
          world.cons(*pos)
      elif how == 7:
        with gin.config_scope('a.b'):
          world.dflt(*pos)
      else:
        world.cons(*pos)

    first = _run([enter])
    if first[0][0] != 'ok':
      return rt.no('the call raised: %r' % (first,))
    where = ['s/t', 's/t', '', 's', 's', 's/t', 's', 'a.b', 'a.b'][how]
    # the probes log the scope they really ran in: the record is judged against that
    if via_ref and not ma:
      where = '/'.join(first[0][2][0][1])
    elif not via_ref:
      where = '/'.join(first[0][1][0][3])
    want = {}
    if via_ref:
      outer = 't' if how == 6 else ''
      ref = ('ref', where + '/vw.src', True)
      want[(outer, 'vw.cons')] = _supplied({'p': None, 'q': None}, {'p': ref}, ['p'] if ma else [])
      if not ma:
        want[(where, 'vw.src')] = _supplied({'v': 0}, _eff(binds, where, 'vw.src'), [])
    else:
      want[(where, 'vw.dflt')] = _supplied({'a': DA, 'b': DB}, _eff(binds, where, 'vw.dflt'), ['a'] if ma else [])
    text, got_s, got_m, bad = _observe()
    bad = bad or _compare(text, got_s, got_m, want, {})
    bad = bad or _replay(text, [enter], first)
    if bad:
      return rt.no(bad)
    return True


# ---- item 3: class configurables and inheritance --------------------------------------------------------
CLS = ['Kinit', 'Kreg via get_configurable', 'Kreg called directly', 'Ext', 'NewOnly', 'Plain(Base)', 'Sub(Base)',
       'SubSuper(Base)']
CLS_SEL = ['vw.Kinit', 'vw.Kreg', 'vw.Kreg', 'vw07.Ext', 'vw07.NewOnly', 'vw07.Base', 'vw07.Sub', 'vw07.SubSuper']
NCLS = len(CLS)


def c07_classes(cls: int, sc: bool, ma: int, mb: int, bind: int, bb: bool) -> bool:
  """
  pre: 0 <= cls < 8 and 0 <= ma < 4 and 0 <= mb < 2 and 0 <= bind < 4
  """
  cls = rt.pick(cls, NCLS)
  sc = rt.flag(sc)
  ma, mb, bind = rt.pick(ma, 4), rt.pick(mb, 2), rt.pick(bind, 4)
  bb = rt.flag(bb) if cls >= 5 else False
  with rt.native():
    world.fresh()
    rt.sig(('classes', cls, sc, ma, mb, bind, bb), nontrivial=True)
    sel = CLS_SEL[cls]
    scope = 's' if sc else ''
    second = 'c' if cls == 7 else 'b'
    binds = {}
    lines = []
    if bind & 1:
      binds[('', sel)] = {'a': 5}
      lines.append('%s.a = 5' % sel)
    if bind & 2:
      binds[('s', sel)] = {'a': 6}
      lines.append('s/%s.a = 6' % sel)
    if bb:
      binds.setdefault(('', 'vw07.Base'), {})['b'] = 7
      lines.append('vw07.Base.b = 7')
    gin.parse_config('\n'.join(lines))
    applicable = _eff(binds, scope, sel)
    if ma == 3 and ('a' not in applicable or cls == 2):
      rt.discard()                       # a REQUIRED marker without an applicable binding fails (C10)
    if cls == 6 and ma == 1 and 'a' in applicable:
      # Sub(101) while Sub.a is bound raises "multiple values for argument 'a'": the wrapper of Sub sees the
      # (*args, **kwargs) signature of the wrapper of Base and cannot name the positional.  Which arguments a
      # call receives is C01/C11; there is no completed call whose record C07 could judge.
      rt.discard()
    pos, kw = [], {}
    if ma == 1:
      pos.append(101)
    elif ma == 2:
      kw['a'] = 101
    elif ma == 3:
      kw['a'] = gin.REQUIRED
    if mb:
      kw[second] = 202
    caller = (['a'] if ma in (1, 2) else []) + ([second] if mb else [])

    def make():
      if cls == 0:
        return world.Kinit(*pos, **kw)
      if cls == 1:
        return gin.get_configurable('vw.Kreg')(*pos, **kw)
      if cls == 2:
        return world.Kreg(*pos, **kw)       # @register leaves the class itself untouched
      return _P[['Ext', 'NewOnly', 'Plain', 'Sub', 'SubSuper'][cls - 3]](*pos, **kw)

    thunks = [_in_scope(scope, make)]
    first = _run(thunks)
    if first[0][0] != 'ok':
      return rt.no('the construction raised: %r' % (first,))
    text, got_s, got_m, bad = _observe()
    if bad:
      return rt.no(bad)
    if cls == 2:
      want = {}
    elif cls == 7:
      want = {(scope, sel): _supplied({'a': DA, 'c': -103}, applicable, caller),
              (scope, 'vw07.Base'): _supplied({'a': DA, 'b': DB}, _eff(binds, scope, 'vw07.Base'), ['a'])}
    else:
      want = {(scope, sel): _supplied({'a': DA, 'b': DB}, applicable, caller)}
    if cls != 6:
      bad = _compare(text, got_s, got_m, want, {})
    else:
      # A configurable subclass that inherits the configurable constructor of its configurable base: the
      # statement fixes the Sub section (Sub was called; what Gin supplied from Sub's bindings is listed, what
      # the caller supplied is not).  Whether constructing a Sub also counts as a call of Base, and whether
      # the inherited signature defaults count as supplied to Sub, is left open: anything listed in either
      # section must be a value the constructor really received and must not be caller-supplied.
      received = dict(zip(('a', 'b'), first[0][1][0][1]))
      if (scope, sel) not in got_s or not set(got_s) <= {(scope, sel), (scope, 'vw07.Base')}:
        bad = 'sections %r\n%s' % (sorted(got_s), text)
      elif got_m:
        bad = 'macro section %r' % (got_m,)
      else:
        if 'a' in applicable and 'a' not in caller and got_s[(scope, sel)].get('a', None) != applicable['a']:
          bad = 'Sub.a was supplied by Gin from a binding and is not listed\n%s' % text
        for key, params in got_s.items():
          for p, v in params.items():
            if p in caller or p not in received or not _literal.same_value(v, received[p]):
              bad = 'section %r lists %s = %r; received %r, caller supplied %r\n%s' % (
                  key, p, v, received, caller, text)
    bad = bad or _replay(text, thunks, first)
    if bad:
      return rt.no(bad)
    return True


# ---- items 7 and 8: kinds of bound value, macro chains, singleton ---------------------------------------
LONG = 'y' * 100
_SRC = ('ref', 'vw.src', True)
# value text (None: made with bind_parameter), canonical value, extra configuration,
# evaluated configurables [(scope or 'CALL', selector, defaults, extra expected parameters)],
# macros that must be defined {(scope, name): value}, representable
VALS = [
    ('None', None, [], [], {}, True),
    ('1.5', 1.5, [], [], {}, True),
    ('-3', -3, [], [], {}, True),
    ('True', True, [], [], {}, True),
    ('(1,)', (1,), [], [], {}, True),
    ('[]', [], [], [], {}, True),
    ('{}', {}, [], [], {}, True),
    ('()', (), [], [], {}, True),
    ("[@vw.src(), {'k': %mac}]", [_SRC, {'k': ('macro', 'mac')}], ['mac = 3'],
     [('CALL', 'vw.src', {'v': 0}, {})], {('', 'mac'): 3}, True),
    (None, 'LISTOBJ', [], [], {}, False),
    ("'%s'" % LONG, LONG, [], [], {}, True),
    ('\'it\\\'s "q"\\n\'', 'it\'s "q"\n', [], [], {}, True),
    ('%m2', ('macro', 'm2'), ['mac = 3', 'm2 = %mac'], [], {('', 'mac'): 3, ('', 'm2'): ('macro', 'mac')}, True),
    ('%mac', ('macro', 'mac'), ['mac = @vw.src()'], [('mac', 'vw.src', {'v': 0}, {})], {('', 'mac'): _SRC}, True),
    ('[%s/mac, %mac]', [('macro', 's/mac'), ('macro', 'mac')], ['mac = 3', 's/mac = 4'], [],
     {('', 'mac'): 3, ('s', 'mac'): 4}, True),
    ('@k/gin.singleton()', ('ref', 'k/gin.singleton', True), ['k/gin.singleton.constructor = @vw.src'],
     [('k', 'gin.singleton', {}, {'constructor': ('ref', 'vw.src', False)}), ('k', 'vw.src', {'v': 0}, {})], {}, True),
    (repr(list(range(40))), list(range(40)), [], [], {}, True),
    ("{'k': @vw.src}", {'k': ('ref', 'vw.src', False)}, [], [], {}, True),
    ('%mac', ('macro', 'mac'), [], [], {}, False),              # the macro itself holds an object()
    ("[(), {'a': [None, -0.5]}, 'x' 'y']", [(), {'a': [None, -0.5]}, 'xy'], [], [], {}, True),
    # used macros whose value is falsy: each must still appear as a macro definition (and the text must replay)
    ('[%mn, %m0, %me, %mf, %ml]', [('macro', 'mn'), ('macro', 'm0'), ('macro', 'me'), ('macro', 'mf'), ('macro', 'ml')],
     ['mn = None', 'm0 = 0', "me = ''", 'mf = False', 'ml = []'], [],
     {('', 'mn'): None, ('', 'm0'): 0, ('', 'me'): '', ('', 'mf'): False, ('', 'ml'): []}, True),
]
NVALS = len(VALS)
SRC_BINDS = {('', 'vw.src'): {'v': 9}, ('s', 'vw.src'): {'v': 8}, ('mac', 'vw.src'): {'v': 7}, ('k', 'vw.src'): {'v': 6}}


def c07_values(val: int, where: int, ma: int) -> bool:
  """
  pre: 0 <= val < 21 and 0 <= where < 3 and 0 <= ma < 2
  """
  val = rt.pick(val, NVALS)
  where = rt.pick(where, 3)       # 0: bound and called at root, 1: bound for scope s and called in s, 2: bound at root, called in s
  ma = rt.pick(ma, 2)
  with rt.native():
    world.fresh()
    rt.sig(('values', val, where, ma), nontrivial=True)
    vtext, canon, extra, evaluated, macros, representable = VALS[val]
    bscope = 's/' if where == 1 else ''
    scope = 's' if where else ''
    lines = ['%s%s.v = %d' % (sc + '/' if sc else '', sel, d['v']) for (sc, sel), d in SRC_BINDS.items()]
    gin.parse_config('\n'.join(lines + extra))
    if val == 9:
      gin.bind_parameter(bscope + 'vw.cons.p', [1, object()])
    else:
      if val == 18:
        gin.bind_parameter('mac/gin.macro.value', object())
      gin.parse_config('%svw.cons.p = %s' % (bscope, vtext))
    thunks = [_in_scope(scope, (lambda: world.cons(101)) if ma else world.cons)]
    first = _run(thunks)
    if first[0][0] != 'ok':
      return rt.no('the call raised: %r' % (first,))
    want = {(scope, 'vw.cons'): {'q': None}}
    want_m = {}
    if not ma:
      if representable:
        want[(scope, 'vw.cons')]['p'] = canon
      elif val == 18:
        want[(scope, 'vw.cons')]['p'] = canon       # '%mac' itself has a literal form; its definition has none
      ran = ['/'.join(s) for _, s in first[0][2]]     # the scopes vw.src really ran in (it logs them)
      for sc, sel, defaults, more in evaluated:
        sc = scope if sc == 'CALL' else sc
        if sel == 'vw.src':
          if len(ran) != 1:
            return rt.no('vw.src ran %r times' % (ran,))
          sc = ran[0]
        want[(sc, sel)] = _supplied(defaults, _eff(SRC_BINDS, sc, sel), [])
        want[(sc, sel)].update(more)
      want_m = macros
    text, got_s, got_m, bad = _observe()
    if val == 18 and not bad and 'p' not in got_s.get((scope, 'vw.cons'), {'p': 0}):
      # what the function received through '%mac' is an object(): listing `cons.p = %mac` (the bound value has a
      # literal form) and omitting it (the supplied value has none) are both within the statement
      want[(scope, 'vw.cons')].pop('p', None)
    bad = bad or _compare(text, got_s, got_m, want, want_m)
    if not bad and (representable or ma):
      bad = _replay(text, thunks, first)
    if bad:
      return rt.no(bad)
    return True


# ---- items 9 and 6: signatures (**kwargs, *args, keyword-only after *args, listed methods, REQUIRED
#      defaults) and kinds of signature default ---------------------------------------------------------
SIGS = ['kws', 'var', 'varkwo', 'KmethD.dmeth', 'KmethD.ameth', 'dflt', 'sdef', 'lst', 'req']
NSIGS = len(SIGS)
SDEF = {'a': 'it\'s "q"\n', 'b': (1, 'x'), 'c': {'k': [1]}, 'd': 'x' * 90}
# per signature: selector, representable configurable defaults, binding made when `bound`,
# four call modes (positional args, keyword args); None = no such mode
R = 'REQUIRED'
SIG_TABLE = {
    'kws': ('vw.kws', {'a': DA}, {'extra': 1}, [((), {}), ((), {'extra': 5}), ((7,), {}), ((), {'a': 7, 'extra': 5})]),
    'var': ('vw.var', {'b': DB}, {'b': 1}, [((1,), {}), ((1, 2), {}), ((1, 2, 3), {}), ((), {'a': 1})]),
    'varkwo': ('vw.varkwo', {'a': DA, 'b': DB}, {'b': 1}, [((), {}), ((1,), {}), ((1, 2), {}), ((), {'b': 5})]),
    'KmethD.dmeth': ('vw.KmethD.dmeth', {'a': DA}, {'a': 1}, [((), {}), ((1,), {}), ((), {'b': 2}), ((), {'a': 1, 'b': 2})]),
    'KmethD.ameth': ('vw.KmethD.ameth', {'a': DA}, {'a': 1}, [((), {}), ((1,), {}), ((), {'b': 2}), ((), {'a': 1, 'b': 2})]),
    'dflt': ('vw.dflt', {'a': DA, 'b': DB}, {'a': 1}, [((1, 2), {}), ((1,), {'b': 2}), ((), {'a': 1, 'b': 2}), ((), {'a': R, 'b': 2})]),
    'sdef': ('vw07.sdef', SDEF, {'a': 'z'}, [((), {}), ((), {'a': 'w'}), ((), {'d': 'short'}), ((), {'e': 1})]),
    'lst': ('vw07.lst', None, {'a': [5]}, [((), {}), None, None, None]),
    'req': ('vw.req', {'d': world.DD}, {'b': 2, 'c': 3}, [((1,), {}), ((1, 2), {'c': 3}), ((1, R), {'c': 3}), ((1, 2), {'c': R})]),
}
SIG_NAMES = {'vw.kws': ('a',), 'vw.var': ('a', 'b'), 'vw.varkwo': ('a',), 'vw.KmethD.dmeth': ('a', 'b'),
             'vw.KmethD.ameth': ('a', 'b'), 'vw.dflt': ('a', 'b'), 'vw07.sdef': ('a', 'b', 'c', 'd'), 'vw07.lst': ('a',),
             'vw.req': ('a', 'b')}


def c07_sigs(sg: int, mode: int, bound: bool, twice: bool) -> bool:
  """
  pre: 0 <= sg < 9 and 0 <= mode < 4
  """
  sg = rt.pick(sg, NSIGS)
  mode = rt.pick(mode, 4)
  bound, twice = rt.flag(bound), rt.flag(twice)
  with rt.native():
    world.fresh()
    name = SIGS[sg]
    sel, defaults, binding, modes = SIG_TABLE[name]
    if modes[mode] is None:
      rt.discard()
    rt.sig(('sigs', name, mode, bound, twice), nontrivial=True)
    pos, kw = modes[mode]
    uses_required = R in pos or R in kw.values()
    needs = name == 'req' and not (len(pos) > 1 and 'c' in kw)
    if (uses_required or needs) and not bound:
      rt.discard()
    if bound:
      for p, v in binding.items():
        gin.bind_parameter('%s.%s' % (sel, p), v)
    pos = tuple(gin.REQUIRED if x == R else x for x in pos)
    kw = {k: (gin.REQUIRED if v == R else v) for k, v in kw.items()}
    caller = [n for n, v in zip(SIG_NAMES[sel], pos) if v is not gin.REQUIRED]
    caller += [k for k, v in kw.items() if v is not gin.REQUIRED]

    def go():
      if name.startswith('KmethD.'):
        with gin.config_scope(None):
          obj = gin.get_configurable('vw.KmethD')()
        return getattr(obj, name.split('.')[1])(*pos, **kw)
      if sel.startswith('vw07.'):
        return _P[name](*pos, **kw)
      return getattr(world, name)(*pos, **kw)

    # `twice`: the same call is repeated (the record is an update, not a replacement)
    thunks = [_in_scope('s', go)] * (2 if twice else 1)
    first = _run(thunks)
    if any(r[0] != 'ok' for r in first):
      return rt.no('a call raised: %r' % (first,))
    text, got_s, got_m, bad = _observe()
    if bad:
      return rt.no(bad)
    want = {}
    if name.startswith('KmethD.'):
      want[('', 'vw.KmethD')] = {}
    if name == 'lst' and not bound:
      # The function appends to its own default list.  The statement does not say whether "the signature
      # default" is the list as it was when the call began or as the function left it (the record keeps the
      # very object): both are accepted, and repeating the calls is not the same experiment (Python itself
      # hands the mutated default to the next call), so the replay clause is not applied.
      got = got_s.get(('s', sel))
      if set(got_s) != {('s', sel)} or got is None or set(got) != {'a'}:
        return rt.no('sections %r\n%s' % (got_s, text))
      seen = [r[1][0][1][0] for r in first]                # the list each call received
      after = seen[-1] + [9]
      if not any(_literal.same_value(got['a'], x) for x in seen + [after]):
        return rt.no('lst.a = %r, received %r' % (got['a'], seen))
      try:
        gin.clear_config()
        gin.parse_config(text)
      except Exception as e:  # pylint: disable=broad-except
        return rt.no('parse_config rejects the operative text: %s' % e)
      return True
    want[('s', sel)] = _supplied(defaults if defaults is not None else {}, binding if bound else {}, caller)
    bad = _compare(text, got_s, got_m, want, {})
    bad = bad or _replay(text, thunks, first)
    if bad:
      return rt.no(bad)
    return True


# ---- items 10, 11, 12: failing calls, non-calls, references invoked by user code, changes between calls -----
EVENTS = ['req() nothing bound', 'req(1) c missing', 'evaluated reference raises', 'body raises', 'plain() lacks b',
          'undefined macro', 'get_bindings', 'query_parameter', 'get_configurable not called',
          'caller invokes @s/vw.src', 'caller invokes @vw.src', 'cons returns @vw.src, invoked later in u',
          'caller invokes @s/vw.Kinit', 'caller invokes @s/vw.Kreg', 'cons keeps @s/vw.src uninvoked',
          'rebind 1 -> object()', 'rebind object() -> 1', 'clear_config between calls', 'calls in s, root, s',
          'rebind 1 -> 2', 'scoped binding added between calls']
NEV = len(EVENTS)
# partition groups: failing calls / non-calls and invoked references / histories / the undefined macro on its own
# (CrossHair stops a partition at its first counterexample: an input that fails must not hide its neighbours)
EV_GROUP = [0, 0, 0, 0, 0, 3, 1, 1, 1, 1, 1, 1, 1, 1, 1, 2, 2, 2, 2, 2, 2]


def c07_events(grp: int, ev: int, sc: bool) -> bool:
  """
  pre: 0 <= grp < 4 and 0 <= ev < 21
  """
  grp = rt.pick(grp, 4)
  ev = rt.pick(ev, NEV)
  if EV_GROUP[ev] != grp:
    rt.discard()
  sc = rt.flag(sc)
  with rt.native():
    world.fresh()
    rt.sig(('events', ev, sc), nontrivial=True)
    w = 'w' if sc else ''
    obj = object()
    cfg = ['vw.src.v = 9', 's/vw.src.v = 8', 'u/vw.src.v = 7', 'w/vw.src.v = 6']
    binds = {('', 'vw.src'): {'v': 9}, ('s', 'vw.src'): {'v': 8}, ('u', 'vw.src'): {'v': 7}, ('w', 'vw.src'): {'v': 6}}
    src_at = lambda scope: _supplied({'v': 0}, _eff(binds, scope, 'vw.src'), [])
    want, optional, steps, expect_raise = {}, [], None, None
    fixed_config = True          # the replay clause speaks about one configuration
    if ev == 0:
      steps = [_in_scope(w, world.req)]
      want[(w, 'vw.req')] = {'d': world.DD}
      optional, expect_raise = [(w, 'vw.req')], 'RuntimeError'
    elif ev == 1:
      cfg.append('vw.req.b = 2')
      steps = [_in_scope(w, lambda: world.req(1))]
      want[(w, 'vw.req')] = {'b': 2, 'd': world.DD}
      optional, expect_raise = [(w, 'vw.req')], 'RuntimeError'
    elif ev == 2:
      cfg.append('vw.cons.p = @vw07.boomer()')
      steps = [_in_scope(w, world.cons)]
      want[(w, 'vw.cons')] = {'p': ('ref', 'vw07.boomer', True), 'q': None}
      want[(w, 'vw07.boomer')] = {'a': DA}
      optional, expect_raise = [(w, 'vw.cons'), (w, 'vw07.boomer')], 'KeyError'
    elif ev == 3:
      cfg.append('vw07.boomer.a = 3')
      steps = [_in_scope(w, _P['boomer'])]
      want[(w, 'vw07.boomer')] = {'a': 3}
      optional, expect_raise = [(w, 'vw07.boomer')], 'KeyError'
    elif ev == 4:
      cfg.append('vw.plain.a = 1')
      steps = [_in_scope(w, world.plain)]
      want[(w, 'vw.plain')] = {'a': 1}
      optional, expect_raise = [(w, 'vw.plain')], 'TypeError'
    elif ev == 5:
      cfg.append('vw.dflt.a = %nomac')
      steps = [_in_scope(w, world.dflt)]
      want[(w, 'vw.dflt')] = {'a': ('macro', 'nomac'), 'b': DB}
      optional, expect_raise = [(w, 'vw.dflt')], 'TypeError'
    elif ev in (6, 7, 8):
      cfg += ['vw.cons.p = @vw.src()', 'vw.cons.q = 1']
      if ev == 6:
        steps = [_in_scope(w, lambda: gin.get_bindings('vw.cons'))]
      elif ev == 7:
        steps = [_in_scope(w, lambda: gin.query_parameter('vw.cons.q'))]
      else:
        steps = [_in_scope(w, lambda: (gin.get_configurable('vw.cons'), gin.get_configurable('s/vw.cons')))]
    elif ev in (9, 10, 12, 13):
      ref = ['@s/vw.src', '@vw.src', None, '@s/vw.Kinit', '@s/vw.Kreg'][ev - 9]
      cfg.append('vw07.caller.p = ' + ref)
      steps = [_in_scope(w, _P['caller'])]
      want[(w, 'vw07.caller')] = {'p': ('ref', ref[1:], False)}
      if ev == 9:
        want[('s', 'vw.src')] = src_at('s')
      elif ev == 10:
        want[(w, 'vw.src')] = src_at(w)
      else:
        want[('s', ref[3:])] = {'a': DA, 'b': DB}
    elif ev == 11:
      cfg.append('vw.cons.p = @vw.src')

      def later():
        p, _ = world.cons()
        with gin.config_scope('u'):
          p()
      steps = [_in_scope(w, later)]
      uw = (w + '/u') if w else 'u'
      binds[('w/u', 'vw.src')] = {}
      want[(w, 'vw.cons')] = {'p': ('ref', 'vw.src', False), 'q': None}
      want[(uw, 'vw.src')] = src_at(uw)
    elif ev == 14:
      cfg.append('vw.cons.p = @s/vw.src')
      steps = [_in_scope(w, world.cons)]
      want[(w, 'vw.cons')] = {'p': ('ref', 's/vw.src', False), 'q': None}
    elif ev in (15, 16, 19, 20):
      fixed_config = False
      a1, a2 = {15: (1, obj), 16: (obj, 1), 19: (1, 2), 20: (1, 1)}[ev]

      def two():
        gin.bind_parameter('vw.dflt.a', a1)
        world.dflt()
        if ev == 20:
          gin.bind_parameter('w/vw.dflt.b', 4)
        else:
          gin.bind_parameter('vw.dflt.a', a2)
        world.dflt(b=202) if ev == 19 else world.dflt()
      steps = [_in_scope(w, two)]
      want[(w, 'vw.dflt')] = {'a': a2, 'b': 4 if (ev == 20 and w) else DB}
      if a2 is obj:
        del want[(w, 'vw.dflt')]['a']      # shown: the value used most recently, if it has a literal form
    elif ev == 17:
      fixed_config = False
      cfg.append('vw.dflt.a = 1')

      def cleared():
        world.dflt()
        gin.clear_config()
        world.cons()
      steps = [_in_scope(w, cleared)]
      want[(w, 'vw.cons')] = {'p': None, 'q': None}
    elif ev == 18:
      cfg.append('vw.dflt.a = 1')
      steps = [_in_scope('s', world.dflt), _in_scope(w, world.dflt), _in_scope('s', lambda: world.dflt(101, b=202))]
      want[('s', 'vw.dflt')] = {'a': 1, 'b': DB}
      want[(w, 'vw.dflt')] = {'a': 1, 'b': DB}
    gin.parse_config('\n'.join(cfg))
    first = _run(steps)
    outcome = first[0][0]
    if expect_raise is None and any(r[0] != 'ok' for r in first):
      return rt.no('a call raised: %r' % (first,))
    if expect_raise is not None and outcome != 'raised ' + expect_raise:
      return rt.no('expected %s, got %r' % (expect_raise, first))
    # evaluated @vw.src() references (get_bindings evaluates them): src really ran, in the scope it logged
    if ev == 6:
      for _, scope in first[0][2]:
        want[('/'.join(scope), 'vw.src')] = src_at('/'.join(scope))
    text, got_s, got_m, bad = _observe()
    # A call that FAILED: the statement does not say whether it counts as "called".  Its section (and that of
    # a configurable it reached) may be present or absent; present, it lists only what Gin was supplying.
    bad = bad or _compare(text, got_s, got_m, want, {}, optional)
    if not bad and fixed_config:
      # get_bindings / query_parameter / get_configurable are not calls of a configurable: the text owes them
      # nothing beyond being acceptable to parse_config
      bad = _replay(text, steps, first, calls=ev not in (6, 7, 8))
    if bad:
      return rt.no(bad)
    return True


# ---- item 5: statically registered probes called while dynamic registration is on ------------------------
DYN = [('dflt', 'vw.dflt', 'dflt', 'a', {'a': DA, 'b': DB}), ('wrapped', 'vw.wrapped', 'wrapped', 'a', {}),
       ('case_upper', 'vw.case.Foo', 'case_upper', 'p', {'p': 0}), ('Kmeth.meth', 'vw.Kmeth.meth', 'Kmeth.meth', 'a', {'a': DA, 'b': DB}),
       ('fam_xm', 'vw.x.m.fam', 'fam_xm', 'p', {'p': 0}), ('Kinit', 'vw.Kinit', 'Kinit', 'a', {'a': DA, 'b': DB}),
       ('nested', 'vw07.nested', '_define_probes.<locals>.nested', 'a', {'a': DA})]
NDYN = len(DYN)
DYN_GROUP = [0, 0, 0, 1, 1, 1, 2]      # the function defined inside a function fails on the pinned tree: own partition


def c07_dynamic(grp: int, probe: int, bound: bool, sc: bool, ma: int) -> bool:
  """
  pre: 0 <= grp < 3 and 0 <= probe < 7 and 0 <= ma < 2
  """
  grp = rt.pick(grp, 3)
  probe = rt.pick(probe, NDYN)
  if DYN_GROUP[probe] != grp:
    rt.discard()
  bound, sc = rt.flag(bound), rt.flag(sc)
  ma = rt.pick(ma, 2)
  with rt.native():
    world.fresh()
    rt.sig(('dynamic', probe, bound, sc, ma), nontrivial=True)
    attr, sel, qual, param, defaults = DYN[probe]
    scope = 's' if sc else ''
    gin.parse_config('from __gin__ import dynamic_registration')
    if bound:
      gin.bind_parameter('%s%s.%s' % ('s/' if sc else '', sel, param), 3)
    kw = {param: 101} if ma else {}

    def go():
      if attr == 'Kmeth.meth':
        with gin.config_scope(None):
          obj = gin.get_configurable('vw.Kmeth')()
        return obj.meth(**kw)
      if attr == 'nested':
        return _P['nested'](**kw)
      return getattr(world, attr)(**kw)

    thunks = [_in_scope(scope, go)]
    first = _run(thunks)
    if first[0][0] != 'ok':
      return rt.no('the call raised %r' % (first,))
    # the text must name the probes through an import it writes itself
    names = {'world.' + qual: sel, 'world.Kmeth': 'vw.Kmeth', 'vf.world.' + qual: sel, 'vf.world.Kmeth': 'vw.Kmeth',
             'c07.' + qual: sel, 'vf.harness.c07.' + qual: sel}
    text, got_s, got_m, bad = _observe(names)
    want = {(scope, sel): _supplied(defaults, {param: 3} if bound else {}, [param] if ma else [])}
    if attr == 'Kmeth.meth':
      want[('', 'vw.Kmeth')] = {}
    bad = bad or _compare(text, got_s, got_m, want, {})
    bad = bad or _replay(text, thunks, first)
    if bad:
      return rt.no(bad)
    return True


HARNESSES = {
    'c07_operative': dict(
        fn='c07_operative',
        anchors=['gin.config:gin_wrapper', 'gin.config:operative_config_str', 'gin.config:_config_str'],
        smoke=[dict(rebind=0, nma2=5, p1=0, s1=True, ma1=0, mb1=1, second=1, s2=False, ma2=2, mb2=0, broot=True, vk=3, bscope=True),
               dict(rebind=0, nma2=5, p1=1, s1=False, ma1=1, mb1=0, second=2, s2=True, ma2=0, mb2=0, broot=True, vk=4, bscope=False),
               dict(rebind=0, nma2=5, p1=4, s1=True, ma1=0, mb1=0, second=0, s2=False, ma2=0, mb2=0, broot=True, vk=6, bscope=True)],
        tiers={'quick': dict(split=dict(p1=list(range(7)), second=[0, 1, 2], ma1=list(range(5))),
                             fixed=dict(mb2=0, nma2=3), budget_s=100),
               'thorough': dict(split=dict(p1=list(range(7)), second=[0, 1, 2], vk=list(range(NVK)),
                                           ma1=list(range(5))), fixed=dict(nma2=5), budget_s=600)},
        bounds='1-2 calls over 7 probes (plain, allow-listed, deny-listed, reference consumer, registered method, keyword-only parameter outside the allowlist / inside the denylist), each '
               'in scope none/s with the first parameter omitted / positional / keyword / gin.REQUIRED positionally / '
               'gin.REQUIRED by keyword and the second omitted/keyword; the '
               'first parameter of the first probe bound at root with one of 9 value kinds (int, str, nested list, '
               '@src(), %macro, %CONSTANT, non-representable object, @src, dict) and/or in scope s; between two calls of one probe '
               'the binding may be replaced by an equal-comparing different value (1/True, 0/False, two macros, one '
               'configurable under two scopes)'),
    'c07_scopes': dict(
        fn='c07_scopes',
        anchors=['gin.config:gin_wrapper', 'gin.config:operative_config_str', 'gin.config:_decorate_with_scope'],
        smoke=[dict(grp=0, how=0, b0=True, b1=True, b2=True, bt=True, ma=0), dict(grp=0, how=1, b0=False, b1=True, b2=False, bt=False, ma=1),
               dict(grp=0, how=2, b0=True, b1=True, b2=False, bt=False, ma=0), dict(grp=1, how=3, b0=True, b1=True, b2=False, bt=False, ma=0),
               dict(grp=1, how=4, b0=False, b1=True, b2=False, bt=True, ma=0), dict(grp=1, how=5, b0=False, b1=True, b2=True, bt=False, ma=0),
               dict(grp=2, how=6, b0=True, b1=True, b2=False, bt=True, ma=0), dict(grp=3, how=7, b0=True, b1=False, b2=False, bt=False, ma=0),
               dict(grp=3, how=8, b0=True, b1=False, b2=False, bt=False, ma=0)],
        tiers={'quick': dict(split=dict(grp=[0, 1, 2, 3]), budget_s=100),
               'thorough': dict(split=dict(grp=[0, 1, 2, 3]), budget_s=300)},
        bounds='one call of dflt (first parameter omitted / positional) whose scope is entered in 9 ways: '
               "config_scope('s/t'), nested s then t, config_scope(None) inside s, get_configurable('s/vw.dflt') at root "
               'and inside scope t, re-entering a captured scope list inside another scope, an evaluated @s/vw.src() '
               "while t is active, the dotted scope name 'a.b' (config_scope and reference); bindings present or "
               'absent (16 combinations) on root, s, s/t (other parameter) and t'),
    'c07_classes': dict(
        fn='c07_classes',
        anchors=['gin.config:gin_wrapper', 'gin.config:_find_class_construction_fn', 'gin.config:meta_call_wrapper'],
        smoke=[dict(cls=0, sc=False, ma=0, mb=0, bind=1, bb=False), dict(cls=1, sc=True, ma=1, mb=0, bind=2, bb=False),
               dict(cls=2, sc=False, ma=0, mb=0, bind=1, bb=False), dict(cls=3, sc=True, ma=3, mb=1, bind=3, bb=False),
               dict(cls=4, sc=False, ma=2, mb=0, bind=0, bb=False), dict(cls=5, sc=True, ma=0, mb=0, bind=2, bb=True),
               dict(cls=6, sc=False, ma=0, mb=0, bind=1, bb=True), dict(cls=7, sc=True, ma=0, mb=1, bind=3, bb=True)],
        tiers={'quick': dict(split=dict(cls=list(range(NCLS)), sc=[False, True]), budget_s=100),
               'thorough': dict(split=dict(cls=list(range(NCLS)), sc=[False, True]), budget_s=300)},
        bounds='one construction of 8 kinds of class (@configurable class, @register class through get_configurable and '
               'called directly, external_configurable class, class with __new__ only, non-configurable subclass of a '
               'configurable base, configurable subclass without own __init__ of a configurable base, configurable '
               'subclass calling super().__init__(a=a)), in scope none/s, first parameter omitted / positional / keyword / '
               'gin.REQUIRED, second omitted / keyword, binding of the first parameter at root and/or in s, optional '
               'binding on the base class'),
    'c07_values': dict(
        fn='c07_values',
        anchors=['gin.config:gin_wrapper', 'gin.config:operative_config_str', 'gin.config:_is_literally_representable'],
        smoke=[dict(val=v, where=v % 3, ma=0) for v in range(NVALS)] + [dict(val=8, where=2, ma=1)],
        tiers={'quick': dict(split=dict(where=[0, 1, 2], ma=[0, 1]), budget_s=100),
               'thorough': dict(split=dict(where=[0, 1, 2], ma=[0, 1]), budget_s=300)},
        bounds='cons.p bound to one of 20 kinds of value (None, float, negative int, bool, 1-tuple, empty list/dict/tuple, '
               'references and a macro nested in containers, a list holding an object(), a 100-character string, a '
               'string with both quotes and a newline, a macro chain, a macro bound to @src(), scoped and unscoped macros, '
               '@k/gin.singleton(), a list longer than a line, an unevaluated reference in a dict, a macro bound to an '
               'object(), adjacent strings and nested empties), bound at root or for scope s, called at root or in s, '
               'p omitted or supplied by the caller'),
    'c07_sigs': dict(
        fn='c07_sigs',
        anchors=['gin.config:gin_wrapper', 'gin.config:_get_supplied_positional_parameter_names',
                 'gin.config:operative_config_str'],
        smoke=[dict(sg=s, mode=s % 4 if s != 7 else 0, bound=True, twice=bool(s % 2)) for s in range(NSIGS)] +
              [dict(sg=7, mode=0, bound=False, twice=True), dict(sg=0, mode=1, bound=True, twice=False),
               dict(sg=6, mode=0, bound=False, twice=False)],
        tiers={'quick': dict(split=dict(mode=[0, 1, 2, 3]), budget_s=100),
               'thorough': dict(split=dict(mode=[0, 1, 2, 3]), budget_s=300)},
        bounds='9 signatures (**kwargs, *args, keyword-only after *args, registered methods with deny / allow list, two '
               'plain parameters, string/tuple/dict/long/non-representable defaults, a mutable default the function mutates, '
               'gin.REQUIRED signature defaults) x 4 call modes each (positional, keyword, extra positionals, REQUIRED '
               'markers) x binding present/absent x the call made once or twice, in scope s'),
    'c07_events': dict(
        fn='c07_events',
        anchors=['gin.config:gin_wrapper', 'gin.config:operative_config_str', 'gin.config:scope_decorator'],
        smoke=[dict(grp=EV_GROUP[e], ev=e, sc=bool(e % 2)) for e in range(NEV)],
        tiers={'quick': dict(split=dict(grp=[0, 1, 2, 3]), budget_s=100),
               'thorough': dict(split=dict(grp=[0, 1, 2, 3]), budget_s=300)},
        bounds='21 event kinds in scope none/w: 6 failing calls (missing REQUIRED, evaluated reference raising, body raising, '
               'missing positional, undefined macro), 3 non-calls (get_bindings, query_parameter, get_configurable), 6 '
               'references invoked (or not) by user code (scoped / unscoped function, later in another scope, scoped '
               '@configurable and @register classes), 6 histories (rebinding to / from object(), to another value, '
               'clear_config between calls, s / root / s, a scoped binding added between calls)'),
    'c07_dynamic': dict(
        fn='c07_dynamic',
        anchors=['gin.config:gin_wrapper', 'gin.config:require_configurable', 'gin.config:minimal_selector'],
        smoke=[dict(grp=DYN_GROUP[p], probe=p, bound=bool(p % 2), sc=bool(p % 3 == 0), ma=0) for p in range(NDYN)] +
              [dict(grp=0, probe=0, bound=True, sc=True, ma=1)],
        tiers={'quick': dict(split=dict(grp=[0, 1, 2]), budget_s=100),
               'thorough': dict(split=dict(grp=[0, 1, 2]), budget_s=300)},
        bounds="after 'from __gin__ import dynamic_registration', one call of 7 statically registered probes that no file "
               'imported (function, functools.wraps-wrapped function, function registered under another name, registered '
               'method, function registered under a shared family name, @configurable class, function defined inside a '
               'function), binding present/absent, '
               'scope none/s, parameter omitted / keyword'),
}
RULE = ('one case per distinct tuple of F-choices (calls, bindings, kind of class / scope entry / value / signature / event); '
        'non-trivial: a binding exists or there are two calls (c07_operative), every case of the widened harnesses')
SOLVER_ROLE = ('certifies coverage: the record is observed through operative_config_str(), i.e. Gin stringifies every value, so all '
               'inputs are F-choices and every leaf is a concrete native execution; the solver proves the bounded space was covered')
OUTSIDE = ('positional-only parameters (def f(a=DA, /): the recorded default is replayed as a keyword and the call raises - not one '
           'of the listed shapes); a bound container mutated through query_parameter() after the call; provenance comments, other '
           'line widths and markdown (C06); real threads (C18); a positional argument given to a configurable subclass that '
           'inherits the configurable constructor of its configurable base while that parameter is bound (the call itself raises '
           '"multiple values": C01/C11, discarded in c07_classes)')
ASSUMPTIONS = ['a call that FAILS (missing REQUIRED binding, evaluated reference or body raising, missing positional) may or may not '
               'count as "called": its section may be present or absent; present, it may list only what Gin was supplying; in both '
               'cases the text must parse, and repeating the calls must fail alike and reproduce the text',
               'a configurable subclass WITHOUT its own __init__ of a configurable base: the Sub section is required; a Base '
               'section and inherited signature defaults are accepted either way, provided every listed value is the one the '
               'constructor received and nothing the caller supplied is listed',
               'a function that mutates its own mutable signature default: the value shown may be the list before or after the '
               'mutation, and the replay clause is not applied (Python itself hands the mutated default to the next call)',
               'get_bindings / query_parameter / get_configurable are not calls: they must add no section for that configurable '
               '(references evaluated by get_bindings did run and are recorded); the replay clause asks only that the text parses',
               'the scope a probe "was called in" is the scope it observed through gin.current_scope() while running (C09 decides '
               'whether that scope is the right one)']
