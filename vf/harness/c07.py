"""C07 - the operative config records exactly what Gin supplied and suffices to replay."""
import re

import gin
from gin import config as gc
from gin import config_parser
from vf import rt
from vf import world
from vf.harness.c03 import Delegate

PROBES = ['dflt', 'allow_a', 'deny_b', 'cons', 'Kmeth.meth', 'allow_kwo', 'deny_kwo']
NP = len(PROBES)
FULL = {p: 'vw.' + p for p in PROBES}
PARAMS = {'dflt': ('a', 'b'), 'allow_a': ('a', 'b'), 'deny_b': ('a', 'b'), 'cons': ('p', 'q'),
          'Kmeth.meth': ('a', 'b'), 'allow_kwo': ('a', 'k'), 'deny_kwo': ('a', 'k')}
DEFAULTS = {'dflt': {'a': world.DA, 'b': world.DB}, 'allow_a': {'a': world.DA}, 'deny_b': {'a': world.DA},
            'cons': {'p': None, 'q': None}, 'Kmeth.meth': {'a': world.DA, 'b': world.DB},
            'allow_kwo': {'a': world.DA}, 'deny_kwo': {'a': world.DA}}
VK = ['5', "'text'", "[1, [2, 'x']]", '@vw.src()', '%mac', '%vwc.K', 'OBJECT', '@vw.src', "{'k': (1,)}"]
VK_CANON = [5, 'text', [1, [2, 'x']], ('ref', 'vw.src', True), ('macro', 'mac'), ('macro', 'vwc.K'),
            None, ('ref', 'vw.src', False), {'k': (1,)}]
NVK = len(VK)


def call(probe, scope, ma, mb):
  first, second = PARAMS[probe]
  pos, kw = [], {}
  if ma == 1:
    pos.append(101)
  elif ma == 2:
    kw[first] = 101
  elif ma == 3:
    pos.append(gin.REQUIRED)       # the caller asks Gin to supply it: it IS Gin-supplied
  elif ma == 4:
    kw[first] = gin.REQUIRED
  if mb == 1:
    kw[second] = 202

  def go():
    if probe == 'Kmeth.meth':
      with gin.config_scope(None):
        obj = gin.get_configurable('vw.Kmeth')()
      return obj.meth(*pos, **kw)
    return getattr(world, probe)(*pos, **kw)

  if scope:
    with gin.config_scope(scope):
      return go()
  return go()


def parse_text(text):
  """Sections named in the comments and the bindings spelled in the text."""
  sections = re.findall(r'^# Parameters for (.*):$', text, re.M)
  binds = {}
  for st in config_parser.ConfigParser(text, Delegate()):
    if isinstance(st, config_parser.BindingStatement):
      binds.setdefault((st.scope, st.selector), {})[st.arg_name] = st.value
  return sections, binds


def full_name(printed):
  scope, _, sel = printed.rpartition('/')
  return scope, gc._REGISTRY.get_match(sel).selector


REBIND = [None, ('1', 1, 'True', True), ('%mac', ('macro', 'mac'), '%mac2', ('macro', 'mac2')),
          ('@vw.src()', ('ref', 'vw.src', True), '@s/vw.src()', ('ref', 's/vw.src', True)),
          ('0', 0, 'False', False)]


def c07_operative(rebind: int, nma2: int, p1: int, s1: bool, ma1: int, mb1: int, second: int, s2: bool, ma2: int, mb2: int,
                  broot: bool, vk: int, bscope: bool) -> bool:
  """
  pre: 0 <= p1 < 7 and 0 <= ma1 < 5 and 0 <= mb1 < 2 and 0 <= second < 3 and 0 <= ma2 < nma2 and 0 <= mb2 < 2
  pre: 0 <= vk < 9 and 0 <= rebind < 5
  """
  p1 = rt.pick(p1, NP)
  s1 = rt.flag(s1)
  ma1, mb1 = rt.pick(ma1, 5), rt.pick(mb1, 2)
  second = rt.pick(second, 3)           # 0: no second call, 1: same probe again, 2: the next probe
  if second:
    s2 = rt.flag(s2)
    ma2, mb2 = rt.pick(ma2, nma2), rt.pick(mb2, 2)
  else:
    s2, ma2, mb2 = False, 0, 0
  broot, bscope = rt.flag(broot), rt.flag(bscope)
  vk = rt.pick(vk, NVK) if broot else 0
  # between two calls of the same probe the root binding is replaced by a DIFFERENT value that
  # compares equal to the old one (1 / True, two macros, the same configurable under two scopes)
  if second == 1 and broot and vk == 0 and not bscope:
    rebind = rt.pick(rebind, 5)       # chosen only where it applies
  else:
    rebind = 0
  with rt.native():
    world.fresh()
    probe1 = PROBES[p1]
    calls = [(probe1, 's' if s1 else '', ma1, mb1)]
    if second:
      probe2 = probe1 if second == 1 else PROBES[(p1 + 1) % NP]
      calls.append((probe2, 's' if s2 else '', ma2, mb2))
    rt.sig(('operative', tuple(calls), broot, vk, bscope), nontrivial=broot or bscope or second)
    # ---- configuration: the first parameter of probe1 is bound at root and/or in scope s ----
    first = PARAMS[probe1][0]
    sentinel = object()
    gin.constant('vwc.K', 31)
    setup = ['mac = 17', 'mac2 = 17', 'vw.src.v = 9', 's/vw.src.v = 9']
    gin.parse_config('\n'.join(setup))
    bound = {}
    if broot and not (probe1 in ('allow_a',) and False):
      if VK[vk] == 'OBJECT':
        gin.bind_parameter(FULL[probe1] + '.' + first, sentinel)
      elif rebind:
        gin.parse_config('%s.%s = %s' % (FULL[probe1], first, REBIND[rebind][0]))
      else:
        gin.parse_config('%s.%s = %s' % (FULL[probe1], first, VK[vk]))
      bound[''] = vk
    if bscope:
      gin.parse_config('s/%s.%s = 6' % (FULL[probe1], first))
      bound['s'] = 'six'
    # a REQUIRED marker needs an applicable binding (otherwise the call fails: that is C10)
    for probe, scope, ma, mb in calls:
      if ma in (3, 4):
        applicable = probe == probe1 and ('' in bound or ('s' in bound and scope == 's'))
        if not applicable:
          rt.discard()
    # ---- run the calls --------------------------------------------------------------------------
    logs = []
    for ci, c in enumerate(calls):
      if ci == 1 and rebind:
        gin.parse_config('%s.%s = %s' % (FULL[probe1], first, REBIND[rebind][2]))
      del world.LOG[:]
      call(*c)
      logs.append([(n, a, k) for (n, a, k, _) in world.LOG])
    text = gin.operative_config_str()
    # ---- reference model of the record --------------------------------------------------------------
    want = {}          # (scope, full selector) -> {param: canonical value}
    uses_src, uses_mac, uses_mac2 = set(), False, False
    representable_only = True
    for ci, (probe, scope, ma, mb) in enumerate(calls):
      rec = want.setdefault((scope, FULL[probe]), {})
      if probe == 'Kmeth.meth':
        want.setdefault(('', 'vw.Kmeth'), {})      # the class was constructed (outside any scope)
      pfirst, psecond = PARAMS[probe]
      supplied = dict(DEFAULTS[probe])
      if probe == probe1:
        which = None
        if 's' in bound and scope == 's':
          which = 'six'
        elif '' in bound:
          which = bound['']
        if which == 'six':
          supplied[pfirst] = 6
        elif which is not None and rebind:
          supplied[pfirst] = REBIND[rebind][1 if ci == 0 else 3]
        elif which is not None:
          if VK[which] == 'OBJECT':
            supplied.pop(pfirst, None)
            supplied['__object__'] = True
          else:
            supplied[pfirst] = VK_CANON[which]
      if ma in (1, 2):
        supplied.pop(pfirst, None)
        supplied.pop('__object__', None)
      if mb:
        supplied.pop(psecond, None)
      if supplied.pop('__object__', False):
        rec.pop(pfirst, None) if False else None
        representable_only = False
        # an unrepresentable value replaces what was recorded before, and is not shown
        rec[pfirst] = '__hidden__'
      v = supplied.get(pfirst)
      if v == ('ref', 'vw.src', True):
        uses_src.add(scope)
      if v == ('ref', 's/vw.src', True):
        uses_src.add('s')
      if v == ('macro', 'mac2'):
        uses_mac2 = True
      if v == ('macro', 'mac'):
        uses_mac = True
      rec.update(supplied)
    for sc in uses_src:
      want.setdefault((sc, 'vw.src'), {}).update({'v': 9})
    shown = {k: {p: v for p, v in d.items() if v != '__hidden__'} for k, d in want.items()}
    # ---- compare ----------------------------------------------------------------------------------------
    sections, binds = parse_text(text)
    got_sections = sorted(full_name(s) for s in sections)
    if got_sections != sorted(shown):
      return rt.no('sections %r != %r\n%s' % (got_sections, sorted(shown), text))
    got = {}
    for (scope, sel), d in binds.items():
      if not next(iter(d)):          # macro definition
        if not ((uses_mac and (scope, sel, d['']) == ('', 'mac', 17)) or
                (uses_mac2 and (scope, sel, d['']) == ('', 'mac2', 17))):
          return rt.no('macro section %r' % ((scope, sel, d),))
        continue
      got[(scope, gc._REGISTRY.get_match(sel).selector)] = d
    if uses_mac and ('', 'mac') not in binds:
      return rt.no('a used macro must appear as a macro definition')
    if 'vwc.K' in text.replace('%vwc.K', '') or 'gin.constant' in text:
      return rt.no('constant lookups must be omitted')
    want_nonempty = {k: d for k, d in shown.items() if d}
    from vf.spec import literal
    if set(got) != set(want_nonempty) or not all(literal.same_value(got[k], want_nonempty[k]) for k in got):
      return rt.no('parameters %r != %r\n%s' % (got, want_nonempty, text))
    # ---- replay: clear, parse the text, repeat the calls ---------------------------------------------------
    # (the replay clause is about a fixed configuration: not applicable when the harness re-binds between calls)
    if representable_only and not rebind:
      gin.clear_config()
      gin.parse_config(text)
      relogs = []
      for c in calls:
        del world.LOG[:]
        call(*c)
        relogs.append([(n, a, k) for (n, a, k, _) in world.LOG])
      if relogs != logs:
        # callables delivered by '@vw.src' are the same function object
        return rt.no('replayed calls received %r, originally %r' % (relogs, logs))
      if gin.operative_config_str() != text:
        return rt.no('replay does not reproduce the text')
    return True


HARNESSES = {
    'c07_operative': dict(
        fn='c07_operative',
        anchors=['gin.config:gin_wrapper', 'gin.config:operative_config_str', 'gin.config:_config_str'],
        smoke=[dict(rebind=0, nma2=5, p1=0, s1=True, ma1=0, mb1=1, second=1, s2=False, ma2=2, mb2=0, broot=True, vk=3, bscope=True),
               dict(rebind=0, nma2=5, p1=1, s1=False, ma1=1, mb1=0, second=2, s2=True, ma2=0, mb2=0, broot=True, vk=4, bscope=False),
               dict(rebind=0, nma2=5, p1=4, s1=True, ma1=0, mb1=0, second=0, s2=False, ma2=0, mb2=0, broot=True, vk=6, bscope=True)],
        tiers={'quick': dict(split=dict(p1=list(range(7)), second=[0, 1, 2], ma1=list(range(5))),
                             fixed=dict(mb2=0, nma2=3), budget_s=100),
               'thorough': dict(split=dict(p1=list(range(7)), second=[0, 1, 2], vk=list(range(NVK)),
                                           ma1=list(range(5))), fixed=dict(nma2=5), budget_s=600)},
        bounds='1-2 calls over 7 probes (plain, allow-listed, deny-listed, reference consumer, registered method, keyword-only parameter outside the allowlist / inside the denylist), each '
               'in scope none/s with the first parameter omitted / positional / keyword / gin.REQUIRED positionally / '
               'gin.REQUIRED by keyword and the second omitted/keyword; the '
               'first parameter of the first probe bound at root with one of 9 value kinds (int, str, nested list, '
               '@src(), %macro, %CONSTANT, non-representable object, @src, dict) and/or in scope s; between two calls of one probe '
               'the binding may be replaced by an equal-comparing different value (1/True, 0/False, two macros, one '
               'configurable under two scopes)'),
}
RULE = 'one case per distinct (calls, bindings) tuple; non-trivial: a binding exists or there are two calls'
SOLVER_ROLE = ('certifies coverage: the record is observed through operative_config_str(), i.e. Gin stringifies every value, so all '
               'inputs are F-choices and every leaf is a concrete native execution; the solver proves the bounded space was covered')
