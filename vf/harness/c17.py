"""C17 - exceptions from configurables keep their type, data and traceback."""
import asyncio
import dataclasses
import json
import subprocess
import types
import urllib.error
import warnings

import gin
from vf import rt
from vf import world


class UInit(Exception):
  """required __init__ arguments, stored as attributes"""

  def __init__(self, a, b):
    super().__init__('uinit %s' % (a,))
    self.a = a
    self.b = b


class UNew(Exception):
  """required __new__ arguments"""

  def __new__(cls, a, b):
    self = super().__new__(cls, a, b)
    self.total = (a, b)
    return self

  def __init__(self, a, b):
    super().__init__(a, b)


class UNewOdd(Exception):
  """required __new__ arguments that cannot be recovered from .args"""

  def __new__(cls, a, b):
    return super().__new__(cls)

  def __init__(self, a, b):
    super().__init__(a)
    self.b = b


class UAttrs(ValueError):
  pass


class UClassDefault(RuntimeError):
  """public class-level defaults that the raised instance overrides"""
  status = 500
  retryable = False

  def __init__(self, n):
    super().__init__(n)
    self.status = n
    self.retryable = True


class USlots(Exception):
  __slots__ = ('code_', 'detail')

  def __init__(self, code_, detail):
    super().__init__(code_)
    self.code_ = code_
    self.detail = detail


class UStr(KeyError):

  def __init__(self, n):
    super().__init__(n)
    self.n = n

  def __str__(self):
    return 'custom<%s>' % (self.n,)


class UProp(RuntimeError):

  @property
  def doubled(self):
    return (self.args[0], self.args[0])


def _uattrs(n):
  e = UAttrs('with extras', n)
  e.extra = n
  e.more = [n, 'x']
  return e


def _group(n):
  return ExceptionGroup('grp', [ValueError(n), KeyError('k')])


# ---- classes that constrain their own subclassing (review item 1) -------------------------------
class UCoded(Exception):
  """every subclass statement must give the class keyword `code=`"""

  def __init_subclass__(cls, code=None, **kw):
    super().__init_subclass__(**kw)
    if code is None:
      raise TypeError('subclasses of UCoded must give code=')
    cls.code = code


class UNotFound(UCoded, code=404):
  pass


class UDeclMeta(type):
  """a metaclass that validates each subclass: the class body must declare `kind`"""

  def __new__(mcs, name, bases, ns, **kw):
    if 'kind' not in ns:
      raise TypeError('class %s must declare kind' % name)
    return super().__new__(mcs, name, bases, ns, **kw)


class UDeclBase(Exception, metaclass=UDeclMeta):
  kind = 'base'


class UDeclared(UDeclBase):
  kind = 'declared'


class UUnique(Exception):
  """a plug-in style registry: two subclasses with one class name are rejected"""
  names = set()

  def __init_subclass__(cls, **kw):
    super().__init_subclass__(**kw)
    if cls.__name__ in UUnique.names:
      raise TypeError('duplicate exception class name %s' % cls.__name__)
    UUnique.names.add(cls.__name__)


class UUniqueOne(UUnique):
  pass


def _uunique(n):
  UUnique.names.clear()
  UUnique.names.add('UUniqueOne')
  return UUniqueOne(n)


# ---- rich constructors / several bases (item 7), dataclasses (item 8) ------------------------------
class UMulti(KeyError, AttributeError):
  """two C-level layouts: KeyError's __str__, AttributeError's name / obj"""


@dataclasses.dataclass(frozen=True)
class UDataFrozen(Exception):
  """constructed by keyword: args == (); fields live in the instance __dict__"""
  code: int
  label: str = 'lbl'


@dataclasses.dataclass
class UData(Exception):
  code: int
  items: list = dataclasses.field(default_factory=list)


class UTypeNew(TypeError):
  """a TypeError subclass with required __new__ arguments (passes through the TypeError branch)"""

  def __new__(cls, a, b):
    return super().__new__(cls, a, b)

  def __init__(self, a, b):
    super().__init__(a, b)


def _udata(n):
  e = UData(code=n)
  e.items.append(n)
  return e


# name -> factory(n) (n is the S/F integer payload).  Indices are referred to by known_findings.json
# (cls == 24): only ever append.
FACTORIES = [
    ('ValueError', lambda n: ValueError('bad value', n)),
    ('KeyError', lambda n: KeyError(n)),
    ('TypeError', lambda n: TypeError('custom type error', n)),
    ('OSError', lambda n: OSError(n, 'os failed')),
    ('FileNotFoundError', lambda n: FileNotFoundError(n, 'no file', '/some/path')),
    ('BlockingIOError', lambda n: BlockingIOError(11, 'would block', n)),
    ('StopIteration', lambda n: StopIteration(n)),
    ('SystemError', lambda n: SystemError(n)),
    ('ImportError', lambda n: ImportError('cannot import', name='modname', path='/p/%d' % 7)),
    ('AttributeError', lambda n: AttributeError('no attr', name='attrname', obj=n)),
    ('NameError', lambda n: NameError('no name', name='nm')),
    ('SyntaxError', lambda n: SyntaxError('bad syntax', ('file.gin', n, 3, 'the text'))),
    ('UnicodeDecodeError', lambda n: UnicodeDecodeError('utf8', b'abcdef', 1, 3, 'reason')),
    ('ExceptionGroup', _group),
    ('AssertionError', lambda n: AssertionError()),
    ('ZeroDivisionError', lambda n: ZeroDivisionError('division', n)),
    ('UInit', lambda n: UInit(n, 'bee')),
    ('UNew', lambda n: UNew(n, 'two')),
    ('UAttrs', _uattrs),
    ('USlots', lambda n: USlots(n, 'detail')),
    ('UStr', lambda n: UStr(n)),
    ('UProp', lambda n: UProp(n)),
    ('LookupError', lambda n: LookupError(n, n)),
    ('UnicodeEncodeError', lambda n: UnicodeEncodeError('ascii', 'abcdef', 2, 4, 'why')),
    ('UNewOdd', lambda n: UNewOdd(n, 'hidden')),
    ('UClassDefault', lambda n: UClassDefault(n)),
    # -- 26.. : added by the vocabulary round
    ('UNotFound', lambda n: UNotFound('not found', n)),
    ('UDeclared', lambda n: UDeclared('declared', n)),
    ('UUniqueOne', _uunique),
    ('JSONDecodeError', lambda n: json.JSONDecodeError('bad json', 'line0\nline1 {', 8)),
    ('CalledProcessError', lambda n: subprocess.CalledProcessError(n, ['prog', '-x'], output='out', stderr='err')),
    ('UnicodeTranslateError', lambda n: UnicodeTranslateError('abcdef', 1, 3, 'untranslatable')),
    ('HTTPError', lambda n: urllib.error.HTTPError('http://host/p', 404, 'not found', {'h': 'v'}, None)),
    ('UMulti', lambda n: UMulti(n)),
    ('KeyError(tuple)', lambda n: KeyError((1, n))),
    ('UDataFrozen', lambda n: UDataFrozen(code=n)),
    ('UData', _udata),
    ('UTypeNew', lambda n: UTypeNew(n, 'b')),
]
NF = len(FACTORIES)
assert NF == 38 and FACTORIES[24][0] == 'UNewOdd'
# no integer payload, or a constructor that converts/stringifies it (C-level int conversion, '%s'
# formatting): S-inputs must not be realised, so the payload is concrete for these
CONCRETE_PAYLOAD = ('UnicodeDecodeError', 'UnicodeEncodeError', 'ImportError', 'NameError', 'AssertionError',
                    'BlockingIOError', 'UInit', 'JSONDecodeError', 'UnicodeTranslateError', 'HTTPError')


# ---- probes of this module (gin module path vw17), registered once per process ---------------------
RAISE = world.RAISE
SEEN = [None]          # active scope recorded by the raising probe of this module just before it raises
DA, DB = world.DA, world.DB


def _mark():
  SEEN[0] = list(gin.current_scope())


def _build():
  ns = types.SimpleNamespace()

  @gin.configurable(module='vw17')
  def bang(z=0):
    _mark()
    raise RAISE[0]

  @gin.configurable(module='vw17')
  class KInit:
    def __init__(self, z=0):
      _mark()
      raise RAISE[0]

  @gin.register(module='vw17')
  class KReg:
    def __init__(self, z=0):
      _mark()
      raise RAISE[0]

  class _KExt:
    def __init__(self, z=0):
      _mark()
      raise RAISE[0]

  @gin.configurable(module='vw17')
  class KNew:
    def __new__(cls, z=0):
      _mark()
      raise RAISE[0]

  @gin.register(module='vw17')
  class KM:
    def __init__(self):
      pass

    @gin.register
    def meth(self, z=0):
      _mark()
      raise RAISE[0]

  class _CallObj:
    def __call__(self, z=0):
      _mark()
      raise RAISE[0]

  @gin.configurable(module='vw17')
  def rec(d=0):
    if d <= 0:
      _mark()
      raise RAISE[0]
    return rec(d - 1)

  # natively raised exceptions (item 5): the interpreter / C code creates the instance
  @gin.configurable(module='vw17')
  def nat(z=0):
    k = NAT_KIND[0]
    try:
      if k == 0:
        raise ValueError          # class form: args == (), empty text
      elif k == 1:
        return 1 / z
      elif k == 2:
        return int('zz')
      elif k == 3:
        return open('/nonexistent-c17/dir/x')   # filename lives outside args
      elif k == 4:
        assert z, 'assert message'
      elif k == 5:
        with warnings.catch_warnings():
          warnings.simplefilter('error')
          warnings.warn('warned c17', UserWarning)
      elif k == 6:
        return [][z]
      elif k == 7:
        return {}['missing key']
      elif k == 8:
        return None.no_such_attr      # AttributeError with name / obj
      elif k == 9:
        return no_such_global_c17     # NameError with name  # noqa: F821
      elif k == 10:
        return next(iter(()))         # StopIteration
      elif k == 11:
        return 'caf\xe9'.encode('ascii')   # UnicodeEncodeError with object/start/end/reason
      elif k == 12:
        import no_such_module_c17     # ModuleNotFoundError with name  # noqa: F401
      elif k == 13:
        return json.loads('{"a": ')   # JSONDecodeError built by the json module
      elif k == 14:
        try:
          return {}['inner']
        except KeyError as inner:
          raise RuntimeError('outer', z) from inner
      else:
        raise rt.HarnessError('no such native kind %r' % (k,))
    except rt.HarnessError:
      raise
    except BaseException as e:
      entries = []
      tb = e.__traceback__
      while tb is not None:
        entries.append((tb.tb_frame.f_code.co_name, tb.tb_lineno))
        tb = tb.tb_next
      NAT_ORIG[0] = (e, entries, list(gin.current_scope()))
      raise

  @gin.configurable(module='vw17')
  def natouter(z=0):
    with gin.config_scope('deep17'):
      return nat()

  # TypeError of a call (item 6)
  @gin.configurable(module='vw17')
  class KT:
    def __init__(self, a, b=DB):
      world.rec('KT', a, b)

  @gin.register(module='vw17')
  class KTReg:
    def __init__(self, a, b=DB):
      world.rec('KTReg', a, b)

  class _KTExt:
    def __init__(self, a, b=DB):
      world.rec('KTExt', a, b)

  @gin.configurable(module='vw17')
  class KTNew:
    def __new__(cls, a, b=DB):
      world.rec('KTNew', a, b)
      return super().__new__(cls)

  class _CallT:
    def __call__(self, a, b=DB):
      world.rec('callt', a, b)

  @gin.configurable(module='vw17')
  def t3(a, b, *, c=0):
    world.rec('t3', a, b, c=c)

  @gin.configurable(module='vw17')
  def tbody(a, b=DB):
    raise TypeError('body says no', a)

  @gin.register(module='vw17')
  class KTM:
    def __init__(self):
      pass

    @gin.register
    def meth(self, a, b=DB):
      world.rec('KTM.meth', a, b)

  ns.bang, ns.KInit, ns.KReg, ns.KNew, ns.KM, ns.rec, ns.nat, ns.natouter = (
      bang, KInit, KReg, KNew, KM, rec, nat, natouter)
  ns.KExt = gin.external_configurable(_KExt, 'KExt', module='vw17')
  ns.callobj = gin.external_configurable(_CallObj(), 'callobj', module='vw17')
  ns.KT, ns.KTReg, ns.KTNew, ns.t3, ns.tbody, ns.KTM = KT, KTReg, KTNew, t3, tbody, KTM
  ns.RawKTExt, ns.rawcallt = _KTExt, _CallT()
  ns.KTExt = gin.external_configurable(_KTExt, 'KTExt', module='vw17')
  ns.callt = gin.external_configurable(ns.rawcallt, 'callt', module='vw17')
  ns.sum17 = gin.external_configurable(sum, 'sum17', module='vw17')
  return ns


NAT_KIND = [0]
NAT_ORIG = [None]
if not hasattr(world, '_vw17_probes'):     # idempotent: a second import reuses the registered probes
  world._vw17_probes = _build()
P = world._vw17_probes
# `nat` reads the module-level cells of the module that built it; keep one set per process
if hasattr(world, '_vw17_cells'):
  NAT_KIND, NAT_ORIG, SEEN = world._vw17_cells
else:
  world._vw17_cells = (NAT_KIND, NAT_ORIG, SEEN)

PASS_THROUGH = [KeyboardInterrupt, SystemExit, GeneratorExit]


class UBase(BaseException):
  """not an Exception subclass, required constructor arguments"""

  def __init__(self, a, b):
    super().__init__(a)
    self.b = b


def _cancelled(n):
  return asyncio.CancelledError(n)


# (factory, how the payload is read back)
PASS_MORE = [
    (_cancelled, lambda e: e.args[0]),
    (lambda n: BaseExceptionGroup('bgrp', [KeyboardInterrupt(n), ValueError('v')]), lambda e: e.exceptions[0].args[0]),
    (lambda n: UBase(n, 'bee'), lambda e: e.args[0]),
]

# how the exception is raised: (text, configurable named by the suffix, scope the harness itself set up
# (None: whatever the raising probe saw), code name of the frame that raises)
HOW = [
    ('direct call', 'boom', None, 'boom'),
    ('nested 1', 'boom', None, 'boom'),
    ('nested 2 (scope deep)', 'boom', 'deep', 'boom'),
    ('via evaluated reference', 'boom', None, 'boom'),
    ('in scope s', 'boom', 's', 'boom'),
    # -- 5.. : added by the vocabulary round; raised by the probes of this module, which record the active scope
    ("scoped evaluated reference inside nested containers {'k': (@s/vw17.bang(),)}", 'bang', 's', 'bang'),
    ("gin.get_configurable('s/vw17.bang')()", 'bang', 's', 'bang'),
    ('macro M = @vw17.bang(), used through %M', 'bang', None, 'bang'),
    ('constructor of @k/gin.singleton(), used again after the failure', 'bang', None, 'bang'),
    ("gin.get_bindings('vw.cons') evaluating @vw17.bang()", 'bang', None, 'bang'),
    ('the same instance raised a second time', 'bang', None, 'bang'),
    ('__init__ of a @gin.configurable class', 'KInit', None, '__init__'),
    ('registry version of a @gin.register class', 'KReg', None, '__init__'),
    ('class returned by gin.external_configurable', 'KExt', None, '__init__'),
    ('__new__ of a @gin.configurable class', 'KNew', None, '__new__'),
    ('registered method of a registered class (registry version)', 'meth', None, 'meth'),
    ('callable object registered by external_configurable', 'callobj', None, '__call__'),
    ('evaluated scoped reference to a registered class @t/vw17.KReg()', 'KReg', 't', '__init__'),
]
NH = len(HOW)
assert NH == 18
OLD_HOWS = 5


def public_attrs(o):
  out = []
  for name in dir(o):
    if name.startswith('_'):
      continue
    try:
      v = getattr(o, name)
    except Exception:
      continue
    if callable(v):
      continue
    out.append(name)
  return out


def _parse(text):
  with rt.native():
    gin.parse_config(text)


def trigger(how):
  if how == 0:
    world.boom()
  elif how == 1:
    world.outer1()
  elif how == 2:
    world.outer2()
  elif how == 3:
    _parse('vw.cons.p = [@vw.boom()]')
    world.cons()
  elif how == 4:
    with gin.config_scope('s'):
      world.boom()
  elif how == 5:
    _parse("vw.cons.p = {'k': (@s/vw17.bang(),)}")
    world.cons()
  elif how == 6:
    gin.get_configurable('s/vw17.bang')()
  elif how == 7:
    _parse('M = @vw17.bang()\nvw.cons.q = [%M]')
    world.cons()
  elif how == 8:
    _parse('vw.cons.p = @k/gin.singleton()\nk/gin.singleton.constructor = @vw17.bang')
    try:
      world.cons()
    except Exception:
      pass
    world.cons()
  elif how == 9:
    _parse('vw.cons.p = @vw17.bang()')
    gin.get_bindings('vw.cons')
  elif how == 10:
    try:
      P.bang()
    except Exception:
      pass
    P.bang()
  elif how == 11:
    P.KInit()
  elif how == 12:
    gin.get_configurable(P.KReg)()
  elif how == 13:
    P.KExt()
  elif how == 14:
    P.KNew()
  elif how == 15:
    gin.get_configurable(P.KM)().meth()
  elif how == 16:
    P.callobj()
  else:
    _parse('vw.cons.p = @t/vw17.KReg()')
    world.cons()


def tb_names(e):
  tb = e.__traceback__
  fns = []
  while tb is not None:
    fns.append(tb.tb_frame.f_code.co_name)
    tb = tb.tb_next
  return fns


def c17_attrs(cls: int, how: int, n: int) -> bool:
  """
  pre: 0 <= cls < 38 and 0 <= how < 18
  """
  world.fresh()
  cls = rt.pick(cls, NF)
  how = rt.pick(how, NH)
  name, factory = FACTORIES[cls]
  rt.sig(('attrs', name, how), nontrivial=True)
  if name in CONCRETE_PAYLOAD:
    n = 5
  orig = factory(n)
  world.RAISE[0] = orig
  SEEN[0] = None
  caught = None
  try:
    trigger(how)
  except type(orig) as e:        # catchable by the same except clause
    caught = e
  except BaseException as e:
    with rt.native():
      return rt.no('%s arrived as %r' % (name, type(e)))
  if caught is None:
    return rt.no('nothing raised')
  if not isinstance(caught, type(orig)):
    return False
  with rt.native():
    names = public_attrs(orig)
    if type(caught).__name__ != type(orig).__name__ or type(caught).__module__ != type(orig).__module__:
      return rt.no('class name/module')
    fns = tb_names(caught)
    site = HOW[how][3]
    if site not in fns:
      return rt.no('original traceback frames lost: %r' % fns)
    if how >= OLD_HOWS and fns[-1] != site:
      return rt.no('the traceback does not end where the exception was raised: %r' % fns)
  for a in names:
    try:
      got = getattr(caught, a)
    except Exception:
      with rt.native():
        return rt.no('attribute %s unreadable on the caught exception' % a)
    want = getattr(orig, a)
    if a == 'exceptions':
      if got is not want and tuple(got) != tuple(want):
        return rt.no('exceptions')
      continue
    if not (got is want or rt.same(a, got, want)):
      with rt.native():
        return rt.no('attribute %s of %s' % (a, name))
  return True


def _names(text, name):
  """`name` occurs in `text` as a token of its own (quoted or not): the wording around it is Gin's business."""
  import re
  return re.search(r'(?<![\w./])%s(?![\w/])' % re.escape(name), text) is not None


def suffix_ok(suffix, conf, scope):
  """The text appended to the message names the configurable and the active scope (today: "In call to
  configurable 'x' (<...>) in scope 's'")."""
  if not _names(suffix, conf):
    return rt.no('suffix does not name the configurable %s: %r' % (conf, suffix))
  if scope and not _names(suffix, scope):
    return rt.no('suffix does not name the scope %s: %r' % (scope, suffix))
  return True


MSG_GROUPS = 13   # c17_msg partitions: classes cls with cls % 13 == grp (a failing class sinks only its group)


def c17_msg(cls: int, how: int, n: int, grp: int = -1) -> bool:
  """
  pre: 0 <= cls < 38 and 0 <= how < 18 and 0 <= n < 3
  pre: grp < 0 or cls % 13 == grp
  """
  world.fresh()
  cls = rt.pick(cls, NF)
  how = rt.pick(how, NH)
  n = [0, 7, -12345][rt.pick(n, 3)]
  name, factory = FACTORIES[cls]
  rt.sig(('msg', name, how, n), nontrivial=True)
  with rt.native():
    orig = factory(n)
    text = str(orig)
    world.RAISE[0] = orig
    SEEN[0] = None
    caught = None
    try:
      trigger(how)
    except Exception as e:
      caught = e
    if caught is None or not isinstance(caught, type(orig)):
      return rt.no('class')
    got = str(caught)
    if not got.startswith(text):
      return rt.no('message %r does not start with the original %r' % (got, text))
    suffix = got[len(text):]
    _, conf, scope, _ = HOW[how]
    if not suffix_ok(suffix, conf, scope):
      return False
    if how >= OLD_HOWS:
      if SEEN[0] is None:
        raise rt.HarnessError('the raising probe did not run (how=%d)' % how)
      if not suffix_ok(suffix, conf, '/'.join(SEEN[0])):     # the scope that was active where it was raised
        return False
    if how in (1, 2) and not _names(suffix, 'outer1'):
      return rt.no('outer level missing')
    return True


def c17_passthrough(cls: int, how: int, n: int) -> bool:
  """
  pre: 0 <= cls < 6 and 0 <= how < 18
  """
  world.fresh()
  cls = rt.pick(cls, 6)
  how = rt.pick(how, NH)
  rt.sig(('pass', cls, how), nontrivial=True)
  if cls < 3:
    orig = PASS_THROUGH[cls](n)
    read = None
  else:
    orig = PASS_MORE[cls - 3][0](n)
    read = PASS_MORE[cls - 3][1]
  world.RAISE[0] = orig
  try:
    trigger(how)
  except BaseException as e:
    if read is None:
      return e is orig and rt.same('args', e.args[0], n)
    return e is orig and rt.same('payload', read(e), n)
  return False


# ---- every nesting depth (item 12): a self-recursive configurable -----------------------------------------
DEPTHS = [3, 10, 30, 100, 200]   # 200: thorough tier only
# classes taken to depth (indices of FACTORIES): builtin with C-level fields, group, user classes of each
# construction kind, dataclass.  UNewOdd (known finding) and the item-1 classes are judged by c17_attrs / c17_msg.
DEPTH_CLS = [0, 4, 6, 9, 11, 13, 16, 17, 18, 19, 20, 25, 30, 33, 35, 36]


def c17_depth(cls: int, depth: int, scoped: bool) -> bool:
  """
  pre: 0 <= cls < 16 and 0 <= depth < 5
  """
  world.fresh()
  cls = DEPTH_CLS[rt.pick(cls, len(DEPTH_CLS))]
  depth = DEPTHS[rt.pick(depth, len(DEPTHS))]
  scoped = rt.flag(scoped)
  name, factory = FACTORIES[cls]
  rt.sig(('depth', name, depth, scoped), nontrivial=True)
  with rt.native():
    orig = factory(7)
    text = str(orig)
    world.RAISE[0] = orig
    SEEN[0] = None
    gin.bind_parameter(('r' if scoped else '', 'vw17.rec', 'd'), depth)
    caught = None
    try:
      if scoped:
        with gin.config_scope('r'):
          P.rec()
      else:
        P.rec()
    except type(orig) as e:
      caught = e
    except BaseException as e:
      return rt.no('%s arrived as %r at depth %d' % (name, type(e), depth))
    if caught is None:
      return rt.no('nothing raised')
    if type(caught).__name__ != type(orig).__name__ or type(caught).__module__ != type(orig).__module__:
      return rt.no('class name/module')
    fns = tb_names(caught)
    if fns[-1] != 'rec' or fns.count('rec') < depth + 1:
      return rt.no('the traceback lost frames of the recursion: %d of %d' % (fns.count('rec'), depth + 1))
    for a in public_attrs(orig):
      try:
        got = getattr(caught, a)
      except Exception:
        return rt.no('attribute %s unreadable at depth %d' % (a, depth))
      want = getattr(orig, a)
      if a == 'exceptions':
        if got is not want and tuple(got) != tuple(want):
          return rt.no('exceptions')
        continue
      if not (got is want or got == want):
        return rt.no('attribute %s of %s at depth %d' % (a, name, depth))
    got = str(caught)
    if not got.startswith(text):
      return rt.no('message %r does not start with the original %r' % (got[:200], text))
    return suffix_ok(got[len(text):], 'rec', 'r' if scoped else None)


# ---- natively raised exceptions (item 5) ----------------------------------------------------------------------
NAT_KINDS = ['raise ValueError (class form)', '1 / 0', "int('zz')", 'open() of a missing file', 'assert',
             'warnings.warn under simplefilter(error)', '[][0]', "{}['missing key']", 'None.no_such_attr',
             'undefined global name', 'next(iter(()))', "'caf\\xe9'.encode('ascii')", 'import of a missing module',
             "json.loads('{\"a\": ')", 'raise ... from inner (explicit chaining)']
NAT_WAYS = ['direct call', 'nested, under scope deep17', "evaluated reference [{'k': @s/vw17.nat()}]",
            "gin.get_configurable('s/t/vw17.nat')()"]


def c17_native(kind: int, way: int) -> bool:
  """
  pre: 0 <= kind < 15 and 0 <= way < 4
  """
  world.fresh()
  kind = rt.pick(kind, len(NAT_KINDS))
  way = rt.pick(way, len(NAT_WAYS))
  rt.sig(('native', kind, way), nontrivial=True)
  with rt.native():
    NAT_KIND[0] = kind
    NAT_ORIG[0] = None
    caught = None
    try:
      if way == 0:
        P.nat()
      elif way == 1:
        P.natouter()
      elif way == 2:
        gin.parse_config("vw.cons.q = [{'k': @s/vw17.nat()}]")
        world.cons()
      else:
        gin.get_configurable('s/t/vw17.nat')()
    except Exception as e:
      caught = e
    if NAT_ORIG[0] is None:
      raise rt.HarnessError('the native probe did not raise (kind=%d)' % kind)
    orig, entries, scope = NAT_ORIG[0]
    if caught is None:
      return rt.no('nothing raised')
    if not isinstance(caught, type(orig)):
      return rt.no('%r arrived as %r' % (type(orig), type(caught)))
    if type(caught).__name__ != type(orig).__name__ or type(caught).__module__ != type(orig).__module__:
      return rt.no('class name/module')
    tb = caught.__traceback__
    got_entries = []
    while tb is not None:
      got_entries.append((tb.tb_frame.f_code.co_name, tb.tb_lineno))
      tb = tb.tb_next
    if not entries or got_entries[-len(entries):] != entries:
      return rt.no('the traceback does not end with the original one: %r vs %r' % (got_entries[-3:], entries))
    for a in public_attrs(orig):
      try:
        got = getattr(caught, a)
      except Exception:
        return rt.no('attribute %s unreadable on the caught exception' % a)
      want = getattr(orig, a)
      if not (got is want or got == want):
        return rt.no('attribute %s: %r, original %r' % (a, got, want))
    text = str(orig)
    got = str(caught)
    if not got.startswith(text):
      return rt.no('message %r does not start with the original %r' % (got, text))
    return suffix_ok(got[len(text):], 'nat', '/'.join(scope))


# ---- TypeError raised by the call itself ------------------------------------------------------------------------
ODD_NAMES = ['plain', '{x}', '{', '{0}', 'a}b{', '%s', '{!r}']


def c17_missing_positional(kwname: int, boundname: int, scoped: bool, v: int) -> bool:
  """
  pre: 0 <= kwname < 7 and 0 <= boundname < 7
  """
  world.fresh()
  kwname = rt.pick(kwname, 7)
  boundname = rt.pick(boundname, 7)
  scoped = rt.flag(scoped)
  rt.sig(('missing_positional', kwname, boundname, scoped), nontrivial=kwname or boundname)
  # reqkw(a, **kw): `a` is supplied by nobody -> Python raises TypeError inside the call; Gin extends its
  # message with the names the caller / Gin supplied - whatever characters those names contain
  gin.bind_parameter(('s' if scoped else '', 'vw.reqkw', ODD_NAMES[boundname]), v)
  caught = None
  try:
    if scoped:
      with gin.config_scope('s'):
        world.reqkw(**{ODD_NAMES[kwname] + '_c': 1})
    else:
      world.reqkw(**{ODD_NAMES[kwname] + '_c': 1})
  except TypeError as e:
    caught = e
  except Exception as e:
    with rt.native():
      return rt.no('the TypeError of a missing positional argument arrived as %r' % (e,))
  if caught is None or world.LOG:
    return rt.no('no TypeError')
  with rt.native():
    msg = str(caught)
    return (_names(msg, 'reqkw') and (ODD_NAMES[kwname] + '_c') in msg) or rt.no(
        'message %r' % msg)


def _raw(fn):
  return getattr(fn, '__wrapped__', fn)


# (text, configurable named by the suffix, bindings (parameter names) made before the call,
#  the call through Gin (v = bound value), the same call on the undecorated callable)
TSHAPES = [
    ('__init__(self, a, b=..) of a @gin.configurable class, a missing', 'KT', ('vw17.KT', ['b']),
     lambda v: P.KT(), lambda v: _raw(P.KT.__init__)(object.__new__(P.KT), b=v)),
    ('registry version of a @gin.register class, a missing', 'KTReg', ('vw17.KTReg', ['b']),
     lambda v: gin.get_configurable(P.KTReg)(), lambda v: P.KTReg(b=v)),
    ('class returned by external_configurable, a missing', 'KTExt', ('vw17.KTExt', []),
     lambda v: P.KTExt(), lambda v: P.RawKTExt()),
    ('var(a, b=.., *rest), a missing', 'var', ('vw.var', ['b']),
     lambda v: world.var(), lambda v: _raw(world.var)(b=v)),
    ('builtin sum() through the wrappability lambda, iterable missing', 'sum17', ('vw17.sum17', []),
     lambda v: P.sum17(), lambda v: sum()),
    ('callable object __call__(self, a, b=..), a missing', 'callt', ('vw17.callt', ['b']),
     lambda v: P.callt(), lambda v: P.rawcallt(b=v)),
    ('plain(a, b) called plain(gin.REQUIRED): a from Gin, b missing', 'plain', ('vw.plain', ['a']),
     lambda v: world.plain(gin.REQUIRED), lambda v: _raw(world.plain)(v)),
    ('t3(a, b, *, c) called t3(gin.REQUIRED, c=gin.REQUIRED): a, c from Gin, b missing', 't3', ('vw17.t3', ['a', 'c']),
     lambda v: P.t3(gin.REQUIRED, c=gin.REQUIRED), lambda v: _raw(P.t3)(v, c=v)),
    ('TypeError raised by the body, nothing missing', 'tbody', ('vw17.tbody', ['b']),
     lambda v: P.tbody(1), lambda v: _raw(P.tbody)(1, b=v)),
    ('__new__(cls, a, b=..) of a @gin.configurable class, a missing', 'KTNew', ('vw17.KTNew', ['b']),
     lambda v: P.KTNew(), lambda v: _raw(P.KTNew.__new__)(P.KTNew, b=v)),
    ('registered method meth(self, a, b=..) on the registry version, a missing', 'meth', ('vw17.KTM.meth', ['b']),
     lambda v: gin.get_configurable(P.KTM)().meth(), lambda v: _raw(P.KTM.meth)(P.KTM(), b=v)),
    ('unexpected keyword from the caller (nothing missing)', 'dflt', ('vw.dflt', ['b']),
     lambda v: world.dflt(nope=1), lambda v: _raw(world.dflt)(nope=1, b=v)),
]


def c17_typeerror(shape: int, scoped: bool, v: int) -> bool:
  """
  pre: 0 <= shape < 12
  """
  world.fresh()
  shape = rt.pick(shape, len(TSHAPES))
  scoped = rt.flag(scoped)
  rt.sig(('typeerror', shape, scoped), nontrivial=True)
  _, conf, (sel, params), call, rawcall = TSHAPES[shape]
  # what Python itself says for this call (the original text)
  try:
    rawcall(v)
    raise rt.HarnessError('the undecorated call of shape %d raised nothing' % shape)
  except TypeError as e:
    raw = e
  del world.LOG[:]
  for p in params:
    gin.bind_parameter(('s' if scoped else '', sel, p), v)
  caught = None
  try:
    if scoped:
      with gin.config_scope('s'):
        call(v)
    else:
      call(v)
  except TypeError as e:
    caught = e
  except Exception as e:
    with rt.native():
      return rt.no('the TypeError of the call arrived as %r' % (e,))
  if caught is None or world.LOG:
    return rt.no('no TypeError')
  if len(caught.args) != len(raw.args):
    return rt.no('args')
  for got, want in zip(caught.args, raw.args):
    if not (got is want or rt.same('args', got, want)):
      return rt.no('args')
  with rt.native():
    if type(caught).__name__ != 'TypeError' or type(caught).__module__ != 'builtins':
      return rt.no('class name/module')
    text = str(raw)
    got = str(caught)
    if not got.startswith(text):
      return rt.no('message %r does not start with the original %r' % (got, text))
    return suffix_ok(got[len(text):], conf, 's' if scoped else None)


OUTSIDE = ('dunder attributes of the caught exception (__cause__, __suppress_context__, __notes__, __dict__) and what '
           'callers do with it afterwards (pickle, copy, ==, hash, except*, attribute writes): the statement speaks of '
           'class, except clauses, traceback, public attributes and the message only; generator / async configurables '
           '(the body runs outside the Gin wrapper); recursion deeper than 100 (thorough tier: 200) configurable calls '
           '(interpreter recursion limit); exception classes whose __new__ returns an object of another class')

# ---- two DIFFERENT exception classes with the same module and qualified name (round e seed C17-e: a cache of
#      proxy classes keyed by the name of the class) --------------------------------------------------------------
def _make_twin(tag):
  class Twin(Exception):
    """one of two unrelated classes that share __module__ and __qualname__ (a class factory called twice)"""
    TAG = tag

    def __init__(self, what, n):
      super().__init__(what, n)
      self.n = n
  return Twin


TWINS = [_make_twin('first'), _make_twin('second')]


def c17_twins(first: int, how: int, n: int) -> bool:
  """
  pre: 0 <= first < 2 and 0 <= how < 5
  """
  first, how = rt.pick(first, 2), rt.pick(how, 5)
  rt.sig(('twins', first, how), nontrivial=True)
  world.fresh()
  order = [TWINS[first], TWINS[1 - first]]
  for k, cls in enumerate(order):
    other = order[1 - k]
    orig = cls('went wrong', n + k)
    world.RAISE[0] = orig
    caught = None
    try:
      trigger(how)
    except Exception as e:   # noqa
      caught = e
    if caught is None:
      return rt.no('nothing raised')
    if not isinstance(caught, cls) or isinstance(caught, other):
      with rt.native():
        return rt.no('raised %s (TAG %s), arrived as an instance of the class with TAG %s' % (
            cls.__qualname__, cls.TAG, getattr(type(caught), 'TAG', '?')))
    try:
      raise caught
    except other:
      return rt.no('caught by the except clause of the OTHER class of that name')
    except cls:
      pass
    if caught.TAG != cls.TAG or not rt.same('n', caught.n, n + k) or not rt.same('args', caught.args[1], n + k):
      return rt.no('attributes of the second twin')
  return True


HARNESSES = {
    'c17_twins': dict(
        fn='c17_twins',
        anchors=['gin.utils:augment_exception_message_and_reraise'],
        smoke=[dict(first=0, how=0, n=1), dict(first=1, how=2, n=0), dict(first=0, how=4, n=3)],
        tiers={'quick': dict(split=dict(first=[0, 1]), budget_s=60),
               'thorough': dict(split=dict(first=[0, 1]), budget_s=60)},
        bounds='two unrelated exception classes that share __module__ and __qualname__ (a class factory called '
               'twice), raised one after the other (either order) in 5 ways; each must arrive as an instance of ITS '
               'class, be caught by its own except clause only, with its own attributes (payload: all ints)'),
    'c17_missing_positional': dict(
        fn='c17_missing_positional',
        anchors=['gin.config:gin_wrapper', 'gin.utils:augment_exception_message_and_reraise'],
        smoke=[dict(kwname=1, boundname=0, scoped=False, v=3), dict(kwname=0, boundname=3, scoped=True, v=3)],
        tiers={'quick': dict(split=dict(kwname=list(range(7))), budget_s=60),
               'thorough': dict(split=dict(kwname=list(range(7)), boundname=list(range(7))), budget_s=60)},
        bounds='TypeError of a missing positional argument with caller keyword names / Gin-bound **kwargs names '
               'containing format metacharacters ({x}, {, {0}, %s, {!r}), scoped or not'),
    'c17_typeerror': dict(
        fn='c17_typeerror',
        anchors=['gin.config:gin_wrapper', 'gin.utils:augment_exception_message_and_reraise',
                 'gin.config:_get_all_positional_parameter_names'],
        smoke=[dict(shape=s, scoped=bool(s % 2), v=3) for s in range(len(TSHAPES))],
        tiers={'quick': dict(split=dict(shape=list(range(len(TSHAPES)))), budget_s=60),
               'thorough': dict(split=dict(shape=list(range(len(TSHAPES))), scoped=[False, True]), budget_s=120)},
        bounds='TypeError raised by the call itself, 12 shapes: ' + '; '.join(t[0] for t in TSHAPES) +
               '; scoped or not; bound value: all ints.  Judged: still a builtins.TypeError with the args and text '
               'Python gives for the same call on the undecorated callable, extended by a suffix naming the '
               'configurable and scope'),
    'c17_attrs': dict(
        fn='c17_attrs',
        anchors=['gin.utils:augment_exception_message_and_reraise', 'gin.config:gin_wrapper'],
        smoke=[dict(cls=3, how=2, n=4), dict(cls=13, how=0, n=4), dict(cls=17, how=3, n=4)] +
              # every new way paired with a new class (13 ways, 12 classes)
              [dict(cls=26 + (h - OLD_HOWS) % (NF - 26), how=h, n=4) for h in range(OLD_HOWS, NH)],
        tiers={'quick': dict(split=dict(cls=list(range(NF))), budget_s=100),
               # (nothing is deeper in the thorough tier: the payload is symbolic in both)
               'thorough': dict(split=dict(cls=list(range(NF))), budget_s=300)},
        bounds='38 exception classes (16 builtin incl. OSError family, StopIteration, SyntaxError, ImportError, '
               'AttributeError, Unicode errors, ExceptionGroup; 8 user classes: class-level defaults overridden on '
               'the instance, required __init__ / __new__ arguments (recoverable from args or not), extra attributes, '
               '__slots__, custom __str__, property; 3 user classes that constrain subclassing: __init_subclass__ with a '
               'required class keyword, a metaclass validating the class body, a duplicate-name registry; stdlib classes '
               'with rich constructors: json.JSONDecodeError, subprocess.CalledProcessError, UnicodeTranslateError, '
               'urllib.error.HTTPError; multiple inheritance KeyError+AttributeError; KeyError with a tuple key; frozen and '
               'plain dataclass exceptions; TypeError subclass with required __new__ arguments) x 18 ways of raising: ' +
               '; '.join(h[0] for h in HOW) + '.  Integer payload: all ints; every public non-callable attribute of '
               'the original compared; the traceback must end in the frame that raised'),
    'c17_msg': dict(
        fn='c17_msg', anchors=['gin.utils:augment_exception_message_and_reraise'],
        smoke=[dict(cls=0, how=4, n=1), dict(cls=20, how=2, n=2)] +
              [dict(cls=(4 + 3 * h) % 24, how=h, n=h % 3) for h in (5, 7, 8, 12, 15, 17)] +
              [dict(cls=29, how=6, n=0), dict(cls=35, how=9, n=1)],
        tiers={'quick': dict(split=dict(grp=list(range(MSG_GROUPS))), budget_s=100),
               'thorough': dict(split=dict(grp=list(range(MSG_GROUPS)), n=[0, 1, 2]), budget_s=300)},
        bounds='same classes and ways; message = original text + suffix naming the configurable and the scope that was '
               'active where the exception was raised (recorded by the raising probe); payload in {0, 7, -12345}'),
    'c17_passthrough': dict(
        fn='c17_passthrough', anchors=['gin.config:gin_wrapper'],
        smoke=[dict(cls=0, how=1, n=3), dict(cls=3, how=5, n=3), dict(cls=4, how=12, n=3), dict(cls=5, how=8, n=3)],
        tiers={'quick': dict(split=dict(cls=list(range(6))), budget_s=60),
               'thorough': dict(split=dict(cls=list(range(6))), budget_s=120)},
        bounds='KeyboardInterrupt, SystemExit, GeneratorExit, asyncio.CancelledError, BaseExceptionGroup holding a '
               'KeyboardInterrupt, a user BaseException subclass with required arguments, through all 18 ways: the very '
               'object arrives'),
    'c17_depth': dict(
        fn='c17_depth', anchors=['gin.utils:augment_exception_message_and_reraise', 'gin.config:gin_wrapper'],
        smoke=[dict(cls=1, depth=3, scoped=True), dict(cls=5, depth=2, scoped=False), dict(cls=14, depth=1, scoped=False),
               dict(cls=0, depth=4, scoped=True)],
        tiers={'quick': dict(split=dict(depth=[0, 1, 2, 3]), budget_s=100),
               'thorough': dict(split=dict(depth=[0, 1, 2, 3, 4], scoped=[False, True]), budget_s=100)},
        bounds='a self-recursive configurable raising at depth 3, 10, 30, 100 (thorough: also 200; one proxy layer per level), 16 of the '
               'classes, scoped or not: class, except clause, all public attributes, traceback holds every level and ends at '
               'the raise, message starts with the original text and names configurable and scope'),
    'c17_native': dict(
        fn='c17_native', anchors=['gin.utils:augment_exception_message_and_reraise', 'gin.config:gin_wrapper'],
        smoke=[dict(kind=k, way=k % 4) for k in range(len(NAT_KINDS))],
        tiers={'quick': dict(split=dict(way=[0, 1, 2, 3]), budget_s=100),
               'thorough': dict(split=dict(way=[0, 1, 2, 3]), budget_s=100)},
        bounds='exceptions created by the interpreter / C code inside the configurable rather than prebuilt: ' +
               '; '.join(NAT_KINDS) + ' x 4 ways (' + '; '.join(NAT_WAYS) + '); compared with the instance as it was '
               'at the raise site (captured by the probe): class, public attributes incl. filename / name / obj / '
               'value / start / end, traceback tail (function, line), message prefix, suffix naming configurable and scope'),
}
