"""C17 - exceptions from configurables keep their type, data and traceback."""
import gin
from vf import rt
from vf import world


class UInit(Exception):
  """required __init__ arguments, stored as attributes"""

  def __init__(self, a, b):
    super().__init__('uinit %s' % (a,))
    self.a = a
    self.b = b


class UNew(Exception):
  """required __new__ arguments"""

  def __new__(cls, a, b):
    self = super().__new__(cls, a, b)
    self.total = (a, b)
    return self

  def __init__(self, a, b):
    super().__init__(a, b)


class UNewOdd(Exception):
  """required __new__ arguments that cannot be recovered from .args"""

  def __new__(cls, a, b):
    return super().__new__(cls)

  def __init__(self, a, b):
    super().__init__(a)
    self.b = b


class UAttrs(ValueError):
  pass


class UClassDefault(RuntimeError):
  """public class-level defaults that the raised instance overrides"""
  status = 500
  retryable = False

  def __init__(self, n):
    super().__init__(n)
    self.status = n
    self.retryable = True


class USlots(Exception):
  __slots__ = ('code_', 'detail')

  def __init__(self, code_, detail):
    super().__init__(code_)
    self.code_ = code_
    self.detail = detail


class UStr(KeyError):

  def __init__(self, n):
    super().__init__(n)
    self.n = n

  def __str__(self):
    return 'custom<%s>' % (self.n,)


class UProp(RuntimeError):

  @property
  def doubled(self):
    return (self.args[0], self.args[0])


def _uattrs(n):
  e = UAttrs('with extras', n)
  e.extra = n
  e.more = [n, 'x']
  return e


def _group(n):
  return ExceptionGroup('grp', [ValueError(n), KeyError('k')])


# name -> factory(n) (n is the S/F integer payload)
FACTORIES = [
    ('ValueError', lambda n: ValueError('bad value', n)),
    ('KeyError', lambda n: KeyError(n)),
    ('TypeError', lambda n: TypeError('custom type error', n)),
    ('OSError', lambda n: OSError(n, 'os failed')),
    ('FileNotFoundError', lambda n: FileNotFoundError(n, 'no file', '/some/path')),
    ('BlockingIOError', lambda n: BlockingIOError(11, 'would block', n)),
    ('StopIteration', lambda n: StopIteration(n)),
    ('SystemError', lambda n: SystemError(n)),
    ('ImportError', lambda n: ImportError('cannot import', name='modname', path='/p/%d' % 7)),
    ('AttributeError', lambda n: AttributeError('no attr', name='attrname', obj=n)),
    ('NameError', lambda n: NameError('no name', name='nm')),
    ('SyntaxError', lambda n: SyntaxError('bad syntax', ('file.gin', n, 3, 'the text'))),
    ('UnicodeDecodeError', lambda n: UnicodeDecodeError('utf8', b'abcdef', 1, 3, 'reason')),
    ('ExceptionGroup', _group),
    ('AssertionError', lambda n: AssertionError()),
    ('ZeroDivisionError', lambda n: ZeroDivisionError('division', n)),
    ('UInit', lambda n: UInit(n, 'bee')),
    ('UNew', lambda n: UNew(n, 'two')),
    ('UAttrs', _uattrs),
    ('USlots', lambda n: USlots(n, 'detail')),
    ('UStr', lambda n: UStr(n)),
    ('UProp', lambda n: UProp(n)),
    ('LookupError', lambda n: LookupError(n, n)),
    ('UnicodeEncodeError', lambda n: UnicodeEncodeError('ascii', 'abcdef', 2, 4, 'why')),
    ('UNewOdd', lambda n: UNewOdd(n, 'hidden')),
    ('UClassDefault', lambda n: UClassDefault(n)),
]
NF = len(FACTORIES)
PASS_THROUGH = [KeyboardInterrupt, SystemExit, GeneratorExit]
HOW = ['direct call', 'nested 1', 'nested 2 (scope deep)', 'via evaluated reference', 'in scope s']


def public_attrs(o):
  out = []
  for name in dir(o):
    if name.startswith('_'):
      continue
    try:
      v = getattr(o, name)
    except Exception:
      continue
    if callable(v):
      continue
    out.append(name)
  return out


def trigger(how):
  if how == 0:
    world.boom()
  elif how == 1:
    world.outer1()
  elif how == 2:
    world.outer2()
  elif how == 3:
    with rt.native():
      gin.parse_config('vw.cons.p = [@vw.boom()]')
    world.cons()
  else:
    with gin.config_scope('s'):
      world.boom()


def c17_attrs(cls: int, how: int, n: int) -> bool:
  """
  pre: 0 <= cls < 26 and 0 <= how < 5
  """
  world.fresh()
  cls = rt.pick(cls, NF)
  how = rt.pick(how, 5)
  name, factory = FACTORIES[cls]
  rt.sig(('attrs', name, how), nontrivial=True)
  if name in ('UnicodeDecodeError', 'UnicodeEncodeError', 'ImportError', 'NameError', 'AssertionError',
              'BlockingIOError', 'UInit'):
    # no integer payload, or a constructor that converts/stringifies it (C-level
    # int conversion, '%s' formatting): S-inputs must not be realised, so it is concrete
    n = 5
  orig = factory(n)
  world.RAISE[0] = orig
  caught = None
  try:
    trigger(how)
  except type(orig) as e:        # catchable by the same except clause
    caught = e
  except BaseException as e:
    with rt.native():
      return rt.no('%s arrived as %r' % (name, type(e)))
  if caught is None:
    return rt.no('nothing raised')
  if not isinstance(caught, type(orig)):
    return False
  with rt.native():
    names = public_attrs(orig)
    if type(caught).__name__ != type(orig).__name__ or type(caught).__module__ != type(orig).__module__:
      return rt.no('class name/module')
    tb = caught.__traceback__
    fns = []
    while tb is not None:
      fns.append(tb.tb_frame.f_code.co_name)
      tb = tb.tb_next
    if 'boom' not in fns:
      return rt.no('original traceback frames lost: %r' % fns)
  for a in names:
    try:
      got = getattr(caught, a)
    except Exception:
      with rt.native():
        return rt.no('attribute %s unreadable on the caught exception' % a)
    want = getattr(orig, a)
    if a == 'exceptions':
      if got is not want and tuple(got) != tuple(want):
        return rt.no('exceptions')
      continue
    if not (got is want or rt.same(a, got, want)):
      with rt.native():
        return rt.no('attribute %s of %s' % (a, name))
  return True


def c17_msg(cls: int, how: int, n: int) -> bool:
  """
  pre: 0 <= cls < 26 and 0 <= how < 5 and 0 <= n < 3
  """
  world.fresh()
  cls = rt.pick(cls, NF)
  how = rt.pick(how, 5)
  n = [0, 7, -12345][rt.pick(n, 3)]
  name, factory = FACTORIES[cls]
  rt.sig(('msg', name, how, n), nontrivial=True)
  with rt.native():
    orig = factory(n)
    text = str(orig)
    world.RAISE[0] = orig
    caught = None
    try:
      trigger(how)
    except Exception as e:
      caught = e
    if caught is None or not isinstance(caught, type(orig)):
      return rt.no('class')
    got = str(caught)
    if not got.startswith(text):
      return rt.no('message %r does not start with the original %r' % (got, text))
    suffix = got[len(text):]
    if "In call to configurable 'boom'" not in suffix:
      return rt.no('suffix does not name the configurable: %r' % suffix)
    scope = {2: 'deep', 4: 's'}.get(how)
    if scope and ("in scope '%s'" % scope) not in suffix:
      return rt.no('suffix does not name the scope')
    if how in (1, 2) and "configurable 'outer1'" not in suffix:
      return rt.no('outer level missing')
    return True


def c17_passthrough(cls: int, how: int, n: int) -> bool:
  """
  pre: 0 <= cls < 3 and 0 <= how < 5
  """
  world.fresh()
  cls = rt.pick(cls, 3)
  how = rt.pick(how, 5)
  rt.sig(('pass', cls, how), nontrivial=True)
  orig = PASS_THROUGH[cls](n)
  world.RAISE[0] = orig
  try:
    trigger(how)
  except BaseException as e:
    return e is orig and rt.same('args', e.args[0], n)
  return False


ODD_NAMES = ['plain', '{x}', '{', '{0}', 'a}b{', '%s', '{!r}']


def c17_missing_positional(kwname: int, boundname: int, scoped: bool, v: int) -> bool:
  """
  pre: 0 <= kwname < 7 and 0 <= boundname < 7
  """
  world.fresh()
  kwname = rt.pick(kwname, 7)
  boundname = rt.pick(boundname, 7)
  scoped = rt.flag(scoped)
  rt.sig(('missing_positional', kwname, boundname, scoped), nontrivial=kwname or boundname)
  # reqkw(a, **kw): `a` is supplied by nobody -> Python raises TypeError inside the call; Gin extends its
  # message with the names the caller / Gin supplied - whatever characters those names contain
  gin.bind_parameter(('s' if scoped else '', 'vw.reqkw', ODD_NAMES[boundname]), v)
  caught = None
  try:
    if scoped:
      with gin.config_scope('s'):
        world.reqkw(**{ODD_NAMES[kwname] + '_c': 1})
    else:
      world.reqkw(**{ODD_NAMES[kwname] + '_c': 1})
  except TypeError as e:
    caught = e
  except Exception as e:
    with rt.native():
      return rt.no('the TypeError of a missing positional argument arrived as %r' % (e,))
  if caught is None or world.LOG:
    return rt.no('no TypeError')
  with rt.native():
    msg = str(caught)
    return ("In call to configurable 'reqkw'" in msg and (ODD_NAMES[kwname] + '_c') in msg) or rt.no(
        'message %r' % msg)


HARNESSES = {
    'c17_missing_positional': dict(
        fn='c17_missing_positional',
        anchors=['gin.config:gin_wrapper', 'gin.utils:augment_exception_message_and_reraise'],
        smoke=[dict(kwname=1, boundname=0, scoped=False, v=3), dict(kwname=0, boundname=3, scoped=True, v=3)],
        tiers={'quick': dict(split=dict(kwname=list(range(7))), budget_s=60),
               'thorough': dict(split=dict(kwname=list(range(7)), boundname=list(range(7))), budget_s=60)},
        bounds='TypeError of a missing positional argument with caller keyword names / Gin-bound **kwargs names '
               'containing format metacharacters ({x}, {, {0}, %s, {!r}), scoped or not'),
    'c17_attrs': dict(
        fn='c17_attrs',
        anchors=['gin.utils:augment_exception_message_and_reraise', 'gin.config:gin_wrapper'],
        smoke=[dict(cls=3, how=2, n=4), dict(cls=13, how=0, n=4), dict(cls=17, how=3, n=4)],
        tiers={'quick': dict(split=dict(cls=list(range(NF))), budget_s=100),
               'thorough': dict(split=dict(cls=list(range(NF)), how=list(range(5))), budget_s=300)},
        bounds='26 exception classes (16 builtin incl. OSError family, StopIteration, SyntaxError, ImportError, '
               'AttributeError, Unicode errors, ExceptionGroup; 8 user classes: class-level defaults overridden on the instance, required __init__ / __new__ arguments (recoverable from args or not), '
               'extra attributes, __slots__, custom __str__, property) x 5 ways of raising (direct, nested 1-2 levels, '
               'while evaluating a reference, under a scope); integer payload: all ints; every public non-callable '
               'attribute of the original compared'),
    'c17_msg': dict(
        fn='c17_msg', anchors=['gin.utils:augment_exception_message_and_reraise'],
        smoke=[dict(cls=0, how=4, n=1), dict(cls=20, how=2, n=2)],
        tiers={'quick': dict(split=dict(how=list(range(5))), budget_s=100),
               'thorough': dict(split=dict(how=list(range(5)), n=[0, 1, 2]), budget_s=300)},
        bounds='same classes and ways; message = original text + suffix naming configurable and scope; payload in {0, 7, -12345}'),
    'c17_passthrough': dict(
        fn='c17_passthrough', anchors=['gin.config:gin_wrapper'],
        smoke=[dict(cls=0, how=1, n=3)],
        tiers={'quick': dict(split={}, budget_s=60), 'thorough': dict(split={}, budget_s=60)},
        bounds='KeyboardInterrupt, SystemExit, GeneratorExit through all 5 ways: the very object arrives'),
}
