"""C06 - the config string round-trips, is canonical and always parses."""
import pprint

import gin
from gin import config as gc
from vf import rt
from vf import world
from vf.spec import literal

LONG = 'x' * 70
OBJ = object()
# catalogue: each item is a list of ('text', statement) / ('bind', key, value) actions
CAT = [
    [('text', "vw.dflt.a = [1, [2, {'k': (3, 4.5)}], -7, None, True]")],
    [('text', "vw.dflt.b = '%s'" % LONG)],
    [('text', 'vw.cons.p = @vw.src')],
    [('text', 'vw.cons.q = [@s/vw.src(), @vw.src2()]')],
    [('text', 'mac = 3'), ('text', 's1/s2/vw.plain.a = %mac')],
    [('text', 'vw.x.m.fam.p = 1')],
    [('text', 'vw.y.m.fam.p = 2')],
    [('text', 'vw.case.Foo.p = 1')],
    [('text', 'vw.case.foo.p = 2')],
    [('text', 'A/vw.dflt.a = 1')],
    [('text', 'a/vw.dflt.a = 2')],
    [('text', 'M = 1')],
    [('text', 'm = 2')],
    [('text', 'vw.Kmeth.meth.a = (1,)')],
    [('bind', ('nm', 'gin.macro', 'value'), OBJ)],
    [('bind', 'vw.kws.obj', OBJ)],
    [('bind', 'vw.kws.nan', float('nan'))],
    [('bind', 'vw.kws.aset', {1, 2})],
    [('bind', 'vw.kws.misc', [1e-07, b'x\x00', (), {}, [], (1,), 'it\'s "q"\n\\', {1: 'a', (1, 2): [3]}])],
    [('text', 's1/vw.plain.b = {}'), ('text', 'vw.plain.b = 0')],
    [('bind', 'vw.kws.holder', [1, OBJ])],
    [('text', "vw.src.v = %vwc.K")],
    [('text', 'import os.path')],
    [('text', 'from os import path as osp')],
    [('text', 'import json as js')],
]
NC = len(CAT)
UNREPRESENTABLE = {('nm', 'gin.macro', 'value'), ('', 'vw.kws', 'obj'), ('', 'vw.kws', 'nan'),
                   ('', 'vw.kws', 'aset'), ('', 'vw.kws', 'holder')}


def canon(v):
  if isinstance(v, gc.ConfigurableReference):
    return ('REF', v.scoped_selector if v.config_key[1] != 'gin.constant' else v.scoped_selector,
            v.evaluate)
  if isinstance(v, list):
    return [canon(x) for x in v]
  if isinstance(v, tuple):
    return ('TUPLE',) + tuple(canon(x) for x in v)
  if isinstance(v, dict):
    return {('KEY', k): canon(x) for k, x in v.items()}
  return v


def apply(items, order):
  world.fresh()
  gin.constant('vwc.K', 5)
  seq = [items[i] for i in order]
  for item in seq:
    for act in CAT[item]:
      if act[0] == 'text':
        gin.parse_config(act[1])
      else:
        gin.bind_parameter(act[1], act[2])


def store():
  out = {}
  for (scope, sel), d in gc._CONFIG.items():
    for p, v in d.items():
      out[(scope, sel, p)] = v
  return out


def check_text(text, items):
  """Round trip, canonical order, parse-ability of one config string."""
  before = store()
  imports_before = set(i.module for i in gc._IMPORTS)
  # (1) parses into a cleared configuration
  world.fresh()
  gin.constant('vwc.K', 5)
  try:
    gin.parse_config(text)
  except Exception as e:
    return rt.no('config string does not parse: %r\n%s' % (e, text))
  after = store()
  # (2) every literally representable binding is back, same value and type; others absent
  want = {k: v for k, v in before.items() if k not in UNREPRESENTABLE}
  if set(after) != set(want):
    return rt.no('bindings restored %r, expected %r\n%s' % (sorted(after), sorted(want), text))
  for k in want:
    if not literal.same_value(canon(after[k]), canon(want[k])):
      return rt.no('value of %r: %r != %r' % (k, after[k], want[k]))
  if set(i.module for i in gc._IMPORTS) != imports_before:
    return rt.no('recorded imports not restored')
  # (3) serialising again yields the identical text
  again = gin.config_str()
  if again != text:
    return rt.no('second serialisation differs:\n%s\n---\n%s' % (text, again))
  # (5) sections alphabetical (case-insensitive, innermost name first), parameters sorted
  keys = []
  params = {}
  for line in text.split('\n'):
    if line.startswith('# Parameters for '):
      keys.append(line[len('# Parameters for '):-1])
    elif line and not line.startswith(('#', ' ')) and ' = ' in line and keys:
      params.setdefault(keys[-1], []).append(line.split(' = ')[0])
  def sort_parts(k):
    scope, _, sel = k.rpartition('/')
    full = gc._REGISTRY.get_match(sel)
    parts = full.selector.lower().split('.')[::-1] + scope.lower().split('/')[::-1]
    if full.is_method:
      m = parts.pop(0)
      parts[0] += '.' + m
    return parts
  if [sort_parts(k) for k in keys] != sorted(sort_parts(k) for k in keys):
    return rt.no('sections not in alphabetical order: %r' % keys)
  for k, ps in params.items():
    if ps != sorted(ps):
      return rt.no('parameters of %s not sorted: %r' % (k, ps))
  # markdown keeps every binding line verbatim
  md = gin.config.markdown(text).split('\n')
  for line in text.split('\n'):
    if line and not line.startswith('#') and ('    ' + line) not in md:
      return rt.no('markdown lost the line %r' % line)
  return True


def c06_roundtrip(n: int, i0: int, i1: int, i2: int, i3: int, perm: int) -> bool:
  """
  pre: 0 <= n <= 4 and 0 <= i0 < 25 and 0 <= i1 < 25 and 0 <= i2 < 25 and 0 <= i3 < 25 and 0 <= perm < 3
  """
  # subsets, not sequences: each index is chosen above the previous one
  idx = []
  prev = -1
  for ik in (i0, i1, i2, i3)[:n]:
    room = NC - prev - 1
    if room <= 0:
      rt.discard()
    prev = prev + 1 + rt.pick(ik, room)
    idx.append(prev)
  perm = rt.pick(perm, 3)
  with rt.native():
    rt.sig(('roundtrip', tuple(idx), perm), nontrivial=len(idx) >= 2)
    order0 = list(range(len(idx)))
    orders = [order0, order0[::-1], order0[1:] + order0[:1]]
    apply(idx, orders[perm])
    text = gin.config_str()
    # (4) the text depends only on the set of bindings, not on the order they were made
    apply(idx, order0)
    if gin.config_str() != text:
      return rt.no('binding order changes the text:\n%s\n---\n%s' % (text, gin.config_str()))
    apply(idx, orders[perm])
    return check_text(text, idx)


WVALS = [
    [1, [2, {'k': (3, 4.5)}], -7, None, True],
    {'alpha': [1, 2, 3], 'beta': {'gamma': ('x' * 12, 'y' * 12)}, 3: (1,)},
    'a fairly long string with spaces in it, longer than narrow widths',
    ([1, 2], [3, [4, [5, [6, 'deep']]]]),
    [b'bytes', 1.5, -2, (), {}, []],
    [['ab', 'cd'], ['ef', 'gh'], ['ij', 'kl'], ['mn', 'op']],
    {'k%d' % i: i for i in range(7)},
]


def c06_pformat_width(v: int, w: int) -> bool:
  """
  pre: 0 <= v < 7 and w >= 1
  """
  v = rt.pick(v, 7)
  with rt.native():
    rt.sig(('pformat', v), nontrivial=True)
  value = WVALS[v]
  text = pprint.pformat(value, width=w)     # the width stays an unbounded symbolic integer
  text = rt.realize(text)
  with rt.native():
    back = gin.config.parse_value(text)
    return literal.same_value(back, value) or rt.no('layout %r' % text)


def c06_width(item: int, indent: int, width: int) -> bool:
  """
  pre: 0 <= item < 7 and 0 <= indent < 4 and 0 <= width < 52
  """
  item = rt.pick(item, 7)
  indent = [0, 1, 4, 8][rt.pick(indent, 4)]
  width = rt.pick(width, 52)
  width = indent + 1 + width if width < 49 else [80, 120, 200][width - 49]
  with rt.native():
    rt.sig(('width', item, indent, width), nontrivial=True)
    world.fresh()
    gin.bind_parameter('vw.kws.value', WVALS[item])
    gin.bind_parameter('s/vw.kws.other', WVALS[(item + 1) % 7])
    text = gin.config_str(max_line_length=width, continuation_indent=indent)
    before = store()
    world.fresh()
    try:
      gin.parse_config(text)
    except Exception as e:
      return rt.no('does not parse at width %d indent %d: %r\n%s' % (width, indent, e, text))
    after = store()
    if set(after) != set(before) or not all(literal.same_value(after[k], before[k]) for k in before):
      return rt.no('values changed at width %d indent %d' % (width, indent))
    if gin.config_str(max_line_length=width, continuation_indent=indent) != text:
      return rt.no('second serialisation differs at width %d' % width)
    return True


HARNESSES = {
    'c06_roundtrip': dict(
        fn='c06_roundtrip',
        anchors=['gin.config:_config_str', 'gin.config:_format_value', 'gin.config:markdown',
                 'gin.config:minimal_selector', 'gin.config:__repr__'],
        smoke=[dict(n=4, i0=0, i1=3, i2=4, i3=13, perm=1), dict(n=3, i0=5, i1=6, i2=18, i3=0, perm=2)],
        tiers={'quick': dict(split=dict(i0=list(range(NC)), perm=[0, 1, 2]), fixed=dict(n=3, i3=0), budget_s=100),
               'thorough': dict(split=dict(i0=list(range(NC)), i1=list(range(NC)), perm=[0, 1, 2]),
                                fixed=dict(n=4), budget_s=600)},
        bounds='every subset of 3 (quick) / 4 (thorough) items of a 25-item catalogue (nested containers, a 70-char '
               'string, @ref, scoped and evaluated refs, macro + use, module-qualified sibling names, configurable names / '
               'scopes / macro names that differ only in case, a registered method, a macro bound to a non-literal, '
               'object(), nan, a set, a list holding an object, exotic literals, a constant reference, three import forms) bound in 3 orders'),
    'c06_pformat_width': dict(
        fn='c06_pformat_width',
        anchors=[],
        smoke=[dict(v=1, w=7)],
        tiers={'quick': dict(split=dict(v=list(range(7))), budget_s=100),
               'thorough': dict(split=dict(v=list(range(7))), budget_s=600)},
        bounds='7 catalogue values; the pprint width is an UNBOUNDED symbolic integer >= 1 (every layout pprint can '
               'produce for the value is a path)'),
    'c06_width': dict(
        fn='c06_width',
        anchors=['gin.config:_config_str', 'gin.config:format_binding'],
        smoke=[dict(item=1, indent=2, width=3), dict(item=3, indent=0, width=50)],
        tiers={'quick': dict(split=dict(item=list(range(7)), indent=[0, 1, 2, 3]), budget_s=100),
               'thorough': dict(split=dict(item=list(range(7)), indent=[0, 1, 2, 3]), budget_s=300)},
        bounds='continuation_indent in {0,1,4,8} x max_line_length in [indent+1, indent+49] + {80,120,200} through the '
               'real config_str for 7 value pairs'),
}
RULE = 'one case per distinct catalogue subset x order / (value, layout) / (value, indent, width); non-trivial: at least two items'
SOLVER_ROLE = ('c06_pformat_width decides data (the width is an unbounded solver variable through the real pprint code); the '
               'other two certify coverage (config_str stringifies everything, so leaves are concrete)')
OUTSIDE = ('catalogue values only; dynamic registration (C19 harness); the combination "any width = a pprint layout covered by '
           'the lemma inside one of the two wrappers covered by c06_width" is an argument, not a single solver verdict')


# ---- dynamic registration ------------------------------------------------------------------------
import os as _os
import sys as _sys
_sys.path.insert(0, _os.path.join(_os.path.dirname(_os.path.dirname(_os.path.dirname(
    _os.path.abspath(__file__)))), 'fixtures'))

DCAT = [
    [('text', 'from __gin__ import dynamic_registration\nimport vfx.alpha.mod as am\nam.fn.x = 1\n')],
    [('text', 'from __gin__ import dynamic_registration\nfrom vfx.beta import mod as bm\nbm.fn.x = [2, @bm.Cls()]\n')],
    [('bind', 'vfx.zeta.zfn.x', 3)],                      # statically registered, module not imported by any file
    [('bind', 'vfx.gamma.gfn.x', 4)],
    [('bind', 's/vfx.zeta.ZCls.x', 5)],
    [('text', 'from __gin__ import dynamic_registration\nimport vfx.alpha.mod\nvfx.alpha.mod.Cls.meth.m = 6\n')],
    [('text', 'from __gin__ import dynamic_registration\nfrom vfx.alpha import mod\nmod.Outer.Inner.y = @mod.fn\n')],
]
ND = len(DCAT)


def _dapply(items, order):
  from vf.harness import c19
  import vfx.gamma, vfx.zeta   # registers the decorated configurables
  world.fresh()
  c19.cleanup_vfx()
  gin.parse_config('from __gin__ import dynamic_registration\n')
  for i in order:
    for act in DCAT[items[i]]:
      if act[0] == 'text':
        gin.parse_config(act[1])
      else:
        gin.bind_parameter(act[1], act[2])


def c06_dynamic(d0: bool, d1: bool, d2: bool, d3: bool, d4: bool, d5: bool, d6: bool, perm: int) -> bool:
  """
  pre: 0 <= perm < 3
  """
  from vf.harness import c19
  bits = [rt.flag(b) for b in (d0, d1, d2, d3, d4, d5, d6)]
  perm = rt.pick(perm, 3)
  items = [i for i in range(ND) if bits[i]]
  with rt.native():
    rt.sig(('dynamic', tuple(items), perm), nontrivial=len(items) >= 2)
    if not items:
      return True
    order0 = list(range(len(items)))
    orders = [order0, order0[::-1], order0[1:] + order0[:1]]
    try:
      _dapply(items, orders[perm])
      text = gin.config_str()
      _dapply(items, order0)
      if gin.config_str() != text:
        return rt.no('binding order changes the text:\n%s\n---\n%s' % (text, gin.config_str()))
      before = {k: dict(d) for k, d in gc._CONFIG.items()}
      targets = {k: gc._REGISTRY[k[1]].wrapped for k in before}
      # parse into a cleared configuration
      gc._CONFIG.clear(); gc._CONFIG_PROVENANCE.clear(); gc._IMPORTS.clear()
      try:
        gin.parse_config(text)
      except Exception as e:
        return rt.no('config string does not parse: %r\n%s' % (e, text))
      after = {k: dict(d) for k, d in gc._CONFIG.items()}
      # every emitted selector resolves to the same Python object
      got_targets = sorted((k[0], repr(gc._REGISTRY[k[1]].wrapped), tuple(sorted(d))) for k, d in after.items())
      want_targets = sorted((k[0], repr(targets[k]), tuple(sorted(d))) for k, d in before.items())
      if got_targets != want_targets:
        return rt.no('objects configured after re-parse %r, before %r\n%s' % (got_targets, want_targets, text))
      again = gin.config_str()
      if again != text:
        return rt.no('second serialisation differs:\n%s\n---\n%s' % (text, again))
      return True
    finally:
      c19.cleanup_vfx()


from vf.harness.c19 import c19_collide as c06_collide  # noqa: E402  (import re-aliasing: also a C06 matter)

HARNESSES['c06_collide'] = dict(
    fn='c06_collide',
    anchors=['gin.config:add_import', 'gin.config:_config_str'],
    smoke=[dict(f1=3, f2=7, f3=8, n=3)],
    tiers={'quick': dict(split=dict(f1=list(range(10))), fixed=dict(n=3), budget_s=100),
           'thorough': dict(split=dict(f1=list(range(10)), f2=list(range(10))), fixed=dict(n=3), budget_s=300)},
    bounds='dynamic registration: 3 files in every order from 10 whose imports bind colliding names; the config '
           'string must re-parse, restore the bindings on the same objects and be stable')
HARNESSES['c06_dynamic'] = dict(
    fn='c06_dynamic',
    anchors=['gin.config:_config_str', 'gin.config:require_configurable', 'gin.config:add_import'],
    smoke=[dict(d0=True, d1=True, d2=True, d3=True, d4=False, d5=True, d6=False, perm=1)],
    tiers={'quick': dict(split=dict(d0=[False, True], d1=[False, True], perm=[0, 1, 2]), budget_s=100),
           'thorough': dict(split=dict(d0=[False, True], d1=[False, True], perm=[0, 1, 2]), budget_s=300)},
    bounds='dynamic registration: every subset of a 7-item catalogue (text bindings through 4 import forms of two '
           'fixture modules incl. a method and a nested class, references, and programmatic bindings of statically '
           'registered configurables from two further modules that no file imports) in 3 binding orders')
