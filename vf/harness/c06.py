"""C06 - the config string round-trips, is canonical and always parses."""
import pprint

import gin
from gin import config as gc
from vf import rt
from vf import world
from vf.spec import literal

LONG = 'x' * 70
OBJ = object()
# catalogue: each item is a list of ('text', statement) / ('bind', key, value) actions
CAT = [
    [('text', "vw.dflt.a = [1, [2, {'k': (3, 4.5)}], -7, None, True]")],
    [('text', "vw.dflt.b = '%s'" % LONG)],
    [('text', 'vw.cons.p = @vw.src')],
    [('text', 'vw.cons.q = [@s/vw.src(), @vw.src2()]')],
    [('text', 'mac = 3'), ('text', 's1/s2/vw.plain.a = %mac')],
    [('text', 'vw.x.m.fam.p = 1')],
    [('text', 'vw.y.m.fam.p = 2')],
    [('text', 'vw.case.Foo.p = 1')],
    [('text', 'vw.case.foo.p = 2')],
    [('text', 'A/vw.dflt.a = 1')],
    [('text', 'a/vw.dflt.a = 2')],
    [('text', 'M = 1')],
    [('text', 'm = 2')],
    [('text', 'vw.Kmeth.meth.a = (1,)')],
    [('bind', ('nm', 'gin.macro', 'value'), OBJ)],
    [('bind', 'vw.kws.obj', OBJ)],
    [('bind', 'vw.kws.nan', float('nan'))],
    [('bind', 'vw.kws.aset', {1, 2})],
    [('bind', 'vw.kws.misc', [1e-07, b'x\x00', (), {}, [], (1,), 'it\'s "q"\n\\', {1: 'a', (1, 2): [3]}])],
    [('text', 's1/vw.plain.b = {}'), ('text', 'vw.plain.b = 0')],
    [('bind', 'vw.kws.holder', [1, OBJ])],
    [('text', "vw.src.v = %vwc.K")],
    [('text', 'import os.path')],
    [('text', 'from os import path as osp')],
    [('text', 'import json as js')],
]
NC = len(CAT)
UNREPRESENTABLE = {('nm', 'gin.macro', 'value'), ('', 'vw.kws', 'obj'), ('', 'vw.kws', 'nan'),
                   ('', 'vw.kws', 'aset'), ('', 'vw.kws', 'holder')}


def canon(v):
  if isinstance(v, gc.ConfigurableReference):
    return ('REF', v.scoped_selector if v.config_key[1] != 'gin.constant' else v.scoped_selector,
            v.evaluate)
  if isinstance(v, list):
    return [canon(x) for x in v]
  if isinstance(v, tuple):
    return ('TUPLE',) + tuple(canon(x) for x in v)
  if isinstance(v, dict):
    return {('KEY', k): canon(x) for k, x in v.items()}
  return v


def run_actions(action_lists, consts=()):
  """fresh world, the program-level constants, then the actions of every item in the given order"""
  world.fresh()
  gin.constant('vwc.K', 5)
  for name, value in consts:
    if name is not None:
      gin.constant(name, value)
  for acts in action_lists:
    for act in acts:
      if act[0] == 'text':
        gin.parse_config(act[1])
      elif act[0] == 'skip':
        gin.parse_config(act[1], skip_unknown=True)
      elif act[0] == 'const':              # a constant the PROGRAM defines after the bindings were made
        gin.constant(act[1], act[2])
      else:
        gin.bind_parameter(act[1], act[2])


def apply(items, order):
  run_actions([CAT[items[i]] for i in order])


def store():
  out = {}
  for (scope, sel), d in gc._CONFIG.items():
    for p, v in d.items():
      out[(scope, sel, p)] = v
  return out


def check_markdown(text):
  """'Its Markdown rendering keeps every binding line verbatim': every non-comment line of the text (binding
  lines and their continuation lines) is a code line (4 spaces + the line) of the rendering, in the same order."""
  md = [l for l in gin.config.markdown(text).split('\n') if l.startswith('    ') and l.strip()]
  pos = 0
  for line in text.split('\n'):
    if not line.strip() or line.startswith('#'):
      continue
    while pos < len(md) and md[pos] != '    ' + line:
      pos += 1
    if pos == len(md):
      return rt.no('markdown lost (or reordered) the line %r' % line)
    pos += 1
  return True


def check_text(text, items, omit=None, either=(), consts=(), eqonly=()):
  """Round trip, canonical order, parse-ability of one config string.

  omit: keys whose value has no literal form (must be absent after the re-parse); either: keys on which the
  statement takes no side (may be omitted; when restored the value must be equal and of the same type); eqonly:
  keys bound to an instance of a SUBCLASS of a literal type (class MyInt(int)): such a value has no literal form of
  its own, so the statement demands nothing of it beyond the text parsing - it may be omitted, or come back as an
  equal value of the literal base type (what today's code does) or of the subclass."""
  omit = UNREPRESENTABLE if omit is None else omit
  before = store()
  imports_before = set(i.module for i in gc._IMPORTS)
  # (1) parses into a cleared configuration
  world.fresh()
  gin.constant('vwc.K', 5)
  for name, value in consts:
    gin.constant(name, value)
  try:
    gin.parse_config(text)
  except Exception as e:
    return rt.no('config string does not parse: %r\n%s' % (e, text))
  after = store()
  # (2) every literally representable binding is back, same value and type; others absent
  want = {k: v for k, v in before.items() if k not in omit and (k not in either or k in after)}
  if set(after) != set(want):
    return rt.no('bindings restored %r, expected %r\n%s' % (sorted(after), sorted(want), text))
  for k in want:
    if k in eqonly:
      if not (after[k] == want[k] and isinstance(want[k], type(after[k]))):
        return rt.no('value of %r: %r is not %r as its literal base type' % (k, after[k], want[k]))
      continue
    if not literal.same_value(canon(after[k]), canon(want[k])):
      return rt.no('value of %r: %r != %r' % (k, after[k], want[k]))
  if set(i.module for i in gc._IMPORTS) != imports_before:
    return rt.no('recorded imports not restored')
  # (3) serialising again yields the identical text
  again = gin.config_str()
  if again != text:
    return rt.no('second serialisation differs:\n%s\n---\n%s' % (text, again))
  # (5) sections alphabetical (case-insensitive, innermost name first), parameters sorted
  keys = []
  params = {}
  for line in text.split('\n'):
    if line.startswith('# Parameters for '):
      keys.append(line[len('# Parameters for '):-1])
    elif line and not line.startswith(('#', ' ')) and ' = ' in line and keys:
      params.setdefault(keys[-1], []).append(line.split(' = ')[0])
  def sort_parts(k):
    scope, _, sel = k.rpartition('/')
    full = gc._REGISTRY.get_match(sel)
    parts = full.selector.lower().split('.')[::-1] + scope.lower().split('/')[::-1]
    if full.is_method:
      m = parts.pop(0)
      parts[0] += '.' + m
    return parts
  if [sort_parts(k) for k in keys] != sorted(sort_parts(k) for k in keys):
    return rt.no('sections not in alphabetical order: %r' % keys)
  for k, ps in params.items():
    if ps != sorted(ps):
      return rt.no('parameters of %s not sorted: %r' % (k, ps))
  # markdown keeps every binding line verbatim
  return check_markdown(text)


def c06_roundtrip(n: int, i0: int, i1: int, i2: int, i3: int, perm: int) -> bool:
  """
  pre: 0 <= n <= 4 and 0 <= i0 < 25 and 0 <= i1 < 25 and 0 <= i2 < 25 and 0 <= i3 < 25 and 0 <= perm < 3
  """
  # subsets, not sequences: i0 < i1 < ... ARE the catalogue indices (the match predicates of known_findings.json
  # speak about them); each one is searched above the previous one, anything else is discarded at once
  idx = []
  prev = -1
  for ik in (i0, i1, i2, i3)[:n]:
    if ik <= prev:
      rt.discard()
    prev = prev + 1 + rt.pick(ik - prev - 1, NC - prev - 1)
    idx.append(prev)
  perm = rt.pick(perm, 3)
  with rt.native():
    rt.sig(('roundtrip', tuple(idx), perm), nontrivial=len(idx) >= 2)
    order0 = list(range(len(idx)))
    orders = [order0, order0[::-1], order0[1:] + order0[:1]]
    apply(idx, orders[perm])
    text = gin.config_str()
    # (4) the text depends only on the set of bindings, not on the order they were made
    apply(idx, order0)
    if gin.config_str() != text:
      return rt.no('binding order changes the text:\n%s\n---\n%s' % (text, gin.config_str()))
    apply(idx, orders[perm])
    return check_text(text, idx)


WVALS = [
    [1, [2, {'k': (3, 4.5)}], -7, None, True],
    {'alpha': [1, 2, 3], 'beta': {'gamma': ('x' * 12, 'y' * 12)}, 3: (1,)},
    'a fairly long string with spaces in it, longer than narrow widths',
    ([1, 2], [3, [4, [5, [6, 'deep']]]]),
    [b'bytes', 1.5, -2, (), {}, []],
    [['ab', 'cd'], ['ef', 'gh'], ['ij', 'kl'], ['mn', 'op']],
    {'k%d' % i: i for i in range(7)},
]


S_MIX = 'it\'s "q" \\ back\nslash and spaces ' * 3          # pprint wraps it; every chunk picks its own quote style
WVALS += [
    S_MIX,
    [S_MIX, {'k': 'both \' and " quotes\n' * 4}, ('one tuple \' " \\\n spaced ' * 3,)],
    [' lead', 'trail ', '\n', ' ', '', '\t tab\t', ' \n both \n ', "'", '"', '\\'],
    [b'by\'tes "with" quotes\\ \n' * 3, b'', b"'", b'"', b'\\'],
    {"only ' single": 'only " double', ('t', 'u' * 30): ' ' * 10 + "'" * 3 + '"' * 3 + ' ' * 10 + '\\n'},
]
NW = len(WVALS)


def c06_pformat_width(v: int, w: int) -> bool:
  v = rt.pick(v, NW)
  with rt.native():
    rt.sig(('pformat', v), nontrivial=True)
  value = WVALS[v]
  text = pprint.pformat(value, width=w)     # the width stays an unbounded symbolic integer
  text = rt.realize(text)
  with rt.native():
    back = gin.config.parse_value(text)
    return literal.same_value(back, value) or rt.no('layout %r' % text)


c06_pformat_width.__doc__ = 'pre: 0 <= v < %d and w >= 1' % NW


def c06_width(item: int, indent: int, width: int) -> bool:
  item = rt.pick(item, NW)
  indent = [0, 1, 4, 8][rt.pick(indent, 4)]
  width = rt.pick(width, 52)
  width = indent + 1 + width if width < 49 else [80, 120, 200][width - 49]
  with rt.native():
    rt.sig(('width', item, indent, width), nontrivial=True)
    world.fresh()
    gin.bind_parameter('vw.kws.value', WVALS[item])
    gin.bind_parameter('s/vw.kws.other', WVALS[(item + 1) % NW])
    gin.bind_parameter(('wm', 'gin.macro', 'value'), WVALS[(item + 2) % NW])   # a macro in continuation form
    gin.bind_parameter('vw.kws.m', gc.ConfigurableReference('wm/gin.macro', True))
    text = gin.config_str(max_line_length=width, continuation_indent=indent)
    before = store()
    world.fresh()
    try:
      gin.parse_config(text)
    except Exception as e:
      return rt.no('does not parse at width %d indent %d: %r\n%s' % (width, indent, e, text))
    after = store()
    if set(after) != set(before) or not all(literal.same_value(canon(after[k]), canon(before[k])) for k in before):
      return rt.no('values changed at width %d indent %d' % (width, indent))
    if gin.config_str(max_line_length=width, continuation_indent=indent) != text:
      return rt.no('second serialisation differs at width %d' % width)
    # the Markdown rendering at this width (rule lines shorter than '====' below width 6, continuation lines)
    return check_markdown(text)


c06_width.__doc__ = 'pre: 0 <= item < %d and 0 <= indent < 4 and 0 <= width < 52' % NW


# ---- further input kinds, alone and paired with one other item -------------------------------------------------
class MyInt(int):
  pass


class EqRaises:
  """repr parses as a list, comparing raises (as an array-valued __eq__ does inside bool())"""
  __hash__ = None

  def __repr__(self):
    return '[1, 2]'

  def __eq__(self, other):
    raise ValueError('the truth value of this comparison is ambiguous')


def _same_named_workers():
  # two registered classes that share their class name AND the name of a registered method, in two modules:
  # the printed selector of each method has to be widened until it is unique (seeded change C06-c printed
  # `Worker.run` for both)
  def make():
    class Worker:
      def __init__(self, w=0):
        self.w = w

      @gin.register
      def run(self, steps=0):
        return steps
    return Worker
  for mod in ('vw06.alpha', 'vw06.beta'):
    if mod + '.Worker' not in gc._REGISTRY:
      gin.register('Worker', module=mod)(make())


_same_named_workers()


def K(name, acts, omit=(), either=(), consts=(), eqonly=()):
  return dict(name=name, acts=acts, omit=set(omit), either=set(either), consts=list(consts), eqonly=set(eqonly))


KW = lambda p: ('', 'vw.kws', p)
LONGLIST = [['word %d' % i, i] for i in range(12)]
SKIP_TEXT = ("vw.kws.u1 = @nosuch()\nvw.kws.u2 = [1, @nosuch]\nvw.kws.u3 = {'k': (@nosuch.thing(),)}\n"
             "vw.kws.ukeep = [1]\n")
# Kinds 0-5 are reported individually (each is ONE pick value of k and is never a partner); 6.. are also partners.
KCAT = [
    K('scope name with a period (config_scope accepts it)', [('bind', 'a.b/vw.dflt.a', 1)]),
    K('**kwargs name only a tuple key can carry', [('bind', ('', 'vw.kws', 'a-b'), 1)]),
    K('scope only a tuple key can carry', [('bind', ('a b', 'vw.dflt', 'b'), 1)]),
    K('int subclass', [('bind', 'vw.kws.mi', MyInt(5)), ('bind', 'vw.kws.mk', 5)], either=[KW('mi')], eqonly=[KW('mi')]),
    K('repr parses, == raises', [('bind', 'vw.kws.eqr', EqRaises()), ('bind', 'vw.kws.eqk', 1)], omit=[KW('eqr')]),
    K('macro shadowed by a constant the program defines later',
      [('text', 'SK = 1'), ('text', 'vw.kws.sh = %SK'), ('text', 'vw.kws.sh2 = 2'), ('const', 'zz.SK', 7)],
      consts=[('zz.SK', 7)]),
    # ---- 6
    K('reference scope with a period', [('text', 'vw.kws.dr = @a.b/vw.src()')]),
    K('**kwargs names import / include', [('text', 'vw.kws.import = 1'), ('text', 'vw.kws.include = 2')]),
    K('configurable named include', [('text', 'vw.kw.include.x = 1')]),
    K('configurable named import', [('text', 'vw.kw.import.x = 2')]),
    K('skip_unknown placeholders alone and nested', [('skip', SKIP_TEXT)], omit=[KW('u1'), KW('u2'), KW('u3')]),
    K('macro bound to a skip_unknown placeholder, and its use',
      [('skip', 'nm2 = @nosuch()\nvw.kws.u4 = %nm2\n')], omit=[('nm2', 'gin.macro', 'value')]),
    K('scoped macro', [('text', 's/mac2 = 3'), ('text', 'vw.kws.sm = %s/mac2')]),
    K('macro holding an evaluated scoped reference', [('text', 'mref = @s/vw.src()'), ('text', 'vw.kws.mr = [%mref]')]),
    K('macro chain', [('text', 'mc2 = %mc1'), ('text', 'mc1 = 3'), ('text', 'vw.kws.ch = %mc2')]),
    K('macro longer than the line', [('text', 'longmac = %r' % (LONGLIST,))]),
    K('wrapped string macro with both quotes', [('bind', ('strmac', 'gin.macro', 'value'), S_MIX * 2)]),
    K('partial reference', [('text', 'vw.kws.r1 = @src()')]),
    K('family members needing two components', [('text', 'vw.kws.r2 = [@x.m.fam, @y.m.fam()]')]),
    K('method references', [('text', 'vw.kws.r3 = [@vw.Kmeth.meth, @Kmeth.meth]')]),
    K('two-scope evaluated reference', [('text', 'vw.kws.r4 = @s1/s2/vw.src()')]),
    K('two imports bound to one alias', [('text', 'import string as x'), ('text', 'import textwrap as x')]),
    K('one module in plain and from form', [('text', 'import xml.dom'), ('text', 'from xml import dom')]),
    K('two plain imports binding one package name', [('text', 'import xml.sax'), ('text', 'import xml.parsers')]),
    K('float / complex / int specials',
      [('bind', 'vw.kws.nz', -0.0), ('bind', 'vw.kws.j', 1j), ('bind', 'vw.kws.inf', float('inf')),
       ('bind', 'vw.kws.ninf', [float('-inf')]), ('bind', 'vw.kws.cj', 1 + 2j), ('bind', 'vw.kws.big', -10 ** 30),
       ('bind', 'vw.kws.e', 1e300)],
      either=[KW('inf'), KW('ninf'), KW('cj')]),   # no literal form in today's syntax: omitted, or restored equal
    K('singleton', [('text', 'k/gin.singleton.constructor = @vw.src'), ('text', 'vw.kws.sg = @k/gin.singleton()')]),
    K('wrapped strings nested in list / dict / 1-tuple, edge whitespace, bytes', [('bind', 'vw.kws.strs', WVALS[8:11])]),
    K('partial constant name', [('text', 'vw.kws.pc = %K')]),
    K('methods of two same-named classes in different modules',
      [('text', 'vw06.alpha.Worker.run.steps = 1'), ('text', 'vw06.beta.Worker.run.steps = 2'),
       ('text', 's/vw06.beta.Worker.run.steps = 3')]),
    K('one of two same-named classes, and one of their methods',
      [('text', 'vw06.beta.Worker.w = 4'), ('text', 't/vw06.alpha.Worker.run.steps = 5')]),
]
NK = len(KCAT)
NREPORT = 6
PARTNERS = [None] + [K('CAT %d' % i, CAT[i], omit=UNREPRESENTABLE) for i in range(NC) if i not in (15, 16, 17, 20)] \
    + KCAT[NREPORT:]
NP = len(PARTNERS)


def c06_kinds(k: int, j: int, perm: int) -> bool:
  k = rt.pick(k, NK)
  j = rt.pick(j, NP)
  perm = rt.pick(perm, 2)
  with rt.native():
    first = KCAT[k]
    second = PARTNERS[j]
    if second is first:
      rt.discard()
    both = [first] + ([second] if second is not None else [])
    if perm == 1:
      if second is None:
        rt.discard()
      both = both[::-1]
    rt.sig(('kinds', k, j, perm), nontrivial=True)
    omit = set().union(*[b['omit'] for b in both])
    either = set().union(*[b['either'] for b in both])
    consts = [c for b in both for c in b['consts']]
    eqonly = set().union(*[b.get('eqonly', set()) for b in both])
    try:
      run_actions([b['acts'] for b in both])
      text = gin.config_str()
      # (4) the text depends only on the set of bindings, not on the order they were made
      run_actions([b['acts'] for b in both[::-1]])
      other = gin.config_str()
    except Exception as e:
      return rt.no('config_str() raised %r' % (e,))
    if other != text:
      return rt.no('binding order changes the text:\n%s\n---\n%s' % (text, other))
    return check_text(text, None, omit=omit, either=either, consts=consts, eqonly=eqonly)


c06_kinds.__doc__ = 'pre: 0 <= k < %d and 0 <= j < %d and 0 <= perm < 2' % (NK, NP)


HARNESSES = {
    'c06_roundtrip': dict(
        fn='c06_roundtrip',
        anchors=['gin.config:_config_str', 'gin.config:_format_value', 'gin.config:markdown',
                 'gin.config:minimal_selector', 'gin.config:__repr__'],
        smoke=[dict(n=4, i0=0, i1=3, i2=4, i3=13, perm=1), dict(n=3, i0=5, i1=6, i2=18, i3=0, perm=2)],
        tiers={'quick': dict(split=dict(i0=list(range(NC)), perm=[0, 1, 2]), fixed=dict(n=3, i3=0), budget_s=100),
               # i1 <= i0 partitions are discarded at once; i1 starts at 1 so that the first partition (twin) is not
               'thorough': dict(split=dict(i0=list(range(NC)), i1=list(range(1, NC)), perm=[0, 1, 2]),
                                fixed=dict(n=4), budget_s=600)},
        bounds='every subset of 3 (quick) / 4 (thorough) items of a 25-item catalogue (nested containers, a 70-char '
               'string, @ref, scoped and evaluated refs, macro + use, module-qualified sibling names, configurable names / '
               'scopes / macro names that differ only in case, a registered method, a macro bound to a non-literal, '
               'object(), nan, a set, a list holding an object, exotic literals, a constant reference, three import forms) bound in 3 orders'),
    'c06_kinds': dict(
        fn='c06_kinds',
        anchors=['gin.config:_config_str', 'gin.config:_format_value', 'gin.config:markdown', 'gin.config:add_import',
                 'gin.config:__repr__', 'gin.config:macro'],
        smoke=[dict(k=i, j=0, perm=0) for i in range(NREPORT, NK)] + [dict(k=12, j=NP - 1, perm=1)],
        tiers={'quick': dict(split=dict(k=list(range(NK))), budget_s=100),
               'thorough': dict(split=dict(k=list(range(NK)), perm=[0, 1]), budget_s=300)},
        bounds='%d further kinds, each alone and paired in both binding orders with every one of %d partners (21 items of '
               'the c06_roundtrip catalogue + the kinds 6..): scope / **kwargs names that only config_scope or a tuple '
               'key can carry, an int subclass, a value whose == raises, a macro shadowed by a later constant '
               '(kinds 0-5, one pick value each); dotted reference scope, names import/include, skip_unknown '
               'placeholders (alone, nested, as macro), scoped / reference-holding / chained / long / wrapped-string '
               'macros, partial / two-component / method / two-scope reference spellings, colliding and duplicate '
               'imports without dynamic registration, -0.0 1j inf -inf 1+2j big ints, gin.singleton, nested wrapped '
               'strings, a partial constant name' % (NK, NP - 1)),
    'c06_pformat_width': dict(
        fn='c06_pformat_width',
        anchors=[],
        smoke=[dict(v=1, w=7)],
        tiers={'quick': dict(split=dict(v=list(range(NW))), budget_s=100),
               'thorough': dict(split=dict(v=list(range(NW))), budget_s=600)},
        bounds='12 catalogue values (5 of them strings that pprint wraps: both quote kinds, backslashes, newlines, edge '
               'whitespace, nested in list / dict value / 1-tuple / dict key, bytes with quotes); the pprint width is an '
               'UNBOUNDED symbolic integer >= 1 (every layout pprint can produce for the value is a path)'),
    'c06_width': dict(
        fn='c06_width',
        anchors=['gin.config:_config_str', 'gin.config:format_binding'],
        smoke=[dict(item=1, indent=2, width=3), dict(item=3, indent=0, width=50)],
        tiers={'quick': dict(split=dict(item=list(range(NW)), indent=[0, 1, 2, 3]), budget_s=100),
               'thorough': dict(split=dict(item=list(range(NW)), indent=[0, 1, 2, 3]), budget_s=300)},
        bounds='continuation_indent in {0,1,4,8} x max_line_length in [indent+1, indent+49] + {80,120,200} through the '
               'real config_str for 12 value triples (a parameter, a scoped parameter, a macro and its use); re-parse, '
               'stability and the Markdown rendering (ordered, incl. continuation lines and rule lines shorter than 4) '
               'at every one of these widths'),
}
RULE = ('one case per distinct catalogue subset x order / (kind, partner, order) / (value, layout) / (value, indent, width); '
        'non-trivial: at least two items (c06_kinds: every case)')
SOLVER_ROLE = ('c06_pformat_width decides data (the width is an unbounded solver variable through the real pprint code); the '
               'other two certify coverage (config_str stringifies everything, so leaves are concrete)')
OUTSIDE = ('catalogue values only; show_provenance=True (the statement does not speak about it); operative_config_str (C07); '
           'configurables whose __qualname__ is not an attribute path of their module under dynamic registration; '
           'c06_kinds pairs, not triples; aliases of imports are compared by module only (without dynamic registration '
           'an alias has no observable effect); the combination "any width = a pprint layout covered by '
           'the lemma inside one of the two wrappers covered by c06_width" is an argument, not a single solver verdict')


# ---- dynamic registration ------------------------------------------------------------------------
import os as _os
import sys as _sys
_sys.path.insert(0, _os.path.join(_os.path.dirname(_os.path.dirname(_os.path.dirname(
    _os.path.abspath(__file__)))), 'fixtures'))

DCAT = [
    [('text', 'from __gin__ import dynamic_registration\nimport vfx.alpha.mod as am\nam.fn.x = 1\n')],
    [('text', 'from __gin__ import dynamic_registration\nfrom vfx.beta import mod as bm\nbm.fn.x = [2, @bm.Cls()]\n')],
    [('bind', 'vfx.zeta.zfn.x', 3)],                      # statically registered, module not imported by any file
    [('bind', 'vfx.gamma.gfn.x', 4)],
    [('bind', 's/vfx.zeta.ZCls.x', 5)],
    [('text', 'from __gin__ import dynamic_registration\nimport vfx.alpha.mod\nvfx.alpha.mod.Cls.meth.m = 6\n')],
    [('text', 'from __gin__ import dynamic_registration\nfrom vfx.alpha import mod\nmod.Outer.Inner.y = @mod.fn\n')],
    # values that are not plain configurable references (the import of item 1, so that no further alias of a module appears)
    [('text', 'from __gin__ import dynamic_registration\nfrom vfx.beta import mod as bm\nbm.fn.y = [%vwc.K]\n')],
    [('text', 'from __gin__ import dynamic_registration\nfrom vfx.beta import mod as bm\ndm = 3\nbm.Cls.x = %dm\n')],
    [('text', 'from __gin__ import dynamic_registration\nfrom vfx.beta import mod as bm\n'
              'k/gin.singleton.constructor = @bm.Cls\ns9/bm.fn.y = @k/gin.singleton()\n')],
]
ND = len(DCAT)


def _dapply(items, order):
  from vf.harness import c19
  import vfx.gamma, vfx.zeta   # registers the decorated configurables
  world.fresh()
  c19.cleanup_vfx()
  gin.constant('vwc.K', 5)
  gin.parse_config('from __gin__ import dynamic_registration\n')
  for i in order:
    for act in DCAT[items[i]]:
      if act[0] == 'text':
        gin.parse_config(act[1])
      else:
        gin.bind_parameter(act[1], act[2])


def canon_dyn(v):
  """as canon(), but a reference is its scopes + the object it names + evaluate (its spelling depends on the imports)"""
  if isinstance(v, gc.ConfigurableReference):
    return ('REF', tuple(v.scopes), repr(v.configurable.wrapped), v.evaluate)
  if isinstance(v, list):
    return [canon_dyn(x) for x in v]
  if isinstance(v, tuple):
    return ('TUPLE',) + tuple(canon_dyn(x) for x in v)
  if isinstance(v, dict):
    return {('KEY', k): canon_dyn(x) for k, x in v.items()}
  return v


def c06_dynamic(d0: bool, d1: bool, d2: bool, d3: bool, d4: bool, d5: bool, d6: bool, perm: int,
                d7: bool = False, d8: bool = False, d9: bool = False) -> bool:
  """
  pre: 0 <= perm < 3
  """
  from vf.harness import c19
  bits = [rt.flag(b) for b in (d0, d1, d2, d3, d4, d5, d6, d7, d8, d9)]
  perm = rt.pick(perm, 3)
  items = [i for i in range(ND) if bits[i]]
  with rt.native():
    rt.sig(('dynamic', tuple(items), perm), nontrivial=len(items) >= 2)
    if not items:
      return True
    order0 = list(range(len(items)))
    orders = [order0, order0[::-1], order0[1:] + order0[:1]]
    try:
      _dapply(items, orders[perm])
      text = gin.config_str()
      _dapply(items, order0)
      if gin.config_str() != text:
        return rt.no('binding order changes the text:\n%s\n---\n%s' % (text, gin.config_str()))
      before = {k: dict(d) for k, d in gc._CONFIG.items()}
      targets = {k: gc._REGISTRY[k[1]].wrapped for k in before}
      imports_before = set(i.module for i in gc._IMPORTS)
      # parse into a cleared configuration
      gc._CONFIG.clear(); gc._CONFIG_PROVENANCE.clear(); gc._IMPORTS.clear()
      try:
        gin.parse_config(text)
      except Exception as e:
        return rt.no('config string does not parse: %r\n%s' % (e, text))
      after = {k: dict(d) for k, d in gc._CONFIG.items()}
      # every emitted selector resolves to the same Python object
      got_targets = sorted((k[0], repr(gc._REGISTRY[k[1]].wrapped), tuple(sorted(d))) for k, d in after.items())
      want_targets = sorted((k[0], repr(targets[k]), tuple(sorted(d))) for k, d in before.items())
      if got_targets != want_targets:
        return rt.no('objects configured after re-parse %r, before %r\n%s' % (got_targets, want_targets, text))
      for k, d in before.items():
        for prm, v in d.items():
          if not literal.same_value(canon_dyn(after[k][prm]), canon_dyn(v)):
            return rt.no('value of %r.%s: %r != %r' % (k, prm, after[k][prm], v))
      # the recorded imports are restored (imports the text had to add for configurables no file imported are fine)
      if not imports_before <= set(i.module for i in gc._IMPORTS):
        return rt.no('recorded imports not restored: %r' % sorted(imports_before - set(i.module for i in gc._IMPORTS)))
      again = gin.config_str()
      if again != text:
        return rt.no('second serialisation differs:\n%s\n---\n%s' % (text, again))
      return True
    finally:
      c19.cleanup_vfx()


from vf.harness.c19 import c19_collide as c06_collide  # noqa: E402  (import re-aliasing: also a C06 matter)

HARNESSES['c06_collide'] = dict(
    fn='c06_collide',
    anchors=['gin.config:add_import', 'gin.config:_config_str'],
    smoke=[dict(f1=3, f2=7, f3=8, n=3)],
    tiers={'quick': dict(split=dict(f1=list(range(10))), fixed=dict(n=3), budget_s=100),
           'thorough': dict(split=dict(f1=list(range(10)), f2=list(range(10))), fixed=dict(n=3), budget_s=300)},
    bounds='dynamic registration: 3 files in every order from 10 whose imports bind colliding names; the config '
           'string must re-parse, restore the bindings on the same objects and be stable')
HARNESSES['c06_dynamic'] = dict(
    fn='c06_dynamic',
    anchors=['gin.config:_config_str', 'gin.config:require_configurable', 'gin.config:add_import'],
    smoke=[dict(d0=True, d1=True, d2=True, d3=True, d4=False, d5=True, d6=False, perm=1),
           dict(d0=False, d1=True, d2=False, d3=True, d4=False, d5=False, d6=False, perm=2, d7=True, d8=True, d9=True)],
    tiers={'quick': dict(split=dict(d0=[False, True], d1=[False, True], d7=[False, True], perm=[0, 1, 2]), budget_s=100),
           'thorough': dict(split=dict(d0=[False, True], d1=[False, True], d7=[False, True], perm=[0, 1, 2]),
                            budget_s=300)},
    bounds='dynamic registration: every subset of a 10-item catalogue (text bindings through 4 import forms of two '
           'fixture modules incl. a method and a nested class, references, programmatic bindings of statically '
           'registered configurables from two further modules that no file imports, and values that are a nested '
           '%constant, a %macro, a @k/gin.singleton()) in 3 binding orders; values compared after the re-parse, '
           'recorded imports must all be restored (imports the text adds are accepted)')
