"""C04 - references deliver the configurable or a fresh result, in the right scope."""
import gin
from vf import rt
from vf import world

PLACE = ['{R}', '[{R}, 1]', "{{'k': ({R},)}}", '[{R}, [{R}]]', "({R}, {{'a': [{R}]}})",
         # no reference at all: mutable containers inside a top-level tuple / dict / list
         "('adam', [1, 2, 3], {{'k': [4]}})", "{{'t': ([5], 6)}}", '[[7, [8]], (9,)]']
NREF = [1, 1, 1, 2, 2, 0, 0, 0]
PLAIN = {5: ('adam', [1, 2, 3], {'k': [4]}), 6: {'t': ([5], 6)}, 7: [[7, [8]], (9,)]}
RSCOPE = ['', 'r1', 'r1/r2']


def delivered(place, p):
  if place >= 5:
    return []
  if place == 0:
    return [p]
  if place == 1:
    return [p[0]]
  if place == 2:
    return [p['k'][0]]
  if place == 3:
    return [p[0], p[1][0]]
  return [p[0], p[1]['a'][0]]


def shape_ok(place, p):
  with rt.native():
    if place >= 5:
      from vf.spec import literal
      return literal.same_value(p, PLAIN[place])
    if place == 1:
      return isinstance(p, list) and len(p) == 2 and p[1] == 1
    if place == 2:
      return isinstance(p, dict) and list(p) == ['k'] and isinstance(p['k'], tuple) and len(p['k']) == 1
    if place == 3:
      return isinstance(p, list) and len(p) == 2 and isinstance(p[1], list) and len(p[1]) == 1
    if place == 4:
      return (isinstance(p, tuple) and len(p) == 2 and isinstance(p[1], dict) and
              list(p[1]) == ['a'] and isinstance(p[1]['a'], list) and len(p[1]['a']) == 1)
    return True


def mutate(place, p):
  """What a careless consumer does to the value it received."""
  with rt.native():
    for d in delivered(place, p):
      if isinstance(d, list):
        d.append('junk')
    if place in (1, 3):
      p.append('junk')
      p[0] = 'junk'
    elif place == 2:
      p['new'] = 'junk'
    elif place == 4:
      p[1]['a'].append('junk')
      p[1]['z'] = 'junk'
    elif place == 5:
      p[1].append('junk')
      p[2]['k'].append('junk')
      p[2]['new'] = 'junk'
    elif place == 6:
      p['t'][0].append('junk')
      p['zz'] = 'junk'
    elif place == 7:
      p[0][1].append('junk')
      p[0].append('junk')
      p.append('junk')


AMBIENT = ['', 'amb', 'x/r1', 'xr1', 'r1', 'q/r1/r2']


def c04_refs(place: int, evaluate: bool, rscope: int, amb: int, mp: int, mq: int,
             ncalls: int, mut: bool, v0: int, v1: int, v2: int, va: int, w0: int,
             cp: int, cq: int) -> bool:
  """
  pre: 0 <= place < 8 and 0 <= rscope < 3 and 0 <= amb < 6 and 0 <= mp < 3 and 0 <= mq < 2 and 1 <= ncalls <= 3
  """
  world.fresh()
  place = rt.pick(place, 8)
  evaluate = rt.flag(evaluate)
  rscope = rt.pick(rscope, 3)
  amb = rt.pick(amb, 6)
  mp = rt.pick(mp, 3)
  mq = rt.pick(mq, 2)
  ncalls = rt.pick(ncalls, 4)
  mut = rt.flag(mut)
  rt.sig(('refs', place, evaluate, rscope, amb, mp, mq, ncalls, mut), nontrivial=mp == 0 or mq == 0)
  for name, v in (('V0', v0), ('V1', v1), ('V2', v2), ('VA', va), ('W0', w0)):
    gin.constant('vwc.' + name, v)
  with rt.native():
    ref = '@' + (RSCOPE[rscope] + '/' if RSCOPE[rscope] else '') + 'vw.src' + ('()' if evaluate else '')
    text = '\n'.join([
        'vw.src.v = %vwc.V0', 'r1/vw.src.v = %vwc.V1', 'r1/r2/vw.src.v = %vwc.V2',
        'amb/vw.src.v = %vwc.VA', 'vw.src2.v = %vwc.W0',
        'vw.cons.p = ' + PLACE[place].format(R=ref),
        'vw.cons.q = @vw.src2()', ''])
    gin.parse_config(text)
    cfg_before = gin.config_str()
  ambient = AMBIENT[amb].split('/') if amb else []
  if rscope:
    src_scope = RSCOPE[rscope].split('/')
    src_val = [v1, v2][rscope - 1]
  else:
    src_scope = ambient
    # value bound at the longest applicable prefix of the ambient scope
    src_val = {0: v0, 1: va, 2: v0, 3: v0, 4: v1, 5: v0}[amb]
  firsts = []
  for c in range(ncalls):
    del world.LOG[:]
    del world.SRC_CALLS[:]
    pos, kw = [], {}
    if mp == 1:
      pos.append(cp)
    elif mp == 2:
      kw['p'] = cp
    if mq == 1:
      kw['q'] = cq
    if amb:
      with gin.config_scope(AMBIENT[amb]):
        world.cons(*pos, **kw)
    else:
      world.cons(*pos, **kw)
    if len(world.LOG) != 1:
      return False
    _, args, _, seen = world.LOG[0]
    p, q = args
    if seen != ambient:
      return False
    calls_src = [r for r in world.SRC_CALLS if r[0] != 'src2']
    calls_src2 = [r for r in world.SRC_CALLS if r[0] == 'src2']
    # --- q: evaluated only when Gin supplies it --------------------------------
    if mq == 1:
      if calls_src2 or not rt.same('q', q, cq):
        return False
    else:
      if len(calls_src2) != 1 or calls_src2[0][2] != ambient:
        return False
      if not (isinstance(q, dict) and rt.same('q', q['v'], w0)):
        return False
    # --- p ------------------------------------------------------------------------
    if mp:
      if calls_src or not rt.same('p', p, cp):
        return False
      continue
    if not shape_ok(place, p):
      return False
    got = delivered(place, p)
    if evaluate:
      if len(calls_src) != NREF[place]:
        return False
      for r in calls_src:
        if r[1] != src_scope or not rt.same('srcv', r[0], src_val):
          return False
      for g in got:
        if not (isinstance(g, list) and len(g) == 1 and rt.same('res', g[0], src_val)):
          return False
      if len(got) == 2 and got[0] is got[1]:
        return False
      for f in firsts:                       # results of different calls are distinct objects
        for g in got:
          if f is g:
            return False
      firsts.extend(got)
    else:
      if calls_src:
        return False
      # '@name' delivers the configurable; calling it injects under the same rule
      for g in got:
        if not callable(g):
          return False
        del world.SRC_CALLS[:]
        if amb:
          with gin.config_scope(AMBIENT[amb]):
            res = g()
        else:
          res = g()
        if len(world.SRC_CALLS) != 1 or world.SRC_CALLS[0][1] != src_scope:
          return False
        if not rt.same('res', res[0], src_val):
          return False
    if mut:
      mutate(place, p)
      with rt.native():
        if isinstance(q, dict):
          q['junk'] = 1
  with rt.native():
    if gin.config_str() != cfg_before:
      return False
    stored = gin.query_parameter('vw.cons.p')
    if place >= 5:
      gb = gin.get_bindings('vw.cons')['p']
      return (shape_ok(place, stored) and shape_ok(place, gb)) or rt.no('stored value changed by the consumer')
    if place == 0:
      return isinstance(stored, gin.config.ConfigurableReference)
    return shape_ok(place, stored)


HARNESSES = {
    'c04_refs': dict(
        fn='c04_refs',
        anchors=['gin.config:__deepcopy__', 'gin.config:_decorate_with_scope', 'gin.config:gin_wrapper',
                 'gin.config:scoping_wrapper'],
        smoke=[dict(place=3, evaluate=True, rscope=1, amb=2, mp=0, mq=0, ncalls=2, mut=True,
                    v0=1, v1=2, v2=3, va=4, w0=5, cp=6, cq=7),
               dict(place=2, evaluate=False, rscope=0, amb=1, mp=0, mq=1, ncalls=1, mut=False,
                    v0=1, v1=2, v2=3, va=4, w0=5, cp=6, cq=7)],
        tiers={'quick': dict(split=dict(place=list(range(8)), rscope=[0, 1, 2], mp=[0, 1, 2]),
                             fixed=dict(ncalls=2), budget_s=100),
               'thorough': dict(split=dict(place=list(range(8)), rscope=[0, 1, 2], mp=[0, 1, 2],
                                           ncalls=[1, 2, 3]), budget_s=300)},
        bounds='5 placements of one or two references (top level, list, tuple in dict, nested list, dict in '
               'tuple) + 3 reference-free values with mutable containers inside a tuple / dict / list, evaluated or not, reference scope none/r1/r1/r2, ambient scope none / amb / x/r1 / xr1 / r1 / q/r1/r2 (the last four END with a reference scope), parameter p '
               'omitted/positional/keyword, parameter q omitted/keyword, 1-3 calls with or without the '
               'consumer mutating what it got; source values: all ints (through constants)'),
}
