"""C04 - references deliver the configurable or a fresh result, in the right scope."""
import gin
from vf import rt
from vf import world

PLACE = ['{R}', '[{R}, 1]', "{{'k': ({R},)}}", '[{R}, [{R}]]', "({R}, {{'a': [{R}]}})",
         # no reference at all: mutable containers inside a top-level tuple / dict / list
         "('adam', [1, 2, 3], {{'k': [4]}})", "{{'t': ([5], 6)}}", '[[7, [8]], (9,)]']
NREF = [1, 1, 1, 2, 2, 0, 0, 0]
PLAIN = {5: ('adam', [1, 2, 3], {'k': [4]}), 6: {'t': ([5], 6)}, 7: [[7, [8]], (9,)]}
RSCOPE = ['', 'r1', 'r1/r2']


def delivered(place, p):
  if place >= 5:
    return []
  if place == 0:
    return [p]
  if place == 1:
    return [p[0]]
  if place == 2:
    return [p['k'][0]]
  if place == 3:
    return [p[0], p[1][0]]
  return [p[0], p[1]['a'][0]]


def shape_ok(place, p):
  with rt.native():
    if place >= 5:
      from vf.spec import literal
      return literal.same_value(p, PLAIN[place])
    if place == 1:
      return isinstance(p, list) and len(p) == 2 and p[1] == 1
    if place == 2:
      return isinstance(p, dict) and list(p) == ['k'] and isinstance(p['k'], tuple) and len(p['k']) == 1
    if place == 3:
      return isinstance(p, list) and len(p) == 2 and isinstance(p[1], list) and len(p[1]) == 1
    if place == 4:
      return (isinstance(p, tuple) and len(p) == 2 and isinstance(p[1], dict) and
              list(p[1]) == ['a'] and isinstance(p[1]['a'], list) and len(p[1]['a']) == 1)
    return True


def mutate(place, p):
  """What a careless consumer does to the value it received."""
  with rt.native():
    for d in delivered(place, p):
      if isinstance(d, list):
        d.append('junk')
    if place in (1, 3):
      p.append('junk')
      p[0] = 'junk'
    elif place == 2:
      p['new'] = 'junk'
    elif place == 4:
      p[1]['a'].append('junk')
      p[1]['z'] = 'junk'
    elif place == 5:
      p[1].append('junk')
      p[2]['k'].append('junk')
      p[2]['new'] = 'junk'
    elif place == 6:
      p['t'][0].append('junk')
      p['zz'] = 'junk'
    elif place == 7:
      p[0][1].append('junk')
      p[0].append('junk')
      p.append('junk')


AMBIENT = ['', 'amb', 'x/r1', 'xr1', 'r1', 'q/r1/r2']


def c04_refs(place: int, evaluate: bool, rscope: int, amb: int, mp: int, mq: int,
             ncalls: int, mut: bool, v0: int, v1: int, v2: int, va: int, w0: int,
             cp: int, cq: int) -> bool:
  """
  pre: 0 <= place < 8 and 0 <= rscope < 3 and 0 <= amb < 6 and 0 <= mp < 3 and 0 <= mq < 2 and 1 <= ncalls <= 3
  """
  world.fresh()
  place = rt.pick(place, 8)
  evaluate = rt.flag(evaluate)
  rscope = rt.pick(rscope, 3)
  amb = rt.pick(amb, 6)
  mp = rt.pick(mp, 3)
  mq = rt.pick(mq, 2)
  ncalls = rt.pick(ncalls, 4)
  mut = rt.flag(mut)
  rt.sig(('refs', place, evaluate, rscope, amb, mp, mq, ncalls, mut), nontrivial=mp == 0 or mq == 0)
  for name, v in (('V0', v0), ('V1', v1), ('V2', v2), ('VA', va), ('W0', w0)):
    gin.constant('vwc.' + name, v)
  with rt.native():
    ref = '@' + (RSCOPE[rscope] + '/' if RSCOPE[rscope] else '') + 'vw.src' + ('()' if evaluate else '')
    text = '\n'.join([
        'vw.src.v = %vwc.V0', 'r1/vw.src.v = %vwc.V1', 'r1/r2/vw.src.v = %vwc.V2',
        'amb/vw.src.v = %vwc.VA', 'vw.src2.v = %vwc.W0',
        'vw.cons.p = ' + PLACE[place].format(R=ref),
        'vw.cons.q = @vw.src2()', ''])
    gin.parse_config(text)
    cfg_before = gin.config_str()
  ambient = AMBIENT[amb].split('/') if amb else []
  if rscope:
    src_scope = RSCOPE[rscope].split('/')
    src_val = [v1, v2][rscope - 1]
  else:
    src_scope = ambient
    # value bound at the longest applicable prefix of the ambient scope
    src_val = {0: v0, 1: va, 2: v0, 3: v0, 4: v1, 5: v0}[amb]
  firsts = []
  for c in range(ncalls):
    del world.LOG[:]
    del world.SRC_CALLS[:]
    pos, kw = [], {}
    if mp == 1:
      pos.append(cp)
    elif mp == 2:
      kw['p'] = cp
    if mq == 1:
      kw['q'] = cq
    if amb:
      with gin.config_scope(AMBIENT[amb]):
        world.cons(*pos, **kw)
    else:
      world.cons(*pos, **kw)
    if len(world.LOG) != 1:
      return False
    _, args, _, seen = world.LOG[0]
    p, q = args
    if seen != ambient:
      return False
    calls_src = [r for r in world.SRC_CALLS if r[0] != 'src2']
    calls_src2 = [r for r in world.SRC_CALLS if r[0] == 'src2']
    # --- q: evaluated only when Gin supplies it --------------------------------
    if mq == 1:
      if calls_src2 or not rt.same('q', q, cq):
        return False
    else:
      if len(calls_src2) != 1 or calls_src2[0][2] != ambient:
        return False
      if not (isinstance(q, dict) and rt.same('q', q['v'], w0)):
        return False
    # --- p ------------------------------------------------------------------------
    if mp:
      if calls_src or not rt.same('p', p, cp):
        return False
      continue
    if not shape_ok(place, p):
      return False
    got = delivered(place, p)
    if evaluate:
      if len(calls_src) != NREF[place]:
        return False
      for r in calls_src:
        if r[1] != src_scope or not rt.same('srcv', r[0], src_val):
          return False
      for g in got:
        if not (isinstance(g, list) and len(g) == 1 and rt.same('res', g[0], src_val)):
          return False
      if len(got) == 2 and got[0] is got[1]:
        return False
      for f in firsts:                       # results of different calls are distinct objects
        for g in got:
          if f is g:
            return False
      firsts.extend(got)
    else:
      if calls_src:
        return False
      # '@name' delivers the configurable; calling it injects under the same rule
      for g in got:
        if not callable(g):
          return False
        del world.SRC_CALLS[:]
        if amb:
          with gin.config_scope(AMBIENT[amb]):
            res = g()
        else:
          res = g()
        if len(world.SRC_CALLS) != 1 or world.SRC_CALLS[0][1] != src_scope:
          return False
        if not rt.same('res', res[0], src_val):
          return False
    if mut:
      mutate(place, p)
      with rt.native():
        if isinstance(q, dict):
          q['junk'] = 1
  with rt.native():
    if gin.config_str() != cfg_before:
      return False
    stored = gin.query_parameter('vw.cons.p')
    if place >= 5:
      gb = gin.get_bindings('vw.cons')['p']
      return (shape_ok(place, stored) and shape_ok(place, gb)) or rt.no('stored value changed by the consumer')
    if place == 0:
      return isinstance(stored, gin.config.ConfigurableReference)
    return shape_ok(place, stored)



# ===================================================================================================
# Widened vocabulary (review_C04): dict keys, class targets, chains, REQUIRED, shadowing, other
# consumer signatures, programmatic containers, failing evaluations, other ways to build the ambient
# scope, repeated / dotted reference scopes, evaluating queries.
# ===================================================================================================
import collections as _collections


class Tok:
  """hashable result of the probe source `vw04.hsrc` (usable as a dict key)"""

  def __init__(self, v, sc):
    self.v = v
    self.sc = sc


if not hasattr(world, '_vw04'):      # registered once per process, whatever name this module is imported under
  _HC = []

  @gin.configurable(module='vw04')
  def hsrc(v=0):
    t = Tok(v, gin.current_scope())
    _HC.append(t)
    return t

  world._vw04 = dict(hsrc=hsrc, HC=_HC, Tok=Tok, NT=_collections.namedtuple('NT', 'a b'))
HC = world._vw04['HC']
Tok = world._vw04['Tok']
NT = world._vw04['NT']


def bound_val(scope, v0, v1, v2, va, vb=None):
  """value bound at the longest applicable prefix of `scope` (bindings at '', r1, r1/r2, amb, a.b)"""
  if scope[:2] == ['r1', 'r2']:
    return v2
  if scope[:1] == ['r1']:
    return v1
  if scope[:1] == ['amb']:
    return va
  if scope[:1] == ['a.b']:
    return vb
  return v0


def _consts(**kw):
  for name, v in kw.items():
    gin.constant('vwc.' + name, v)


def _bind4(sel):
  return ['%s = %%vwc.V0' % sel, 'r1/%s = %%vwc.V1' % sel, 'r1/r2/%s = %%vwc.V2' % sel,
          'amb/%s = %%vwc.VA' % sel]


def _in_scope(scope_str, fn):
  if scope_str:
    with gin.config_scope(scope_str):
      return fn()
  return fn()


# ---------------------------------------------------------------------------------------------------
# item 2 (+5): references in dict KEY position
# ---------------------------------------------------------------------------------------------------
KPLACE = ['{{{R}: 1}}', "[{{'k': ({{{R}: [1]}},)}}]", '{{({R}, 1): 5}}', '{{{R}: 1, @z/vw04.hsrc{E}: 2}}',
          '{{%m: 1}}']
KAMB = ['', 'amb', 'x/r1', 'r1']


def kdelivered(kp, p):
  if kp == 0 or kp == 4:
    return list(p)
  if kp == 1:
    return list(p[0]['k'][0])
  if kp == 2:
    return [list(p)[0][0]]
  return list(p)


def kshape_ok(kp, p):
  with rt.native():
    if kp in (0, 4):
      return isinstance(p, dict) and len(p) == 1 and list(p.values()) == [1]
    if kp == 1:
      return (isinstance(p, list) and len(p) == 1 and isinstance(p[0], dict) and list(p[0]) == ['k'] and
              isinstance(p[0]['k'], tuple) and len(p[0]['k']) == 1 and isinstance(p[0]['k'][0], dict) and
              list(p[0]['k'][0].values()) == [[1]])
    if kp == 2:
      ks = list(p) if isinstance(p, dict) else []
      return len(ks) == 1 and isinstance(ks[0], tuple) and len(ks[0]) == 2 and ks[0][1] == 1 and p[ks[0]] == 5
    return isinstance(p, dict) and len(p) == 2 and list(p.values()) == [1, 2]


def kmutate(kp, p):
  with rt.native():
    for d in kdelivered(kp, p):
      if isinstance(d, Tok):
        d.v = 'junk'
        d.sc = ['junk']
    if kp == 1:
      p[0]['k'][0].clear()
      p[0]['new'] = 'junk'
      p.append('junk')
    else:
      p.clear()
      p['junk'] = 'junk'


def c04_keys(kp: int, evaluate: bool, rscope: int, amb: int, mp: int, ncalls: int, mut: bool,
             v0: int, v1: int, v2: int, va: int, cp: int) -> bool:
  """
  pre: 0 <= kp < 5 and 0 <= rscope < 3 and 0 <= amb < 4 and 0 <= mp < 4 and 1 <= ncalls <= 3
  """
  world.fresh()
  del HC[:]
  kp = rt.pick(kp, 5)
  evaluate = rt.flag(evaluate)
  rscope = rt.pick(rscope, 3)
  amb = rt.pick(amb, 4)
  mp = rt.pick(mp, 4)
  ncalls = rt.pick(ncalls, 4)
  mut = rt.flag(mut)
  rt.sig(('keys', kp, evaluate, rscope, amb, mp, ncalls, mut), nontrivial=mp != 1)
  _consts(V0=v0, V1=v1, V2=v2, VA=va)
  with rt.native():
    E = '()' if evaluate else ''
    ref = '@' + (RSCOPE[rscope] + '/' if RSCOPE[rscope] else '') + 'vw04.hsrc' + E
    text = '\n'.join(_bind4('vw04.hsrc.v') + ['m = ' + ref,
                                              'vw.cons.p = ' + KPLACE[kp].format(R=ref, E=E), ''])
    gin.parse_config(text)
    cfg_before = gin.config_str()
    stored_before = repr(gin.query_parameter('vw.cons.p'))
  ambient = KAMB[amb].split('/') if amb else []
  # scope of the reference R as seen from the consumer of R (for kp 4 that consumer is the macro m)
  eval_ctx = ['m'] if kp == 4 else ambient
  firsts = []
  for c in range(ncalls):
    del world.LOG[:]
    del HC[:]
    pos, kw = [], {}
    if mp == 1:
      pos.append(cp)
    elif mp == 2:
      pos.append(gin.REQUIRED)
    elif mp == 3:
      kw['p'] = gin.REQUIRED
    _in_scope(KAMB[amb], lambda: world.cons(*pos, **kw))
    if len(world.LOG) != 1:
      return rt.no('consumer not called exactly once')
    _, args, _, seen = world.LOG[0]
    p = args[0]
    if seen != ambient:
      return rt.no('consumer saw another scope')
    if mp == 1:
      if HC or not rt.same('p', p, cp):
        return rt.no('caller-supplied p: reference evaluated or value replaced')
      continue
    if not kshape_ok(kp, p):
      return rt.no('shape of the delivered value')
    got = kdelivered(kp, p)
    want = []                               # (scope, value) per delivered key
    sc = RSCOPE[rscope].split('/') if rscope else None
    want.append(sc)
    if kp == 3:
      want.append(['z'])
    if len(got) != len(want):
      return rt.no('number of keys')
    if evaluate:
      if len(HC) != len(want):
        return rt.no('source called %d times' % len(HC))
      for g, w in zip(got, want):
        w = eval_ctx if w is None else w
        if not isinstance(g, Tok) or g.sc != w or not rt.same('keyv', g.v, bound_val(w, v0, v1, v2, va)):
          return rt.no('evaluated key: scope or value')
        if not any(g is h for h in HC) or any(g is f for f in firsts):
          return rt.no('evaluated key is not a fresh result')
      if len(got) == 2 and got[0] is got[1]:
        return False
      firsts.extend(got)
    else:
      if HC:
        return rt.no('unevaluated reference was called')
      for g, w in zip(got, want):
        if not callable(g):
          return rt.no('unevaluated key is not callable')
        del HC[:]
        res = _in_scope(KAMB[amb], g)
        w = ambient if w is None else w
        if len(HC) != 1 or res is not HC[0] or res.sc != w or \
            not rt.same('keyres', res.v, bound_val(w, v0, v1, v2, va)):
          return rt.no('calling the delivered key')
    if mut:
      kmutate(kp, p)
  with rt.native():
    if gin.config_str() != cfg_before:
      return rt.no('config string changed')
    if repr(gin.query_parameter('vw.cons.p')) != stored_before:
      return rt.no('stored value changed')
  return True


# ---------------------------------------------------------------------------------------------------
# items 3, 11: the reference target is a class / the delivered callable is used in other ways
# ---------------------------------------------------------------------------------------------------
TGT = ['vw.Kinit', 'vw.Kreg', 'vw.Kmeth', 'vw.src']
TPARAM = ['vw.Kinit.a', 'vw.Kreg.a', 'vw.Kmeth.meth.a', 'vw.src.v']
TPLACE = ['{R}', "{{'k': ({R},)}}"]


def c04_targets(tgt: int, evaluate: bool, rscope: int, amb: int, how: int, tp: int, ncalls: int,
                v0: int, v1: int, v2: int, va: int, cp: int) -> bool:
  """
  pre: 0 <= tgt < 4 and 0 <= rscope < 3 and 0 <= amb < 4 and 0 <= how < 4 and 0 <= tp < 2 and 1 <= ncalls <= 3
  """
  world.fresh()
  tgt = rt.pick(tgt, 4)
  evaluate = rt.flag(evaluate)
  rscope = rt.pick(rscope, 3)
  amb = rt.pick(amb, 4)
  how = rt.pick(how, 4)
  tp = rt.pick(tp, 2)
  ncalls = rt.pick(ncalls, 4)
  if evaluate and tgt != 2 and how:
    rt.discard()          # an evaluated Kinit / Kreg / src result is not used any further
  rt.sig(('targets', tgt, evaluate, rscope, amb, how, tp, ncalls))
  _consts(V0=v0, V1=v1, V2=v2, VA=va)
  with rt.native():
    ref = '@' + (RSCOPE[rscope] + '/' if RSCOPE[rscope] else '') + TGT[tgt] + ('()' if evaluate else '')
    gin.parse_config('\n'.join(_bind4(TPARAM[tgt]) + ['vw.cons.p = ' + TPLACE[tp].format(R=ref), '']))
    cfg_before = gin.config_str()
  ambient = KAMB[amb].split('/') if amb else []
  rsc = RSCOPE[rscope].split('/') if rscope else None
  klass = [world.Kinit, world.Kreg, world.Kmeth, None][tgt]
  lname = ['Kinit', 'Kreg', 'Kmeth.meth', None][tgt]
  firsts = []

  def use(fn, kwname):
    """runs fn (arguments per `how`) inside / outside the ambient block; returns (result, the scope it
    must run under, the value its parameter must have)"""
    inside = how != 3
    w = (ambient if inside else []) if rsc is None else rsc
    if how == 1:
      a, k, val = [cp], {}, cp
    elif how == 2:
      a, k, val = [], {kwname: cp}, cp
    else:
      a, k, val = [], {}, bound_val(w, v0, v1, v2, va)
    res = _in_scope(KAMB[amb] if inside else '', lambda: fn(*a, **k))
    return res, w, val

  for c in range(ncalls):
    del world.LOG[:]
    del world.SRC_CALLS[:]
    _in_scope(KAMB[amb], world.cons)
    if not world.LOG or world.LOG[-1][0] != 'cons' or world.LOG[-1][3] != ambient:
      return rt.no('consumer record')
    p = world.LOG[-1][1][0]
    d = p if tp == 0 else p['k'][0]
    made = world.LOG[:-1]
    if evaluate:
      w = ambient if rsc is None else rsc
      val = bound_val(w, v0, v1, v2, va)
      if tgt == 3:
        if made or len(world.SRC_CALLS) != 1 or world.SRC_CALLS[0][1] != w or \
            not rt.same('srcv', world.SRC_CALLS[0][0], val) or not rt.same('res', d[0], val):
          return rt.no('evaluated function reference')
      elif tgt == 2:
        if made or not isinstance(d, klass):
          return rt.no('evaluated Kmeth reference')
      else:
        if len(made) != 1 or made[0][0] != lname or made[0][3] != w or not rt.same('a', made[0][1][0], val):
          return rt.no('class constructed under the wrong scope / value / count')
        if not isinstance(d, klass) or not rt.same('got', d.got[0], val):
          return rt.no('delivered instance')
      if any(d is f for f in firsts):
        return rt.no('instance of an earlier call delivered again')
      firsts.append(d)
      if tgt == 2:
        # methods of the instance made by a scoped reference run under that scope (unscoped: plain class)
        del world.LOG[:]
        res, w2, val2 = use(d.meth, 'a')
        if len(world.LOG) != 1 or world.LOG[0][0] != lname or world.LOG[0][3] != w2 or \
            not rt.same('ma', world.LOG[0][1][0], val2) or not rt.same('mres', res[0], val2):
          return rt.no('method of the delivered instance')
    else:
      if made or world.SRC_CALLS:
        return rt.no('unevaluated reference was called')
      if not callable(d):
        return rt.no('not callable')
      del world.LOG[:]
      if tgt == 2:
        # construct (no parameters) where `how` says, then use the method the same way
        inst = _in_scope(KAMB[amb] if how != 3 else '', d)
        if world.LOG or not isinstance(inst, klass):
          return rt.no('constructing through the delivered class')
        mres, w2, val2 = use(inst.meth, 'a')
        if len(world.LOG) != 1 or world.LOG[0][0] != lname or world.LOG[0][3] != w2 or \
            not rt.same('ma', world.LOG[0][1][0], val2) or not rt.same('mres', mres[0], val2):
          return rt.no('method of an instance made through the delivered class')
        continue
      res, w, val = use(d, 'v' if tgt == 3 else 'a')
      if tgt == 3:
        if len(world.SRC_CALLS) != 1 or world.SRC_CALLS[0][1] != w or \
            not rt.same('srcv', world.SRC_CALLS[0][0], val) or not rt.same('res', res[0], val):
          return rt.no('calling the delivered function')
      else:
        if len(world.LOG) != 1 or world.LOG[0][0] != lname or world.LOG[0][3] != w or \
            not rt.same('a', world.LOG[0][1][0], val):
          return rt.no('constructing through the delivered class: scope / value')
        if not isinstance(res, klass) or not rt.same('got', res.got[0], val):
          return rt.no('instance made through the delivered class')
  with rt.native():
    if gin.config_str() != cfg_before:
      return rt.no('config string changed')
  return True


# ---------------------------------------------------------------------------------------------------
# items 5, 6, 7: other consumer signatures, caller passes gin.REQUIRED, binding shadowed in the ambient scope
# ---------------------------------------------------------------------------------------------------
# (configurable, focus parameter, other parameter)
CK = [('vw.cons', 'p', 'q'), ('vw.kws', 'z', 'a'), ('vw.varkwo', 'b', 'a'), ('vw.varkwo', 'a', 'b'),
      ('vw.Kinit', 'a', 'b'), ('vw.Kinit', 'b', 'a')]
SAMB = ['', 'amb', 'amb/zz']
SPLACE = ['{R}', '[{R}, 1]']


def _sig_call(ck, mode, cp, cq):
  """the call for (consumer kind, mode) or None when the combination does not exist
  modes: 0 omitted, 1 positional, 2 keyword, 3 REQUIRED positional, 4 REQUIRED keyword,
         5 omitted while the caller supplies the OTHER parameter (and surplus positionals where possible)"""
  R = gin.REQUIRED
  focus = CK[ck][1]
  if mode == 0:
    return [], {}
  if mode in (2, 4):
    return [], {focus: cp if mode == 2 else R}
  x = cp if mode == 1 else R
  if ck == 0:
    return ([x], {}) if mode != 5 else ([], {'q': cq})
  if ck == 1:
    return None if mode != 5 else ([cq], {})
  if ck == 2:
    return None if mode != 5 else ([cq, 8, 9], {})
  if ck == 3:
    return ([x] if mode == 3 else [x, 8, 9], {}) if mode != 5 else ([], {'b': cq})
  if ck == 4:
    return ([x], {}) if mode != 5 else ([], {'b': cq})
  return ([7, x], {}) if mode != 5 else ([cq], {})


def _sig_received(ck, entry):
  """(focus value, other value) from the consumer's record"""
  _, args, kwargs, _ = entry
  if ck == 0:
    return args[0], args[1]
  if ck == 1:
    return kwargs.get('z'), args[0]
  if ck == 2:
    return kwargs['b'], args[0]
  if ck == 3:
    return args[0], kwargs['b']
  if ck == 4:
    return args[0], args[1]
  return args[1], args[0]


def c04_sigs(ck: int, mode: int, shadow: int, evaluate: bool, rscope: int, amb: int, pl: int,
             ncalls: int, mut: bool, v0: int, v1: int, v2: int, va: int, w0: int, w1: int,
             cp: int, cq: int) -> bool:
  """
  pre: 0 <= ck < 6 and 0 <= mode < 6 and 0 <= shadow < 3 and 0 <= rscope < 2 and 0 <= amb < 3 and 0 <= pl < 2 and 1 <= ncalls <= 3
  """
  world.fresh()
  ck = rt.pick(ck, 6)
  mode = rt.pick(mode, 6)
  shadow = rt.pick(shadow, 3)
  evaluate = rt.flag(evaluate)
  rscope = rt.pick(rscope, 2)
  amb = rt.pick(amb, 3)
  pl = rt.pick(pl, 2)
  ncalls = rt.pick(ncalls, 4)
  mut = rt.flag(mut)
  call = _sig_call(ck, mode, cp, cq)
  if call is None:
    rt.discard()
  rt.sig(('sigs', ck, mode, shadow, evaluate, rscope, amb, pl, ncalls, mut), nontrivial=mode not in (1, 2))
  _consts(V0=v0, V1=v1, V2=v2, VA=va, W0=w0, W1=w1)
  sel, focus, other = CK[ck]
  with rt.native():
    ref = '@' + (RSCOPE[rscope] + '/' if RSCOPE[rscope] else '') + 'vw.src' + ('()' if evaluate else '')
    lines = _bind4('vw.src.v') + ['vw.src2.v = %vwc.W0',
                                  '%s.%s = %s' % (sel, focus, SPLACE[pl].format(R=ref)),
                                  '%s.%s = @vw.src2()' % (sel, other)]
    if shadow == 1:
      lines.append('amb/%s.%s = %%vwc.W1' % (sel, focus))
    elif shadow == 2:
      lines.append('amb/%s.%s = [@vw.src2()]' % (sel, focus))
    gin.parse_config('\n'.join(lines + ['']))
    cfg_before = gin.config_str()
    stored_before = repr(gin.query_parameter('%s.%s' % (sel, focus)))
  ambient = SAMB[amb].split('/') if amb else []
  rsc = RSCOPE[rscope].split('/') if rscope else None
  src_scope = ambient if rsc is None else rsc
  src_val = bound_val(src_scope, v0, v1, v2, va)
  shadowed = shadow if ambient[:1] == ['amb'] else 0
  focus_from_gin = mode in (0, 3, 4, 5)
  # Kinit(7, x): to pass b positionally the caller has to pass a (the other parameter) as well
  other_caller = cq if mode == 5 else (7 if ck == 5 and mode in (1, 3) else None)
  other_from_gin = other_caller is None
  consumer = [world.cons, world.kws, world.varkwo, world.varkwo, world.Kinit, world.Kinit][ck]
  lname = sel[3:]
  firsts = []
  for c in range(ncalls):
    del world.LOG[:]
    del world.SRC_CALLS[:]
    a, k = _sig_call(ck, mode, cp, cq)
    _in_scope(SAMB[amb], lambda: consumer(*a, **k))
    if len(world.LOG) != 1 or world.LOG[0][0] != lname or world.LOG[0][3] != ambient:
      return rt.no('consumer record')
    fv, ov = _sig_received(ck, world.LOG[0])
    calls_src = [r for r in world.SRC_CALLS if r[0] != 'src2']
    calls_src2 = [r for r in world.SRC_CALLS if r[0] == 'src2']
    want2 = (1 if other_from_gin else 0) + (1 if focus_from_gin and shadowed == 2 else 0)
    if len(calls_src2) != want2:
      return rt.no('src2 called %d times, expected %d' % (len(calls_src2), want2))
    for r in calls_src2:
      if r[2] != ambient or not rt.same('w0', r[1], w0):
        return rt.no('src2 scope / value')
    # --- the other parameter ----------------------------------------------------------------------
    if other_from_gin:
      if not (isinstance(ov, dict) and rt.same('ov', ov['v'], w0)):
        return rt.no('other parameter (Gin-supplied)')
      if mut:
        with rt.native():
          ov['junk'] = 1
    elif not rt.same('ov', ov, other_caller):
      return rt.no('other parameter (caller-supplied)')
    if (mode == 5 and ck == 2) or (mode == 1 and ck == 3):
      if world.LOG[0][1][1:] != (8, 9):
        return rt.no('surplus positionals')
    # --- the focus parameter ------------------------------------------------------------------------
    if not focus_from_gin:
      if calls_src or not rt.same('fv', fv, cp):
        return rt.no('caller-supplied parameter: reference evaluated or value replaced')
      continue
    if shadowed == 1:
      if calls_src or not rt.same('fv', fv, w1):
        return rt.no('shadowed reference evaluated / shadowing value not delivered')
      continue
    if shadowed == 2:
      if calls_src or not (isinstance(fv, list) and len(fv) == 1 and isinstance(fv[0], dict) and
                           rt.same('fv', fv[0]['v'], w0)):
        return rt.no('shadowed reference evaluated / shadowing reference not delivered')
      if mut:
        with rt.native():
          fv.append('junk')
          fv[0]['junk'] = 1
      continue
    if pl == 1:
      if not (isinstance(fv, list) and len(fv) == 2 and fv[1] == 1):
        return rt.no('shape')
      g = fv[0]
    else:
      g = fv
    if evaluate:
      if len(calls_src) != 1 or calls_src[0][1] != src_scope or not rt.same('srcv', calls_src[0][0], src_val):
        return rt.no('source call count / scope / value')
      if not (isinstance(g, list) and len(g) == 1 and rt.same('res', g[0], src_val)):
        return rt.no('delivered result')
      if any(g is f for f in firsts):
        return rt.no('result of an earlier call delivered again')
      firsts.append(g)
    else:
      if calls_src or not callable(g):
        return rt.no('unevaluated reference called / not callable')
      del world.SRC_CALLS[:]
      res = _in_scope(SAMB[amb], g)
      if len(world.SRC_CALLS) != 1 or world.SRC_CALLS[0][1] != src_scope or not rt.same('res', res[0], src_val):
        return rt.no('calling the delivered configurable')
    if mut:
      with rt.native():
        if isinstance(g, list):
          g.append('junk')
        if pl == 1:
          fv.append('junk')
          fv[0] = 'junk'
  with rt.native():
    if gin.config_str() != cfg_before:
      return rt.no('config string changed')
    if repr(gin.query_parameter('%s.%s' % (sel, focus))) != stored_before:
      return rt.no('stored value changed')
  return True


# ---------------------------------------------------------------------------------------------------
# items 4, 9, 10: chained references, other ways to build the ambient scope, repeated / dotted scopes
# ---------------------------------------------------------------------------------------------------
LSCOPE = ['', 'r1', 'amb/zz']
RS2 = ['x', 'r1/r1', 'r1/r2', 'r1/zz', 'zz/r1', 'a.b', 'a.b/r1', 'amb']
AB_EXPECT = [[], ['amb'], ['x', 'r1'], [], [], ['x', 'r1'], ['amb'], ['amb'], ['amb'], ['amb', 'r1']]


def _ambient_call(ab):
  """calls the consumer vw.cons under an ambient scope built in one of ten ways"""
  if ab == 0:
    world.cons()
  elif ab == 1:
    with gin.config_scope('amb'):
      world.cons()
  elif ab == 2:
    with gin.config_scope('x'):
      with gin.config_scope('r1'):
        world.cons()
  elif ab == 3:
    with gin.config_scope('amb'):
      with gin.config_scope(None):
        world.cons()
  elif ab == 4:
    with gin.config_scope('amb'):
      with gin.config_scope(''):
        world.cons()
  elif ab == 5:
    with gin.config_scope(['x', 'r1']):
      world.cons()
  elif ab == 6:
    with gin.config_scope('amb') as captured:
      pass
    with gin.config_scope('zz'):
      with gin.config_scope(captured):
        world.cons()
  elif ab == 7:
    with gin.config_scope('zz'):
      gin.get_configurable('amb/vw.cons')()
  elif ab == 8:
    with gin.config_scope('amb'):
      c = gin.get_configurable(world.cons)
    c()
  else:
    with gin.config_scope('amb'):
      gin.get_configurable('vw.cons')
      with gin.config_scope('r1'):
        gin.get_configurable('vw.cons')()


def c04_chain(ab: int, evaluate: bool, lscope: int, rs: int, ncalls: int, mut: bool,
              v0: int, v1: int, v2: int, va: int, vb: int) -> bool:
  """
  pre: 0 <= ab < 10 and 0 <= lscope < 3 and 0 <= rs < 8 and 1 <= ncalls <= 3
  """
  world.fresh()
  ab = rt.pick(ab, 10)
  evaluate = rt.flag(evaluate)
  lscope = rt.pick(lscope, 3)
  rs = rt.pick(rs, 8)
  ncalls = rt.pick(ncalls, 4)
  mut = rt.flag(mut)
  rt.sig(('chain', ab, evaluate, lscope, rs, ncalls, mut))
  _consts(V0=v0, V1=v1, V2=v2, VA=va, VB=vb)
  with rt.native():
    outer = '@' + (LSCOPE[lscope] + '/' if LSCOPE[lscope] else '') + 'vw.lit' + ('()' if evaluate else '')
    gin.parse_config('\n'.join(_bind4('vw.src.v') + ['vw.lit.p = @vw.src()', 'vw.cons.p = [%s]' % outer, '']))
    # a scope with a dotted component cannot be written as the scope of a binding: programmatic API
    gin.bind_parameter('a.b/vw.src.v', gin.config.parse_value('%vwc.VB'))
    gin.bind_parameter('vw.lit.q', gin.config.parse_value('{"k": @%s/vw.src()}' % RS2[rs]))
    cfg_before = gin.config_str()
  ambient = AB_EXPECT[ab]
  lsc = LSCOPE[lscope].split('/') if lscope else None
  isc = RS2[rs].split('/')
  firsts = []
  for c in range(ncalls):
    del world.LOG[:]
    del world.SRC_CALLS[:]
    _ambient_call(ab)
    if gin.current_scope() != []:
      return rt.no('scope not restored')
    if not world.LOG or world.LOG[-1][0] != 'cons' or world.LOG[-1][3] != ambient:
      return rt.no('consumer record / scope')
    p = world.LOG[-1][1][0]
    if not (isinstance(p, list) and len(p) == 1):
      return rt.no('shape')
    if evaluate:
      lit_scope = ambient if lsc is None else lsc
      res = p[0]
      lits = world.LOG[:-1]
    else:
      if len(world.LOG) != 1 or world.SRC_CALLS or not callable(p[0]):
        return rt.no('unevaluated outer reference')
      del world.LOG[:]
      res = p[0]()                          # called later, outside every scope
      lit_scope = [] if lsc is None else lsc
      lits = world.LOG[:]
    if len(lits) != 1 or lits[0][0] != 'lit' or lits[0][3] != lit_scope:
      return rt.no('outer reference ran under the wrong scope')
    # inner references: the unscoped one sees the scope of the enclosing reference
    want = [(bound_val(lit_scope, v0, v1, v2, va, vb), lit_scope), (bound_val(isc, v0, v1, v2, va, vb), isc)]
    if len(world.SRC_CALLS) != 2:
      return rt.no('inner references: %d calls' % len(world.SRC_CALLS))
    for w in want:
      if not any(r[1] == w[1] and rt.same('inner', r[0], w[0]) for r in world.SRC_CALLS):
        return rt.no('inner reference scope / value')
    lp, lq = res
    if not (isinstance(lp, list) and rt.same('lp', lp[0], want[0][0]) and isinstance(lq, dict) and
            rt.same('lq', lq['k'][0], want[1][0])):
      return rt.no('values delivered through the chain')
    if any(lp is f or lq['k'] is f for f in firsts):
      return rt.no('result of an earlier call delivered again')
    firsts.extend([lp, lq['k']])
    if mut:
      with rt.native():
        lp.append('junk')
        lq['k'].append('junk')
        lq['junk'] = 1
        p.append('junk')
  with rt.native():
    if gin.config_str() != cfg_before:
      return rt.no('config string changed')
  return True


# ---------------------------------------------------------------------------------------------------
# item 8: an evaluation raises in the middle of a history
# ---------------------------------------------------------------------------------------------------
class _Odd(Exception):
  pass


def c04_raise(amb: int, bpos: int, bscope: bool, exc: int, when: int, mut: bool,
              v0: int, v1: int, v2: int, va: int) -> bool:
  """
  pre: 0 <= amb < 4 and 0 <= bpos < 4 and 0 <= exc < 3 and 0 <= when < 3
  """
  world.fresh()
  amb = rt.pick(amb, 4)
  bpos = rt.pick(bpos, 4)
  bscope = rt.flag(bscope)
  exc = rt.pick(exc, 3)
  when = rt.pick(when, 3)
  mut = rt.flag(mut)
  inner = bpos == 3
  if inner and bscope:
    rt.discard()
  rt.sig(('raise', amb, bpos, bscope, exc, when, mut))
  _consts(V0=v0, V1=v1, V2=v2, VA=va)
  world.RAISE[0] = [ValueError('vw04'), KeyError('vw04'), _Odd('vw04')][exc]
  with rt.native():
    boom = '@r1/vw.boom()' if bscope else '@vw.boom()'
    if inner:       # the failure happens one level down, inside a reference that is itself scoped
      bad = ['vw.lit.p = [@q9/vw.outer1()]']
    else:
      bad = ['vw.lit.p = ' + ['[%s, @vw.src()]', '[@vw.src(), %s]', "{'k': (@r1/vw.src(), [%s])}"][bpos] % boom]
    gin.parse_config('\n'.join(_bind4('vw.src.v') + bad + ['vw.cons.p = [@vw.src(), @r1/r2/vw.src()]', '']))
    cfg_before = gin.config_str()
  ambient = KAMB[amb].split('/') if amb else []

  def good(at):
    del world.LOG[:]
    del world.SRC_CALLS[:]
    world.cons()
    if len(world.LOG) != 1 or world.LOG[0][3] != at:
      return rt.no('consumer scope after a failed evaluation')
    p = world.LOG[0][1][0]
    w0_, w1_ = bound_val(at, v0, v1, v2, va), v2
    if len(world.SRC_CALLS) != 2 or world.SRC_CALLS[0][1] != at or world.SRC_CALLS[1][1] != ['r1', 'r2']:
      return rt.no('reference scopes after a failed evaluation')
    if not (isinstance(p, list) and len(p) == 2 and rt.same('p0', p[0][0], w0_) and rt.same('p1', p[1][0], w1_)):
      return rt.no('values after a failed evaluation')
    if mut:
      with rt.native():
        p[0].append('junk')
        p.append('junk')
    return True

  def bad_call():
    try:
      world.lit()
    except Exception:          # which exception arrives is the subject of C17
      return True
    return rt.no('failing evaluation did not raise')

  def block():
    for step in range(3):
      if step == when:
        if not bad_call():
          return False
      if not good(ambient):
        return False
    return True

  if not _in_scope(KAMB[amb], block):
    return False
  if gin.current_scope() != []:
    return rt.no('scope stack not restored')
  if not good([]):
    return False
  with rt.native():
    if gin.config_str() != cfg_before:
      return rt.no('config string changed')
  return True


# ---------------------------------------------------------------------------------------------------
# items 1, 12: containers and references supplied through bind_parameter; queries that evaluate;
#              a macro bound to a mutable list
# ---------------------------------------------------------------------------------------------------
def _api_value(ap, r, r2):
  """(value to bind, number of reference OCCURRENCES, number of distinct reference objects)"""
  if ap == 0:
    return [r, r], 2, 1
  if ap == 1:
    sub = [r]
    return (sub, sub, {'k': sub}), 3, 1
  if ap == 2:
    return NT(r, [r2]), 2, 2
  if ap == 3:
    return _collections.OrderedDict([('z', r), ('a', [r2])]), 2, 2
  return {'k': [r, r2, r]}, 3, 2


def _api_delivered(ap, p):
  if ap == 0:
    return [p[0], p[1]]
  if ap == 1:
    return [p[0][0], p[1][0], p[2]['k'][0]]
  if ap == 2:
    return [p.a, p.b[0]]
  if ap == 3:
    return [p['z'], p['a'][0]]
  return list(p['k'])


def _api_shape_ok(ap, p):
  with rt.native():
    if ap == 0:
      return isinstance(p, list) and len(p) == 2
    if ap == 1:
      return (isinstance(p, tuple) and len(p) == 3 and isinstance(p[0], list) and len(p[0]) == 1 and
              isinstance(p[1], list) and len(p[1]) == 1 and isinstance(p[2], dict) and list(p[2]) == ['k'] and
              isinstance(p[2]['k'], list) and len(p[2]['k']) == 1)
    if ap == 2:
      return isinstance(p, NT) and isinstance(p.b, list) and len(p.b) == 1
    if ap == 3:
      return (isinstance(p, _collections.OrderedDict) and list(p) == ['z', 'a'] and
              isinstance(p['a'], list) and len(p['a']) == 1)
    return isinstance(p, dict) and list(p) == ['k'] and isinstance(p['k'], list) and len(p['k']) == 3


def _api_mutate(ap, p):
  with rt.native():
    for d in _api_delivered(ap, p):
      if isinstance(d, list):
        d.append('junk')
    if ap == 0:
      p.append('junk')
      p[0] = 'junk'
    elif ap == 1:
      p[0].append('junk')
      p[2]['k'].append('junk')
      p[2]['z'] = 'junk'
    elif ap == 2:
      p.b.append('junk')
    elif ap == 3:
      p['a'].append('junk')
      p['new'] = 'junk'
      p.move_to_end('z')
    else:
      p['k'].append('junk')
      p['z'] = 'junk'


def c04_api(ap: int, via: int, evaluate: bool, rscope: int, amb: int, qs: int, mut: bool, ncalls: int,
            v0: int, v1: int, v2: int, va: int) -> bool:
  """
  pre: 0 <= ap < 5 and 0 <= via < 2 and 0 <= rscope < 3 and 0 <= amb < 4 and 0 <= qs < 6 and 1 <= ncalls <= 3
  """
  world.fresh()
  ap = rt.pick(ap, 5)
  via = rt.pick(via, 2)
  evaluate = rt.flag(evaluate)
  rscope = rt.pick(rscope, 3)
  amb = rt.pick(amb, 4)
  qs = rt.pick(qs, 6)
  mut = rt.flag(mut)
  ncalls = rt.pick(ncalls, 4)
  rt.sig(('api', ap, via, evaluate, rscope, amb, qs, mut, ncalls))
  _consts(V0=v0, V1=v1, V2=v2, VA=va)
  with rt.native():
    ref = '@' + (RSCOPE[rscope] + '/' if RSCOPE[rscope] else '') + 'vw.src' + ('()' if evaluate else '')
    gin.parse_config('\n'.join(_bind4('vw.src.v') + ['m = [1, [2], {"k": [3]}]', 'vw.cons.q = %m',
                                                     'vw.lit.p = ' + ref, 'vw.lit.q = ' + ref, '']))
    if via == 0:      # reference objects taken out of the store
      r, r2 = gin.query_parameter('vw.lit.p'), gin.query_parameter('vw.lit.q')
    else:             # reference objects made by the value parser
      r, r2 = gin.config.parse_value(ref), gin.config.parse_value(ref)
    value, nocc, nobj = _api_value(ap, r, r2)
    gin.bind_parameter('vw.cons.p', value)
    cfg_before = gin.config_str()
    stored_before = repr(gin.query_parameter('vw.cons.p'))
    macro_before = repr(gin.query_parameter('%m'))
  ambient = KAMB[amb].split('/') if amb else []
  rsc = RSCOPE[rscope].split('/') if rscope else None
  src_scope = ambient if rsc is None else rsc
  src_val = bound_val(src_scope, v0, v1, v2, va)
  firsts = []
  for c in range(ncalls):
    if c == 1 and qs:
      # a query that evaluates (or hands out the stored bindings) between two consumer calls; what it
      # returns is not judged (the statement speaks about consumers), only what later calls see
      if qs == 1:
        gin.get_bindings('vw.cons')
      elif qs == 2:
        gin.get_bindings('amb/vw.cons')
      elif qs == 3:
        _in_scope(KAMB[amb], lambda: gin.get_bindings(world.cons))
      elif qs == 4:
        gin.get_bindings('vw.cons', resolve_references=False)
      else:
        _in_scope(KAMB[amb], lambda: gin.get_bindings('vw.cons', inherit_scopes=False))
    del world.LOG[:]
    del world.SRC_CALLS[:]
    _in_scope(KAMB[amb], world.cons)
    if len(world.LOG) != 1 or world.LOG[0][3] != ambient:
      return rt.no('consumer record')
    p, q = world.LOG[0][1]
    # --- q: the macro-bound mutable list ------------------------------------------------------------
    with rt.native():
      if q != [1, [2], {'k': [3]}]:
        return rt.no('macro-bound list seen by the consumer changed')
    if any(q is f for f in firsts):
      return rt.no('the same list object delivered twice')
    firsts.append(q)
    # --- p -------------------------------------------------------------------------------------------
    if not _api_shape_ok(ap, p):
      return rt.no('shape')
    got = _api_delivered(ap, p)
    if evaluate:
      # one reference OBJECT placed several times: the statement fixes "anew for every consumer call",
      # not whether the occurrences share one evaluation -> between nobj and nocc calls are accepted
      if not (nobj <= len(world.SRC_CALLS) <= nocc):
        return rt.no('source called %d times' % len(world.SRC_CALLS))
      for r_ in world.SRC_CALLS:
        if r_[1] != src_scope or not rt.same('srcv', r_[0], src_val):
          return rt.no('source scope / value')
      for g in got:
        if not (isinstance(g, list) and len(g) == 1 and rt.same('res', g[0], src_val)):
          return rt.no('delivered result')
        if any(g is f for f in firsts):
          return rt.no('result of an earlier call delivered again')
      ndistinct = 0
      seen_objs = []
      for g in got:
        if not any(g is s_ for s_ in seen_objs):
          seen_objs.append(g)
          ndistinct += 1
      if ndistinct != len(world.SRC_CALLS):
        return rt.no('distinct results != number of evaluations')
      firsts.extend(seen_objs)
    else:
      if world.SRC_CALLS:
        return rt.no('unevaluated reference was called')
      for g in got:
        if not callable(g):
          return rt.no('not callable')
        del world.SRC_CALLS[:]
        res = _in_scope(KAMB[amb], g)
        if len(world.SRC_CALLS) != 1 or world.SRC_CALLS[0][1] != src_scope or not rt.same('res', res[0], src_val):
          return rt.no('calling the delivered configurable')
    if mut:
      with rt.native():
        q[1].append('junk')
        q[2]['k'].append('junk')
        q.append('junk')
      _api_mutate(ap, p)
  with rt.native():
    if gin.config_str() != cfg_before:
      return rt.no('config string changed')
    if repr(gin.query_parameter('vw.cons.p')) != stored_before:
      return rt.no('stored value changed')
    if repr(gin.query_parameter('%m')) != macro_before:
      return rt.no('macro value changed')
  return True


HARNESSES = {
    'c04_refs': dict(
        fn='c04_refs',
        anchors=['gin.config:__deepcopy__', 'gin.config:_decorate_with_scope', 'gin.config:gin_wrapper',
                 'gin.config:scoping_wrapper'],
        smoke=[dict(place=3, evaluate=True, rscope=1, amb=2, mp=0, mq=0, ncalls=2, mut=True,
                    v0=1, v1=2, v2=3, va=4, w0=5, cp=6, cq=7),
               dict(place=2, evaluate=False, rscope=0, amb=1, mp=0, mq=1, ncalls=1, mut=False,
                    v0=1, v1=2, v2=3, va=4, w0=5, cp=6, cq=7)],
        tiers={'quick': dict(split=dict(place=list(range(8)), rscope=[0, 1, 2], mp=[0, 1, 2]),
                             fixed=dict(ncalls=2), budget_s=100),
               'thorough': dict(split=dict(place=list(range(8)), rscope=[0, 1, 2], mp=[0, 1, 2],
                                           ncalls=[1, 2, 3]), budget_s=300)},
        bounds='5 placements of one or two references (top level, list, tuple in dict, nested list, dict in '
               'tuple) + 3 reference-free values with mutable containers inside a tuple / dict / list, evaluated or not, reference scope none/r1/r1/r2, ambient scope none / amb / x/r1 / xr1 / r1 / q/r1/r2 (the last four END with a reference scope), parameter p '
               'omitted/positional/keyword, parameter q omitted/keyword, 1-3 calls with or without the '
               'consumer mutating what it got; source values: all ints (through constants)'),
    'c04_keys': dict(
        fn='c04_keys',
        anchors=['gin.config:__deepcopy__', 'gin.config:__hash__', 'gin.config:scoping_wrapper',
                 'gin.config_parser:_parse_dict_item'],
        smoke=[dict(kp=0, evaluate=True, rscope=1, amb=1, mp=0, ncalls=2, mut=True, v0=1, v1=2, v2=3, va=4, cp=6),
               dict(kp=1, evaluate=False, rscope=0, amb=2, mp=3, ncalls=1, mut=False, v0=1, v1=2, v2=3, va=4, cp=6),
               dict(kp=2, evaluate=True, rscope=2, amb=0, mp=2, ncalls=2, mut=True, v0=1, v1=2, v2=3, va=4, cp=6),
               dict(kp=3, evaluate=True, rscope=0, amb=3, mp=0, ncalls=2, mut=True, v0=1, v1=2, v2=3, va=4, cp=6),
               dict(kp=4, evaluate=True, rscope=0, amb=1, mp=0, ncalls=2, mut=True, v0=1, v1=2, v2=3, va=4, cp=6),
               dict(kp=4, evaluate=False, rscope=1, amb=1, mp=1, ncalls=2, mut=False, v0=1, v1=2, v2=3, va=4, cp=6)],
        tiers={'quick': dict(split=dict(kp=list(range(5)), evaluate=[False, True]), fixed=dict(ncalls=2), budget_s=200),
               'thorough': dict(split=dict(kp=list(range(5)), mp=[0, 1, 2, 3], ncalls=[1, 2, 3]), budget_s=300)},
        bounds='a reference in dict KEY position: 5 shapes ({R: 1}; the same nested in list/dict/tuple; inside a '
               'tuple key; two keys that differ only in their scope, R and @z/..; a macro key %m with m = R), '
               'hashable source results, evaluated or not, reference scope none/r1/r1/r2, ambient none / amb / '
               'x/r1 / r1, parameter omitted / positional / gin.REQUIRED positional / gin.REQUIRED by keyword, '
               '1-3 calls with or without the consumer mutating the dict and the key objects'),
    'c04_targets': dict(
        fn='c04_targets',
        anchors=['gin.config:_decorate_with_scope', 'gin.config:_decorate_fn_or_cls', 'gin.config:scoping_wrapper',
                 'gin.config:meta_call_wrapper', 'gin.config:__deepcopy__'],
        smoke=[dict(tgt=0, evaluate=True, rscope=1, amb=1, how=0, tp=0, ncalls=2, v0=1, v1=2, v2=3, va=4, cp=6),
               dict(tgt=1, evaluate=True, rscope=2, amb=2, how=0, tp=1, ncalls=2, v0=1, v1=2, v2=3, va=4, cp=6),
               dict(tgt=1, evaluate=False, rscope=1, amb=1, how=1, tp=0, ncalls=1, v0=1, v1=2, v2=3, va=4, cp=6),
               dict(tgt=2, evaluate=True, rscope=1, amb=1, how=3, tp=0, ncalls=2, v0=1, v1=2, v2=3, va=4, cp=6),
               dict(tgt=2, evaluate=False, rscope=0, amb=1, how=2, tp=1, ncalls=2, v0=1, v1=2, v2=3, va=4, cp=6),
               dict(tgt=3, evaluate=False, rscope=1, amb=1, how=3, tp=0, ncalls=2, v0=1, v1=2, v2=3, va=4, cp=6),
               dict(tgt=0, evaluate=False, rscope=0, amb=3, how=2, tp=0, ncalls=2, v0=1, v1=2, v2=3, va=4, cp=6)],
        tiers={'quick': dict(split=dict(tgt=[0, 1, 2, 3], rscope=[0, 1, 2]), fixed=dict(ncalls=2), budget_s=200),
               'thorough': dict(split=dict(tgt=[0, 1, 2, 3], how=[0, 1, 2, 3], ncalls=[1, 2, 3]), budget_s=300)},
        bounds='reference target: @gin.configurable class (vw.Kinit), @gin.register class (vw.Kreg), registered '
               'class with a registered method (vw.Kmeth, then .meth()), function (vw.src); evaluated or not; '
               'reference scope none/r1/r1/r2; ambient none / amb / x/r1 / r1; top level or inside a tuple in a '
               'dict; the delivered callable / method is used inside the ambient block without arguments, with a '
               'positional argument, with a keyword argument, or later outside the block; 1-3 consumer calls'),
    'c04_sigs': dict(
        fn='c04_sigs',
        anchors=['gin.config:gin_wrapper', 'gin.config:_get_bindings',
                 'gin.config:_get_supplied_positional_parameter_names', 'gin.config:__deepcopy__'],
        smoke=[dict(ck=0, mode=3, shadow=0, evaluate=True, rscope=1, amb=1, pl=1, ncalls=2, mut=True,
                    v0=1, v1=2, v2=3, va=4, w0=5, w1=8, cp=6, cq=7),
               dict(ck=1, mode=4, shadow=1, evaluate=True, rscope=0, amb=1, pl=0, ncalls=2, mut=True,
                    v0=1, v1=2, v2=3, va=4, w0=5, w1=8, cp=6, cq=7),
               dict(ck=2, mode=5, shadow=2, evaluate=True, rscope=0, amb=2, pl=0, ncalls=2, mut=True,
                    v0=1, v1=2, v2=3, va=4, w0=5, w1=8, cp=6, cq=7),
               dict(ck=3, mode=1, shadow=0, evaluate=True, rscope=0, amb=0, pl=1, ncalls=2, mut=False,
                    v0=1, v1=2, v2=3, va=4, w0=5, w1=8, cp=6, cq=7),
               dict(ck=4, mode=3, shadow=1, evaluate=False, rscope=1, amb=0, pl=0, ncalls=2, mut=False,
                    v0=1, v1=2, v2=3, va=4, w0=5, w1=8, cp=6, cq=7),
               dict(ck=5, mode=0, shadow=2, evaluate=True, rscope=1, amb=1, pl=1, ncalls=2, mut=True,
                    v0=1, v1=2, v2=3, va=4, w0=5, w1=8, cp=6, cq=7),
               dict(ck=5, mode=2, shadow=0, evaluate=True, rscope=0, amb=1, pl=0, ncalls=1, mut=False,
                    v0=1, v1=2, v2=3, va=4, w0=5, w1=8, cp=6, cq=7)],
        tiers={'quick': dict(split=dict(ck=list(range(6)), shadow=[0, 1, 2]), fixed=dict(ncalls=2, mut=True, rscope=0),
                             budget_s=200),
               'thorough': dict(split=dict(ck=list(range(6)), mode=list(range(6)), ncalls=[1, 2, 3]), budget_s=300)},
        bounds='consumer / focus parameter: cons.p, kws.z (lands in **kw), varkwo.b (keyword-only behind *rest), '
               'varkwo.a (positional before *rest, with surplus positionals), Kinit.a and Kinit.b (class '
               'construction); the caller omits the parameter, passes it positionally, by keyword, passes '
               'gin.REQUIRED positionally or by keyword, or omits it while supplying the OTHER parameter (also '
               'bound to an evaluated reference); the root binding (reference at top level or in a list) is '
               'not shadowed / shadowed under amb/ by a plain value / by another evaluated reference; ambient '
               'none / amb / amb/zz; reference scope none / r1; evaluated or not; 1-3 calls, mutating or not'),
    'c04_chain': dict(
        fn='c04_chain',
        anchors=['gin.config:config_scope', 'gin.config:get_configurable', 'gin.config:_decorate_with_scope',
                 'gin.config:scoping_wrapper', 'gin.config:__deepcopy__'],
        smoke=[dict(ab=1, evaluate=True, lscope=1, rs=0, ncalls=2, mut=True, v0=1, v1=2, v2=3, va=4, vb=9),
               dict(ab=2, evaluate=True, lscope=0, rs=1, ncalls=2, mut=True, v0=1, v1=2, v2=3, va=4, vb=9),
               dict(ab=3, evaluate=True, lscope=0, rs=2, ncalls=2, mut=False, v0=1, v1=2, v2=3, va=4, vb=9),
               dict(ab=4, evaluate=False, lscope=2, rs=3, ncalls=2, mut=False, v0=1, v1=2, v2=3, va=4, vb=9),
               dict(ab=5, evaluate=True, lscope=0, rs=5, ncalls=2, mut=True, v0=1, v1=2, v2=3, va=4, vb=9),
               dict(ab=6, evaluate=True, lscope=0, rs=6, ncalls=2, mut=True, v0=1, v1=2, v2=3, va=4, vb=9),
               dict(ab=7, evaluate=True, lscope=0, rs=4, ncalls=2, mut=True, v0=1, v1=2, v2=3, va=4, vb=9),
               dict(ab=8, evaluate=True, lscope=0, rs=7, ncalls=2, mut=True, v0=1, v1=2, v2=3, va=4, vb=9),
               dict(ab=9, evaluate=True, lscope=0, rs=0, ncalls=2, mut=True, v0=1, v1=2, v2=3, va=4, vb=9)],
        tiers={'quick': dict(split=dict(ab=list(range(10))), fixed=dict(ncalls=2, mut=True), budget_s=100),
               'thorough': dict(split=dict(ab=list(range(10)), ncalls=[1, 2, 3]), budget_s=300)},
        bounds='chained references: cons.p = [@L/vw.lit or @L/vw.lit()] (L none / r1 / amb/zz) whose own '
               'bindings hold an unscoped @vw.src() and a scoped one (scope x, r1/r1, r1/r2, r1/zz, zz/r1, '
               'a.b, a.b/r1, amb: repeated components, inherited values, a dotted component bound through '
               'bind_parameter); the ambient scope of the consumer call is built in ten ways (none, one with, '
               'nested withs, config_scope(None) / config_scope("") inside amb, list form, re-entered captured '
               'scope, get_configurable("amb/vw.cons") inside zz, get_configurable(fn) taken inside amb and '
               'called outside, get_configurable under nested withs); 1-3 calls, mutating or not'),
    'c04_raise': dict(
        fn='c04_raise',
        anchors=['gin.config:config_scope', 'gin.config:scoping_wrapper', 'gin.config:__deepcopy__',
                 'gin.config:exit_scope'],
        smoke=[dict(amb=1, bpos=0, bscope=True, exc=0, when=0, mut=True, v0=1, v1=2, v2=3, va=4),
               dict(amb=2, bpos=1, bscope=False, exc=1, when=1, mut=False, v0=1, v1=2, v2=3, va=4),
               dict(amb=0, bpos=2, bscope=True, exc=2, when=2, mut=True, v0=1, v1=2, v2=3, va=4),
               dict(amb=3, bpos=3, bscope=False, exc=0, when=1, mut=True, v0=1, v1=2, v2=3, va=4)],
        tiers={'quick': dict(split=dict(amb=[0, 1, 2, 3]), fixed=dict(mut=True), budget_s=200),
               'thorough': dict(split=dict(amb=[0, 1, 2, 3], when=[0, 1, 2], bpos=[0, 1, 2, 3]), budget_s=300)},
        bounds='a history of three good consumer calls inside an ambient block (none / amb / x/r1 / r1) and one '
               'after it, with one call whose evaluation raises (ValueError / KeyError / a user exception) before '
               'the 1st, 2nd or 3rd good call: the failing reference is scoped or not, first / last in a list, '
               'nested in dict-tuple-list, or one level down inside a scoped reference (@q9/vw.outer1()); every '
               'good call must see its scopes, values and call counts as if nothing had failed'),
    'c04_api': dict(
        fn='c04_api',
        anchors=['gin.config:bind_parameter', 'gin.config:get_bindings', 'gin.config:__deepcopy__',
                 'gin.config:macro', 'gin.config:gin_wrapper'],
        smoke=[dict(ap=0, via=0, evaluate=True, rscope=0, amb=1, qs=1, mut=True, ncalls=2, v0=1, v1=2, v2=3, va=4),
               dict(ap=1, via=1, evaluate=True, rscope=1, amb=2, qs=2, mut=True, ncalls=2, v0=1, v1=2, v2=3, va=4),
               dict(ap=2, via=0, evaluate=True, rscope=2, amb=0, qs=3, mut=True, ncalls=2, v0=1, v1=2, v2=3, va=4),
               dict(ap=3, via=1, evaluate=False, rscope=0, amb=3, qs=4, mut=True, ncalls=2, v0=1, v1=2, v2=3, va=4),
               dict(ap=4, via=0, evaluate=True, rscope=0, amb=1, qs=5, mut=True, ncalls=3, v0=1, v1=2, v2=3, va=4),
               dict(ap=2, via=1, evaluate=False, rscope=1, amb=1, qs=0, mut=True, ncalls=2, v0=1, v1=2, v2=3, va=4)],
        tiers={'quick': dict(split=dict(ap=list(range(5)), via=[0, 1]), fixed=dict(ncalls=2, mut=True),
                             budget_s=200),
               'thorough': dict(split=dict(ap=list(range(5)), qs=list(range(6)), ncalls=[1, 2, 3]), budget_s=300)},
        bounds='values supplied through bind_parameter: [r, r] (ONE reference object twice), a sub-list aliased '
               'three times, a namedtuple, an OrderedDict, a list r, r2, r; reference objects taken from the '
               'store or made by parse_value; evaluated or not; reference scope none/r1/r1/r2; ambient none / '
               'amb / x/r1 / r1; between the calls one of get_bindings(sel) / (amb/sel) / (fn) inside the '
               'ambient scope / resolve_references=False / inherit_scopes=False (results not judged, never '
               'mutated); second parameter bound to a macro whose value is a nested mutable list; 1-3 calls, '
               'mutating or not'),
}

OUTSIDE = ('consumers behind a signature-agnostic decorator (vw.wrapped: a caller positional and a Gin binding for the '
           'same name collide, known limitation); sets / frozensets of references; what gin.get_bindings() RETURNS '
           '(the statement speaks about consumers: only what later consumer calls, query_parameter and config_str '
           'see after such a query is judged; get_bindings(resolve_references=False) hands out the stored container '
           'itself and is never mutated here); whether several occurrences of ONE reference object placed through '
           'bind_parameter share one evaluation per consumer call (observed: they do, and the results are the same '
           'object; both behaviours accepted); which exception a failing evaluation raises (C17); reference scopes '
           'and ambient scopes other than the listed ones; real threads')
ASSUMPTIONS = ['source values are symbolic ints routed through gin.constant (%vwc.V..); scope names, shapes and call '
               'modes are finite pick() choices; texts are parsed and config strings compared natively',
               'a method of an instance made through a SCOPED class reference is required to run under exactly the '
               'reference scope (Gin wraps registered methods of the scoped class); for an unscoped reference the '
               'plain class is delivered and its methods run under the scope active where they are called']
