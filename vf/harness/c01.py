"""C01 - injected arguments: caller's values over scope-layered bindings.

F-inputs : signature shape, active scope stack, how it was entered, per focus
           parameter the caller mode (omitted/positional/keyword) and one
           presence bit per binding scope.
S-inputs : every bound value and every caller value (unbounded ints).
Oracle   : written from the property text (longest applicable prefix wins,
           caller wins over everything, non-prefix scopes never apply,
           nothing => signature default or a TypeError before the body).

Widened vocabulary (second half of the module): c01_scopes2 (the active scope comes from a scoped
selector / scoped reference / captured configurable / failed or clearing config_scope / mutated scope
list: the rule is applied to the scope in force INSIDE the call), c01_keys2 (key spellings, config
text, odd and repeated scope names), c01_full (one signature combining every parameter kind),
c01_shapes2 (__new__-built classes, constructor-less classes, inherited registered constructor) and
c01_values2 (identity of caller objects, None, containers).
"""
import contextlib

import gin
from vf import rt
from vf import world

SC = ['', 's1', 's1/s2', 's1/s2/s3', 's2', 's2/s1']          # binding scopes
ST = [[], ['s1'], ['s1', 's2'], ['s1', 's2', 's3'], ['s2'], ['s2', 's1']]
SHAPES = ['plain', 'dflt', 'kwo', 'var', 'kws', 'Kinit', 'Kreg', 'Kmeth.meth', 'varkwo']
NFORM = 5


@contextlib.contextmanager
def enter(stack, form):
  """Makes `stack` the active scope in one of NFORM ways."""
  with contextlib.ExitStack() as es:
    if form == 0:                       # nested single names
      for s in stack:
        es.enter_context(gin.config_scope(s))
    elif form == 1:                     # 'a/b' shorthand
      if stack:
        es.enter_context(gin.config_scope('/'.join(stack)))
    elif form == 2:                     # explicit list replaces
      es.enter_context(gin.config_scope(list(stack)))
    elif form == 3:                     # explicit list inside an unrelated scope
      es.enter_context(gin.config_scope('zz'))
      es.enter_context(gin.config_scope(list(stack)))
    else:                               # None clears, then names
      es.enter_context(gin.config_scope('zz/yy'))
      es.enter_context(gin.config_scope(None))
      for s in stack:
        es.enter_context(gin.config_scope(s))
    yield


def model_value(active, present, values, depth):
  """Value at the longest applicable prefix, or None (the property's rule)."""
  best = None
  best_len = -1
  for i in range(depth):
    if not present[i]:
      continue
    comps = SC[i].split('/') if SC[i] else []
    if comps == active[:len(comps)] and len(comps) > best_len:
      best, best_len = values[i], len(comps)
  return best_len >= 0, best


def c01_inject(nsc: int, shape: int, stack: int, form: int, ma: int, mb: int,
               pa0: bool, pa1: bool, pa2: bool, pa3: bool, pa4: bool, pa5: bool,
               pb0: bool, pb1: bool, pb2: bool, pb3: bool, pb4: bool, pb5: bool,
               va0: int, va1: int, va2: int, va3: int, va4: int, va5: int,
               vb0: int, vb1: int, vb2: int, vb3: int, vb4: int, vb5: int,
               ca: int, cb: int, cx: int) -> bool:
  """
  pre: 0 <= shape < 9 and 0 <= stack < nsc and 0 <= form < 5
  pre: 0 <= ma < 3 and 0 <= mb < 3
  """
  world.fresh()
  shape = rt.pick(shape, 9)
  stack = rt.pick(stack, nsc)
  form = rt.pick(form, NFORM)
  ma = rt.pick(ma, 3)
  mb = rt.pick(mb, 3)
  name = SHAPES[shape]
  if mb == 1 and ma != 1:
    rt.discard()                        # positional only as a signature prefix
  if name == 'kwo' and (ma == 1 or mb == 1):
    rt.discard()
  if name in ('kws', 'varkwo') and mb == 1:
    rt.discard()                        # b is **kwargs-only / keyword-only there
  pa = [pa0, pa1, pa2, pa3, pa4, pa5]
  pb = [pb0, pb1, pb2, pb3, pb4, pb5]
  va = [va0, va1, va2, va3, va4, va5]
  vb = [vb0, vb1, vb2, vb3, vb4, vb5]
  pres_a, pres_b = [], []
  for i in range(6):
    if i < nsc and rt.flag(pa[i]):
      gin.bind_parameter((SC[i], 'vw.' + name, 'a'), va[i])
      pres_a.append(True)
    else:
      pres_a.append(False)
  for i in range(6):
    if i < nsc and rt.flag(pb[i]):
      # string-key form for b, tuple-key form for a
      gin.bind_parameter((SC[i] + '/' if SC[i] else '') + 'vw.' + name + '.b', vb[i])
      pres_b.append(True)
    else:
      pres_b.append(False)
  active = ST[stack]
  pos = []
  kw = {}
  if ma == 1:
    pos.append(ca)
  elif ma == 2:
    kw['a'] = ca
  if mb == 1:
    pos.append(cb)
  elif mb == 2:
    kw['b'] = cb
  extra = name == 'var' and ma == 1 and mb == 1
  if extra:
    pos.append(cx)
  surplus = name == 'varkwo' and ma == 1      # surplus positionals go to *rest, never to keyword-only b
  if surplus:
    pos.extend([cx, cx])

  # ---- oracle ---------------------------------------------------------
  has_a, bound_a = model_value(active, pres_a, va, nsc)
  has_b, bound_b = model_value(active, pres_b, vb, nsc)
  dflt_a = name not in ('plain', 'var')
  dflt_b = name != 'plain'
  if ma:
    exp_a, got_a = ca, True
  elif has_a:
    exp_a, got_a = bound_a, True
  else:
    exp_a, got_a = world.DA, dflt_a
  if mb:
    exp_b, got_b = cb, True
  elif has_b:
    exp_b, got_b = bound_b, True
  else:
    exp_b, got_b = world.DB, dflt_b
  rt.sig(('inject', name, stack, form, ma, mb, tuple(pres_a), tuple(pres_b)),
         nontrivial=(has_a and not ma) or (has_b and not mb))

  # ---- the real code --------------------------------------------------
  err = None
  with enter(active, form):
    inner_scope = gin.current_scope()
    try:
      if name == 'Kmeth.meth':
        with gin.config_scope(None):
          obj = gin.get_configurable('vw.Kmeth')()
        obj.meth(*pos, **kw)
      elif name == 'Kreg':
        gin.get_configurable(world.Kreg)(*pos, **kw)
      elif name == 'Kinit':
        world.Kinit(*pos, **kw)
      else:
        getattr(world, name)(*pos, **kw)
    except TypeError as e:
      err = e
  if inner_scope != active or gin.current_scope() != []:
    return False

  if not (got_a and got_b):
    # nothing supplies a parameter without default: TypeError before the body,
    # and the message still names the configurable.
    if err is None or world.LOG:
      return False
    with rt.native():
      return name.split('.')[-1] in str(err)
  if err is not None or len(world.LOG) != 1:
    return False
  _, args, kwargs, seen_scope = world.LOG[0]
  if seen_scope != active:
    return False
  if name == 'varkwo':
    if not rt.same('a', args[0], exp_a) or list(kwargs) != ['b'] or not rt.same('b', kwargs['b'], exp_b):
      return False
    if surplus:
      return len(args) == 3 and rt.same('x', args[1], cx) and rt.same('x', args[2], cx)
    return len(args) == 1
  if name == 'kws':
    if not rt.same('a', args[0], exp_a):
      return False
    if mb or has_b:
      return list(kwargs) == ['b'] and rt.same('b', kwargs['b'], exp_b)
    return kwargs == {}
  if extra:
    if len(args) != 3 or not rt.same('x', args[2], cx):
      return False
  elif len(args) != 2:
    return False
  return rt.same('a', args[0], exp_a) and rt.same('b', args[1], exp_b) and not kwargs


def c01_introspect(nsc: int, shape: int, stack: int, q: int,
                   pa0: bool, pa1: bool, pa2: bool, pa3: bool, pa4: bool, pa5: bool,
                   pb0: bool, pb1: bool, pb2: bool,
                   va0: int, va1: int, va2: int, va3: int, va4: int, va5: int,
                   vb0: int, vb1: int, vb2: int) -> bool:
  """
  pre: 0 <= shape < 8 and 0 <= stack < nsc and 0 <= q < nsc
  """
  world.fresh()
  shape = rt.pick(shape, 8)
  stack = rt.pick(stack, nsc)
  q = rt.pick(q, nsc)
  name = SHAPES[shape]
  pa = [pa0, pa1, pa2, pa3, pa4, pa5]
  va = [va0, va1, va2, va3, va4, va5]
  pb = [pb0, pb1, pb2, False, False, False]
  vb = [vb0, vb1, vb2, 0, 0, 0]
  pres_a, pres_b = [], []
  for i in range(6):
    if i < nsc and rt.flag(pa[i]):
      gin.bind_parameter((SC[i], 'vw.' + name, 'a'), va[i])
      pres_a.append(True)
    else:
      pres_a.append(False)
    if i < nsc and i < 3 and rt.flag(pb[i]):
      gin.bind_parameter((SC[i], name, 'b'), vb[i])
      pres_b.append(True)
    else:
      pres_b.append(False)
  active = ST[stack]
  has_a, bound_a = model_value(active, pres_a, va, nsc)
  has_b, bound_b = model_value(active, pres_b, vb, nsc)
  want = {}
  if has_a:
    want['a'] = bound_a
  if has_b:
    want['b'] = bound_b
  rt.sig(('introspect', name, stack, q, tuple(pres_a), tuple(pres_b)),
         nontrivial=has_a or has_b)
  with enter(active, 0):
    got = gin.get_bindings('vw.' + name)
    got_obj = None
    if name in ('plain', 'dflt', 'kwo', 'var', 'kws', 'Kinit', 'Kreg'):
      got_obj = gin.get_bindings(getattr(world, name))
  if got != want or (got_obj is not None and got_obj != want):
    return False
  # strict (non-inheriting) lookup: only the exact scope
  exact = {}
  if pres_a[q]:
    exact['a'] = va[q]
  if pres_b[q]:
    exact['b'] = vb[q]
  sel = (SC[q] + '/' if SC[q] else '') + 'vw.' + name
  if gin.get_bindings(sel, inherit_scopes=False) != exact:
    return False
  # query_parameter sees the value bound at exactly the queried scope
  try:
    v = gin.query_parameter(sel + '.a')
    if not pres_a[q] or not rt.same('qa', v, va[q]):
      return False
  except ValueError:
    if pres_a[q]:
      return False
  return True


# =====================================================================================================
# Widened vocabulary (review items 4, 6-12; items 1, 2, 3, 5 as separately reported shapes).
# Extra probe configurables live under the Gin module path `vw01`; they are registered once per process.
# =====================================================================================================
import functools as _functools
import typing as _typing

from gin import config as gc

DA, DB, DC = world.DA, world.DB, -103


class NoCopy:
  """A caller value that cannot be copied: it can only arrive as the very same object."""

  def __deepcopy__(self, memo):
    raise RuntimeError('NoCopy objects must never be copied')

  def __copy__(self):
    raise RuntimeError('NoCopy objects must never be copied')


def _define_probes():
  if 'vw01.full' in gc._REGISTRY:       # idempotent (the module may be imported under two names)
    return
  rec = world.rec

  @gin.configurable(module='vw01')
  def full(a, b=DB, *rest, c=DC, **kw):
    rec('full', a, b, *rest, c=c, **kw)
    return (a, b, rest, c, kw)

  @gin.configurable(module='vw01')
  class NT(_typing.NamedTuple):      # constructed through a generated __new__(_cls, a=DA, b=DB)
    a: int = DA
    b: int = DB

  @gin.configurable(module='vw01')
  class KNew:                        # only __new__, no __init__ of its own

    def __new__(cls, a=DA, b=DB):
      rec('KNew', a, b)
      return object.__new__(cls)

  @gin.configurable(module='vw01')
  class DSub(dict):                  # no constructor of its own: builtin **kwargs shape
    pass

  @gin.register(module='vw01')
  class DReg(dict):
    pass

  @gin.configurable(module='vw01')
  class KBase:

    def __init__(self, a=DA, b=DB):
      rec(type(self).__name__, a, b)

  @gin.configurable(module='vw01')
  class KSub(KBase):                 # registered subclass inheriting a registered constructor
    pass

  # ---- shapes outside the quantifier's list (reported separately, see LIMITS below) ----
  @gin.configurable(module='vw01')
  def posonly(a=DA, /, b=DB):
    rec('posonly', a, b)
    return (a, b)

  class _CallObj:

    def __call__(self, a=DA, b=DB):
      rec('callobj', a, b)
      return (a, b)

    def m(self, a=DA, b=DB):
      rec('bmeth', a, b)
      return (a, b)

  gin.external_configurable(_CallObj(), 'callobj', module='vw01')
  gin.external_configurable(_CallObj().m, 'bmeth', module='vw01')

  @gin.register(module='vw01')
  class NC:

    def __init__(self, new_cls=DA, b=DB):
      rec('NC', new_cls, b)


_define_probes()


def _w(sel):
  return gc._REGISTRY[sel].wrapper


def model_at(active, binds):
  """(has, value) of the binding at the longest scope in `binds` [(scope string, value)] that is a prefix of
  `active` - the property's rule, for arbitrary scope strings."""
  best, best_len = None, -1
  for scope, v in binds:
    comps = scope.split('/') if scope else []
    if comps == active[:len(comps)] and len(comps) > best_len:
      best, best_len = v, len(comps)
  return best_len >= 0, best


def _call_args(ma, mb, ca, cb):
  pos, kw = [], {}
  if ma == 1:
    pos.append(ca)
  elif ma == 2:
    kw['a'] = ca
  if mb == 1:
    pos.append(cb)
  elif mb == 2:
    kw['b'] = cb
  return pos, kw


# ---- c01_scopes2: the active scope is established by something other than plain config_scope nesting ----------
# (history kind, target): targets 0 dflt (function), 1 Kreg (gin.register class), 2 Kinit (gin.configurable
# class), 3 Kmeth.meth (registered method of a registered class)
HIST = [
    'sel1',       # 0  inside ['s2']: get_configurable('s1/<sel>')(...), then a plain call in the same block
    'sel2',       # 1  inside ['s2','s1']: get_configurable('s1/s2/<sel>')(...)
    'ref',        # 2  text `s2/vw.cons.p = @s1/<sel>`; inside ['s2']: cons() returns it, then it is called
    'refcall',    # 3  text `vw.cons.p = @s1/s2/<sel>()` evaluated while cons() runs inside ['s2','s1']
    'capture',    # 4  inside ['s2']: g = get_configurable('<sel>'); inside ['s1']: g(...)
    'captureobj', # 5  inside ['s1','s2']: g = get_configurable(<object>); at the root: g(...)
    'badname',    # 6  inside ['s1']: config_scope('bad name') raises; then a call
    'badtype',    # 7  inside ['s1','s2']: config_scope(5) and config_scope(['s2', 'no good']) raise; then a call
    'empty',      # 8  inside ['s1']: config_scope('') clears for the inner call; the outer call sees ['s1'] again
    'cmoutside',  # 9  cm = config_scope('s2') created at the root, entered inside ['s1']
    'alias',      # 10 lst = ['s1']; with config_scope(lst): call; lst.append('s2'); call
    'inst',       # 11 (method) inside ['s1']: obj = get_configurable('vw.Kmeth')(); inside ['s2']: obj.meth(...)
    'instsel',    # 12 (method) obj = get_configurable('s1/s2/vw.Kmeth')() at the root; inside ['s2']: obj.meth(...)
]
KT = [(h, t) for t in range(3) for h in range(11)] + [(11, 3), (12, 3)]
TGT_SEL = ['vw.dflt', 'vw.Kreg', 'vw.Kinit', 'vw.Kmeth.meth']


def c01_scopes2(kt: int, ma: int, mb: int,
                pa0: bool, pa1: bool, pa2: bool, pa3: bool, pa4: bool, pa5: bool, pb1: bool,
                va0: int, va1: int, va2: int, va3: int, va4: int, va5: int, vb1: int,
                ca: int, cb: int) -> bool:
  """
  pre: 0 <= kt < 35 and 0 <= ma < 3 and 0 <= mb < 3
  """
  world.fresh()
  kt = rt.pick(kt, len(KT))
  ma = rt.pick(ma, 3)
  mb = rt.pick(mb, 3)
  hist, tgt = KT[kt]
  if mb == 1 and ma != 1:
    rt.discard()
  if hist == 3 and (ma or mb):
    rt.discard()                        # an evaluated reference is called by Gin, without arguments
  sel = TGT_SEL[tgt]
  cs = gin.config_scope
  binds_a = []
  for i, (p, v) in enumerate(((pa0, va0), (pa1, va1), (pa2, va2), (pa3, va3), (pa4, va4), (pa5, va5))):
    if rt.flag(p):
      gin.bind_parameter((SC[i], sel, 'a'), v)
      binds_a.append((SC[i], v))
  binds_b = []
  if rt.flag(pb1):
    gin.bind_parameter('s1/' + sel + '.b', vb1)
    binds_b.append(('s1', vb1))
  rt.sig(('scopes2', HIST[hist], tgt, ma, mb, tuple(s for s, _ in binds_a), bool(binds_b)),
         nontrivial=bool(binds_a))
  pos, kw = _call_args(ma, mb, ca, cb)
  if tgt == 0:
    root_fn, obj_key = world.dflt, world.dflt
  elif tgt == 1:
    root_fn, obj_key = gin.get_configurable(world.Kreg), world.Kreg
  elif tgt == 2:
    root_fn, obj_key = world.Kinit, world.Kinit
  else:
    root_fn = obj_key = None

  # expectations, one per recorded call of the target: (scope rule, caller arguments used)
  #   ('is', [...])    the scope seen inside the call must be exactly this (config_scope's own contract)
  #   ('ends', [...])  it must end with these components (a scoped selector applies its scope; whether it
  #                    replaces or extends the caller's stack is not the property's business)
  #   ('in', [..])     one of several readings
  #   None             whatever scope is in force inside the call is the "currently active scope"
  exp = []
  ok_stack = True
  if hist == 0:
    with cs('s2'):
      gin.get_configurable('s1/' + sel)(*pos, **kw)
      exp.append((('ends', ['s1']), True))
      ok_stack = ok_stack and gin.current_scope() == ['s2']
      root_fn()
      exp.append((('is', ['s2']), False))
  elif hist == 1:
    with cs('s2'):
      with cs('s1'):
        gin.get_configurable('s1/s2/' + sel)(*pos, **kw)
        exp.append((('ends', ['s1', 's2']), True))
        ok_stack = ok_stack and gin.current_scope() == ['s2', 's1']
  elif hist == 2:
    with rt.native():
      gin.parse_config('s2/vw.cons.p = @s1/' + sel + '\n')
    with cs('s2'):
      p = world.cons()[0]
      p(*pos, **kw)
      exp.append((('ends', ['s1']), True))
      ok_stack = ok_stack and gin.current_scope() == ['s2']
  elif hist == 3:
    with rt.native():
      gin.parse_config('vw.cons.p = @s1/s2/' + sel + '()\n')
    with cs('s2/s1'):
      world.cons()
      exp.append((('ends', ['s1', 's2']), False))
      ok_stack = ok_stack and gin.current_scope() == ['s2', 's1']
  elif hist == 4:
    with cs('s2'):
      g = gin.get_configurable(sel)
    with cs('s1'):
      g(*pos, **kw)
      exp.append((None, True))
      ok_stack = ok_stack and gin.current_scope() == ['s1']
  elif hist == 5:
    with cs('s1/s2'):
      g = gin.get_configurable(obj_key)
    g(*pos, **kw)
    exp.append((None, True))
  elif hist == 6:
    with cs('s1'):
      try:
        with cs('bad name'):
          pass
      except ValueError:
        pass
      root_fn(*pos, **kw)
      exp.append((('is', ['s1']), True))
  elif hist == 7:
    with cs('s1/s2'):
      for bad in (5, ['s2', 'no good']):
        try:
          with cs(bad):
            pass
        except ValueError:
          pass
      root_fn(*pos, **kw)
      exp.append((('is', ['s1', 's2']), True))
  elif hist == 8:
    with cs('s1'):
      with cs(''):
        root_fn(*pos, **kw)
        exp.append((('is', []), True))
      root_fn()
      exp.append((('is', ['s1']), False))
  elif hist == 9:
    cm = cs('s2')
    with cs('s1'):
      with cm:
        root_fn(*pos, **kw)
        exp.append((('in', [['s1', 's2'], ['s2']]), True))
      ok_stack = ok_stack and gin.current_scope() == ['s1']
  elif hist == 10:
    lst = ['s1']
    with cs(lst):
      root_fn(*pos, **kw)
      exp.append((None, True))
      lst.append('s2')
      root_fn()
      exp.append((None, False))
  elif hist == 11:
    with cs('s1'):
      obj = gin.get_configurable('vw.Kmeth')()
    with cs('s2'):
      obj.meth(*pos, **kw)
      exp.append((None, True))
      ok_stack = ok_stack and gin.current_scope() == ['s2']
  else:
    obj = gin.get_configurable('s1/s2/vw.Kmeth')()
    with cs('s2'):
      obj.meth(*pos, **kw)
      exp.append((None, True))
      ok_stack = ok_stack and gin.current_scope() == ['s2']
  if not ok_stack or gin.current_scope() != []:
    return rt.no('the scope stack was not what config_scope left / not restored')

  short = sel.split('.', 1)[1]
  calls = [r for r in world.LOG if r[0] == short]
  if len(calls) != len(exp):
    return rt.no('number of recorded calls')
  for (_, args, kwargs, seen), (rule, used) in zip(calls, exp):
    if rule is not None:
      how, want = rule
      if how == 'is' and seen != want:
        return rt.no('scope inside the call')
      if how == 'ends' and seen[len(seen) - len(want):] != want:
        return rt.no('scoped selector did not apply its scope')
      if how == 'in' and seen not in want:
        return rt.no('scope inside the call (neither reading)')
    has_a, bound_a = model_at(seen, binds_a)
    has_b, bound_b = model_at(seen, binds_b)
    exp_a = ca if (used and ma) else (bound_a if has_a else DA)
    exp_b = cb if (used and mb) else (bound_b if has_b else DB)
    if len(args) != 2 or kwargs:
      return rt.no('shape of the recorded call')
    if not (rt.same('a', args[0], exp_a) and rt.same('b', args[1], exp_b)):
      return False
  return True


# ---- c01_keys2: other ways of writing the binding key / other scope names ---------------------------------------
KF = ['tuple', 'str', 'tuple-partial', 'str-partial', 'text', 'text-partial', 'text-macro-level1', 'text-block']
CHAIN = [['s1', 's1'], ['x_2', 'S9'], ['s.x', 'm.n_0']]       # [2] dotted names: not writable as config text
OFFSIDE = ['s1/s1/s1', 'S9', 'm.n_0/s.x']                     # never a prefix of any stack of the same chain
KC = [(f, c) for f in range(8) for c in range(2)] + [(f, 2) for f in range(4)]


def c01_keys2(kc: int, depth: int, ef: int, ma: int, pb: bool,
              p0: bool, p1: bool, p2: bool, p3: bool,
              v0: int, v1: int, v2: int, v3: int, vb: int, ca: int) -> bool:
  """
  pre: 0 <= kc < 20 and 0 <= depth < 3 and 0 <= ef < 3 and 0 <= ma < 3
  """
  world.fresh()
  kc = rt.pick(kc, len(KC))
  depth = rt.pick(depth, 3)
  ef = rt.pick(ef, 3)
  ma = rt.pick(ma, 3)
  kf, ch = KC[kc]
  chain = CHAIN[ch]
  if depth < 2 and ef:
    rt.discard()                          # the way of entering only differs for two components
  scopes = ['', chain[0], chain[0] + '/' + chain[1], OFFSIDE[ch]]
  vals = [v0, v1, v2, v3]
  present = [rt.flag(p0), rt.flag(p1), rt.flag(p2), rt.flag(p3)]
  pb = rt.flag(pb)
  rt.sig(('keys2', KF[kf], ch, depth, ef, ma, tuple(present), pb), nontrivial=any(present[:depth + 1]))
  lines = []
  for i in range(4):
    if not present[i]:
      continue
    pre = scopes[i] + '/' if scopes[i] else ''
    if kf == 0:
      gin.bind_parameter((scopes[i], 'vw.dflt', 'a'), vals[i])
    elif kf == 1:
      gin.bind_parameter(pre + 'vw.dflt.a', vals[i])
    elif kf == 2:
      gin.bind_parameter((scopes[i], 'dflt', 'a'), vals[i])
    elif kf == 3:
      gin.bind_parameter(pre + 'dflt.a', vals[i])
    else:
      gin.constant('vwc.A%d' % i, vals[i])
      if kf == 4:
        lines.append('%svw.dflt.a = %%vwc.A%d' % (pre, i))
      elif kf == 5:
        lines.append('%sdflt.a = %%vwc.A%d' % (pre, i))
      elif kf == 6:
        if i == 1:
          lines.append('MA1 = %vwc.A1')
          lines.append('%svw.dflt.a = %%MA1' % pre)
        else:
          lines.append('%svw.dflt.a = %%vwc.A%d' % (pre, i))
      else:
        lines.append('%svw.dflt:' % pre)
        lines.append('  a = %%vwc.A%d' % i)
  if pb:
    gin.bind_parameter((chain[0], 'vw.dflt', 'b'), vb)
  if lines:
    with rt.native():
      gin.parse_config('\n'.join(lines) + '\n')
  active = chain[:depth]
  with contextlib.ExitStack() as es:
    if ef == 0:
      for s in active:
        es.enter_context(gin.config_scope(s))
    elif ef == 1:
      es.enter_context(gin.config_scope('/'.join(active)))
    else:
      es.enter_context(gin.config_scope(list(active)))
    inner = gin.current_scope()
    if ma == 1:
      world.dflt(ca)
    elif ma == 2:
      world.dflt(a=ca)
    else:
      world.dflt()
  if inner != active or gin.current_scope() != []:
    return rt.no('scope stack')
  calls = [r for r in world.LOG if r[0] == 'dflt']
  if len(calls) != 1:
    return rt.no('number of recorded calls')
  _, args, kwargs, seen = calls[0]
  if seen != active or len(args) != 2 or kwargs:
    return rt.no('scope / shape of the recorded call')
  has_a, bound_a = model_at(active, [(scopes[i], vals[i]) for i in range(4) if present[i]])
  exp_a = ca if ma else (bound_a if has_a else DA)
  exp_b = vb if (pb and depth >= 1) else DB
  return rt.same('a', args[0], exp_a) and rt.same('b', args[1], exp_b)


# ---- c01_full: one signature in which positional prefix, *rest, keyword-only and **kw interact ---------------
def c01_full(ma: int, mb: int, xr: bool, mc: int, mk: int, stack: int,
             pa0: bool, pa1: bool, pb1: bool, pc0: bool, pc1: bool, pk1: bool,
             va0: int, va1: int, vb1: int, vc0: int, vc1: int, vk1: int,
             ca: int, cb: int, cc: int, ck: int, cx: int) -> bool:
  """
  pre: 0 <= ma < 3 and 0 <= mb < 3 and 0 <= mc < 2 and 0 <= mk < 2 and 0 <= stack < 3
  """
  world.fresh()
  ma = rt.pick(ma, 3)
  mb = rt.pick(mb, 3)
  mc = rt.pick(mc, 2)
  mk = rt.pick(mk, 2)
  stack = rt.pick(stack, 3)
  xr = rt.flag(xr)
  if mb == 1 and ma != 1:
    rt.discard()
  if xr and not (ma == 1 and mb == 1):
    rt.discard()                          # surplus positionals need the whole named prefix
  active = [[], ['s1'], ['s2']][stack]
  binds = {'a': [], 'b': [], 'c': [], 'k': []}
  for name, scope, p, v in (('a', '', pa0, va0), ('a', 's1', pa1, va1), ('b', 's1', pb1, vb1),
                            ('c', '', pc0, vc0), ('c', 's1', pc1, vc1), ('k', 's1', pk1, vk1)):
    if rt.flag(p):
      gin.bind_parameter((scope, 'vw01.full', name), v)
      binds[name].append((scope, v))
  rt.sig(('full', ma, mb, xr, mc, mk, stack, tuple((n, tuple(s for s, _ in binds[n])) for n in 'abck')),
         nontrivial=any(binds[n] for n in 'abck'))
  pos, kw = _call_args(ma, mb, ca, cb)
  if xr:
    pos.extend([cx, cx])
  if mc:
    kw['c'] = cc
  if mk:
    kw['k'] = ck
  has = {}
  val = {}
  for n in 'abck':
    has[n], val[n] = model_at(active, binds[n])
  err = None
  with contextlib.ExitStack() as es:
    for s in active:
      es.enter_context(gin.config_scope(s))
    try:
      _w('vw01.full')(*pos, **kw)
    except TypeError as e:
      err = e
  if gin.current_scope() != []:
    return rt.no('scope stack not restored')
  if not ma and not has['a']:
    # `a` has no default: TypeError before the body
    return err is not None and not world.LOG
  if err is not None or len(world.LOG) != 1:
    return rt.no('unexpected error / number of calls')
  _, args, kwargs, seen = world.LOG[0]
  if seen != active:
    return rt.no('scope inside the call')
  exp_a = ca if ma else val['a']
  exp_b = cb if mb else (val['b'] if has['b'] else DB)
  exp_c = cc if mc else (val['c'] if has['c'] else DC)
  if len(args) != (4 if xr else 2):
    return rt.no('positional arguments')
  if xr and not (rt.same('x', args[2], cx) and rt.same('x', args[3], cx)):
    return False
  if not (rt.same('a', args[0], exp_a) and rt.same('b', args[1], exp_b)):
    return False
  want_keys = ['c'] + (['k'] if (mk or has['k']) else [])
  if sorted(kwargs) != want_keys:
    return rt.no('keyword arguments')
  if not rt.same('c', kwargs['c'], exp_c):
    return False
  if mk or has['k']:
    return rt.same('k', kwargs['k'], ck if mk else val['k'])
  return True


# ---- c01_shapes2: classes built through __new__ / without a constructor / inheriting a registered one --------
SHAPES2 = ['NT', 'KNew', 'DSub', 'DReg', 'KSub',
           # shapes the quantifier does not list; the combinations Gin cannot serve are discarded (LIMITS)
           'posonly', 'wrapped', 'callobj', 'bmeth', 'NC']
LIMITS = ('outside the quantified shapes, discarded: positional-only parameter with an applicable binding and no '
          'caller value (Gin injects by keyword); signature-agnostic functools.wraps wrapper, callable instance, '
          'bound method and a subclass inheriting a registered constructor called POSITIONALLY for a parameter '
          'that also has an applicable binding (Gin cannot name the positional); a constructor parameter called '
          '`new_cls` on a gin.register class when bound or passed by keyword')


def c01_shapes2(shape: int, stack: int, ma: int, mb: int, pbase: bool,
                pa0: bool, pa1: bool, pa4: bool, pb0: bool, pb1: bool,
                va0: int, va1: int, va4: int, vb0: int, vb1: int, vbase: int, ca: int, cb: int) -> bool:
  """
  pre: 0 <= shape < 10 and 0 <= stack < 3 and 0 <= ma < 3 and 0 <= mb < 3
  """
  world.fresh()
  shape = rt.pick(shape, len(SHAPES2))
  stack = rt.pick(stack, 3)
  ma = rt.pick(ma, 3)
  mb = rt.pick(mb, 3)
  name = SHAPES2[shape]
  if mb == 1 and ma != 1:
    rt.discard()
  if name in ('DSub', 'DReg') and (ma == 1 or mb == 1):
    rt.discard()                          # a positional argument of dict() is a mapping, not a parameter
  pbase = rt.flag(pbase)
  if pbase and name != 'KSub':
    rt.discard()
  if name == 'posonly' and ma == 2:
    rt.discard()                          # Python itself forbids it
  an = 'new_cls' if name == 'NC' else 'a'
  sel = 'vw.wrapped' if name == 'wrapped' else 'vw01.' + name
  active = [[], ['s1'], ['s2']][stack]
  binds_a, binds_b = [], []
  for scope, p, v in (('', pa0, va0), ('s1', pa1, va1), ('s2', pa4, va4)):
    if rt.flag(p):
      gin.bind_parameter((scope, sel, an), v)
      binds_a.append((scope, v))
  for scope, p, v in (('', pb0, vb0), ('s1', pb1, vb1)):
    if rt.flag(p):
      gin.bind_parameter((scope + '/' if scope else '') + sel + '.b', v)
      binds_b.append((scope, v))
  if pbase:
    gin.bind_parameter('vw01.KBase.b', vbase)
  has_a, bound_a = model_at(active, binds_a)
  has_b, bound_b = model_at(active, binds_b)
  # ---- combinations Gin is known not to serve, for shapes outside the quantifier's list (see LIMITS) ----
  if name == 'posonly' and has_a and ma == 0:
    rt.discard()
  if name in ('wrapped', 'callobj', 'bmeth', 'KSub') and ((ma == 1 and has_a) or (mb == 1 and has_b)):
    rt.discard()
  if name == 'NC' and ((has_a and ma == 0) or ma == 2):
    rt.discard()
  rt.sig(('shapes2', name, stack, ma, mb, pbase, tuple(s for s, _ in binds_a), tuple(s for s, _ in binds_b)),
         nontrivial=(has_a and not ma) or (has_b and not mb))
  pos, kw = [], {}
  if ma == 1:
    pos.append(ca)
  elif ma == 2:
    kw[an] = ca
  if mb == 1:
    pos.append(cb)
  elif mb == 2:
    kw['b'] = cb
  exp_a = ca if ma else (bound_a if has_a else DA)
  exp_b = cb if mb else (bound_b if has_b else DB)
  with contextlib.ExitStack() as es:
    for s in active:
      es.enter_context(gin.config_scope(s))
    res = _w(sel)(*pos, **kw)
  if gin.current_scope() != []:
    return rt.no('scope stack not restored')
  if name in ('DSub', 'DReg'):
    if world.LOG or not isinstance(res, dict):
      return rt.no('dict subclass result')
    keys = sorted(res)
    want = (['a'] if (ma or has_a) else []) + (['b'] if (mb or has_b) else [])
    if keys != want:
      return rt.no('keys of the constructed dict')     # unbound and not passed: not supplied at all
    if 'a' in want and not rt.same('a', res['a'], exp_a):
      return False
    if 'b' in want and not rt.same('b', res['b'], exp_b):
      return False
    return True
  if name == 'NT':
    if world.LOG or len(res) != 2:
      return rt.no('NamedTuple result')
    return rt.same('a', res[0], exp_a) and rt.same('b', res[1], exp_b)
  if len(world.LOG) != 1:
    return rt.no('number of recorded calls')
  _, args, kwargs, seen = world.LOG[0]
  if seen != active or len(args) != 2 or kwargs:
    return rt.no('scope / shape of the recorded call')
  if not rt.same('a', args[0], exp_a):
    return False
  if pbase and not mb and not has_b:
    # nothing binds KSub.b; the inherited constructor is itself the configurable KBase whose b is bound.
    # "left to the function's own defaults": both the plain default and KBase's configured value are readings.
    return rt.same('b', args[1], DB) or rt.same('b', args[1], vbase)
  return rt.same('b', args[1], exp_b)


# ---- c01_values2: value kinds other than ints (identity of caller values, None, containers) --------------------
VSHAPES = ['dflt', 'kwo', 'Kreg', 'varkwo']
CALLER_OBJS = [[1, [2]], None, NoCopy()]          # created once, outside any tracing
CALLER_B = {'k': [3]}
BOUND_LIST = [4, [5], {'z': 6}]
BOUND = [None, 7, None, BOUND_LIST]               # binding kinds: 0 absent, 1 int, 2 None, 3 list


def c01_values2(shape: int, stack: int, ma: int, cv: int, mb: int, bk0: int, bk1: int) -> bool:
  """
  pre: 0 <= shape < 4 and 0 <= stack < 2 and 0 <= ma < 3 and 0 <= cv < 3 and 0 <= mb < 2 and 0 <= bk0 < 4 and 0 <= bk1 < 4
  """
  world.fresh()
  shape = rt.pick(shape, 4)
  stack = rt.pick(stack, 2)
  ma = rt.pick(ma, 3)
  cv = rt.pick(cv, 3)
  mb = rt.pick(mb, 2)
  bk0 = rt.pick(bk0, 4)
  bk1 = rt.pick(bk1, 4)
  name = VSHAPES[shape]
  if name == 'kwo' and ma == 1:
    rt.discard()
  if ma == 0 and cv:
    rt.discard()                          # no caller value: its kind is irrelevant
  rt.sig(('values2', name, stack, ma, cv, mb, bk0, bk1), nontrivial=bool(bk0 or bk1))
  if bk0:
    gin.bind_parameter('vw.' + name + '.a', BOUND[bk0])
  if bk1:
    gin.bind_parameter('s1/vw.' + name + '.a', BOUND[bk1])
  gin.bind_parameter('s1/vw.' + name + '.b', [8, 9])
  active = ['s1'] if stack else []
  obj = CALLER_OBJS[cv]
  pos, kw = [], {}
  if ma == 1:
    pos.append(obj)
  elif ma == 2:
    kw['a'] = obj
  if mb:
    kw['b'] = CALLER_B
  fn = gin.get_configurable(world.Kreg) if name == 'Kreg' else getattr(world, name)
  with contextlib.ExitStack() as es:
    for s in active:
      es.enter_context(gin.config_scope(s))
    fn(*pos, **kw)
  if len(world.LOG) != 1:
    return rt.no('number of recorded calls')
  _, args, kwargs, seen = world.LOG[0]
  if seen != active:
    return rt.no('scope inside the call')
  got_a = args[0]
  got_b = kwargs['b'] if name == 'varkwo' else args[1]
  # identity first, on the objects exactly as recorded (realising would copy them)
  if mb and got_b is not CALLER_B:
    return rt.no('caller keyword object was replaced')
  if ma and got_a is not obj:
    return rt.no('caller value did not reach the function unchanged (identity)')
  with rt.native():
    if not mb:
      got_b = rt.realize(got_b)
    if not ma:
      got_a = rt.realize(got_a)
    # b: the caller's dict is the very object passed; otherwise the list bound under s1, or the default
    if mb:
      pass
    elif stack:
      if type(got_b) is not list or got_b != [8, 9]:
        return rt.no('bound list')
    elif got_b != DB:
      return rt.no('default of b')
    if ma:
      return True
    kind = bk1 if (stack and bk1) else bk0
    if kind == 0:
      return got_a == DA
    if kind == 1:
      return type(got_a) is int and got_a == 7
    if kind == 2:
      return got_a is None                # a bound None is a value, not "no binding"
    return type(got_a) is list and got_a == [4, [5], {'z': 6}] and BOUND_LIST == [4, [5], {'z': 6}]


def _smoke(base, variants):
  out = []
  for v in variants:
    d = dict(base)
    d.update(v)
    out.append(d)
  return out


_S2 = dict(kt=0, ma=0, mb=2, pa0=True, pa1=True, pa2=True, pa3=False, pa4=True, pa5=False, pb1=True,
           va0=1, va1=2, va2=3, va3=4, va4=5, va5=6, vb1=7, ca=13, cb=14)
_K2 = dict(kc=0, depth=2, ef=0, ma=0, pb=True, p0=True, p1=True, p2=True, p3=True, v0=1, v1=2, v2=3, v3=4,
           vb=5, ca=13)
_F2 = dict(ma=1, mb=1, xr=True, mc=0, mk=0, stack=1, pa0=True, pa1=True, pb1=True, pc0=True, pc1=True, pk1=True,
           va0=1, va1=2, vb1=3, vc0=4, vc1=5, vk1=6, ca=13, cb=14, cc=15, ck=16, cx=17)
_SH2 = dict(shape=0, stack=1, ma=0, mb=2, pbase=False, pa0=True, pa1=True, pa4=True, pb0=True, pb1=False,
            va0=1, va1=2, va4=3, vb0=4, vb1=5, vbase=6, ca=13, cb=14)
_V2 = dict(shape=0, stack=1, ma=0, cv=0, mb=1, bk0=1, bk1=2)

_KT_QUICK = [KT.index((h, 0)) for h in range(11)] + [KT.index((h, 1)) for h in (0, 2, 3, 4)] + \
    [KT.index((11, 3)), KT.index((12, 3))]

_FALSE6 = dict(pa5=False, pb5=False)

# ---- two configurables made by one factory: distinct function objects, ONE code object, different defaults
#      (round e seed C01-e: the argspec cache keyed by code object handed the second the defaults of the first) -------
CLOS_LOG = []


def _make_loader(default_a, default_c):
  def loader(a=default_a, b=-7, *, c=default_c):
    CLOS_LOG.append((a, b, c))
    return (a, b, c)
  return loader


if 'vw01.strict_load' not in gc._REGISTRY:
  # the first one marks its parameters REQUIRED, the second has ordinary defaults of its own
  strict_load = gin.external_configurable(_make_loader(gin.REQUIRED, gin.REQUIRED), 'strict_load', module='vw01')
  lax_load = gin.external_configurable(_make_loader(41, 43), 'lax_load', module='vw01')
else:   # pragma: no cover
  strict_load = gc._REGISTRY['vw01.strict_load'].wrapper
  lax_load = gc._REGISTRY['vw01.lax_load'].wrapper


def c01_closures(ma: int, mc: int, ba: bool, bc: bool, ins: bool, va: int, vc: int, ca: int, cc: int) -> bool:
  """
  pre: 0 <= ma < 3 and 0 <= mc < 2
  """
  world.fresh()
  del CLOS_LOG[:]
  ma, mc = rt.pick(ma, 3), rt.pick(mc, 2)       # a: omitted / positional / keyword;  c: omitted / keyword
  ba, bc, ins = rt.flag(ba), rt.flag(bc), rt.flag(ins)
  rt.sig(('closures', ma, mc, ba, bc, ins), nontrivial=True)
  if ba:
    gin.bind_parameter('s/vw01.lax_load.a', va)          # applies only inside scope s
  if bc:
    gin.bind_parameter('vw01.lax_load.c', vc)
  args = (ca,) if ma == 1 else ()
  kw = {}
  if ma == 2:
    kw['a'] = ca
  if mc == 1:
    kw['c'] = cc
  try:
    if ins:
      with gin.config_scope('s'):
        got = lax_load(*args, **kw)
    else:
      got = lax_load(*args, **kw)
  except Exception as e:   # noqa
    with rt.native():
      return rt.no('the call raised %r: the function has defaults of its own' % (e,))
  want_a = ca if ma else (va if (ba and ins) else 41)
  want_c = cc if mc else (vc if bc else 43)
  return rt.same('a', got[0], want_a) and got[1] == -7 and rt.same('c', got[2], want_c)


HARNESSES = {
    'c01_closures': dict(
        fn='c01_closures',
        anchors=['gin.config:gin_wrapper', 'gin.config:_get_cached_arg_spec'],
        smoke=[dict(ma=0, mc=0, ba=False, bc=False, ins=False, va=1, vc=2, ca=3, cc=4),
               dict(ma=1, mc=1, ba=True, bc=True, ins=True, va=1, vc=2, ca=3, cc=4),
               dict(ma=2, mc=0, ba=True, bc=False, ins=True, va=1, vc=2, ca=3, cc=4)],
        tiers={'quick': dict(split=dict(ma=[0, 1, 2]), budget_s=60),
               'thorough': dict(split=dict(ma=[0, 1, 2], mc=[0, 1]), budget_s=100)},
        bounds='two configurables produced by one factory (distinct function objects sharing one code object): the '
               'first registered with gin.REQUIRED defaults, the second with ordinary defaults of its own; the second '
               'is called with a omitted / positional / keyword, keyword-only c omitted / given, bindings at root and '
               'under a scope present or not, inside or outside the scope: caller value > applicable binding > the '
               "function's OWN default (all ints)"),
    'c01_inject': dict(
        fn='c01_inject',
        anchors=['gin.config:_get_bindings', 'gin.config:gin_wrapper',
                 'gin.config:config_scope'],
        smoke=[dict(nsc=5, shape=1, stack=2, form=0, ma=0, mb=2, pa0=True, pa1=True,
                    pa2=True, pa3=True, pa4=False, pa5=False, pb0=True, pb1=False,
                    pb2=False, pb3=False, pb4=False, pb5=False, va0=1, va1=2, va2=3,
                    va3=4, va4=5, va5=6, vb0=7, vb1=8, vb2=9, vb3=10, vb4=11, vb5=12,
                    ca=13, cb=14, cx=15)],
        tiers={
            'quick': dict(
                split=dict(shape=list(range(9)), stack=[0, 2, 3, 4]),
                fixed=dict(nsc=5, pa4=False, pa5=False, pb5=False, pb0=False, pb1=False,
                           pb2=False, pb3=False, form=0), budget_s=100),
            'thorough': dict(
                split=dict(shape=list(range(9)), stack=list(range(6))),
                fixed=dict(nsc=6, form=0, pb0=False, pb1=False, pb2=False, pb3=False, pb5=False),
                budget_s=900),
        },
        bounds='quick: parameter a bound at any subset of the prefix chain "", s1, s1/s2, s1/s2/s3, parameter b at the '
               'non-prefix scope s2; active stacks [], [s1,s2], [s1,s2,s3], [s2]; 9 shapes (incl. *args + keyword-only with surplus positionals); every caller split. '
               'thorough: 6 binding scopes, 6 stacks, 5 ways of entering the stack. values: all ints',
    ),
    'c01_forms': dict(
        fn='c01_inject',
        anchors=['gin.config:config_scope'],
        smoke=[dict(nsc=5, shape=1, stack=3, form=3, ma=0, mb=2, pa0=True, pa1=True,
                    pa2=True, pa3=True, pa4=False, pa5=False, pb0=True, pb1=False,
                    pb2=False, pb3=False, pb4=False, pb5=False, va0=1, va1=2, va2=3,
                    va3=4, va4=5, va5=6, vb0=7, vb1=8, vb2=9, vb3=10, vb4=11, vb5=12,
                    ca=13, cb=14, cx=15)],
        tiers={
            'quick': dict(split=dict(form=[1, 2, 3, 4], stack=[0, 3, 4]),
                          fixed=dict(nsc=5, shape=1, pa1=False, pa4=False, pa5=False, pb0=False, pb1=False,
                                     pb2=False, pb3=False, pb5=False), budget_s=100),
            'thorough': dict(split=dict(shape=list(range(9)), stack=list(range(6)), form=[1, 2, 3, 4]),
                             fixed=dict(nsc=6, pa4=False, pa5=False, pb0=False, pb1=False, pb2=False,
                                        pb3=False, pb5=False), budget_s=900),
        },
        bounds='the other 4 ways of making a stack active (a/b shorthand, explicit list, list inside an unrelated '
               'scope, None then names): quick for one shape, thorough for all shapes and stacks'),
    'c01_introspect': dict(
        fn='c01_introspect',
        anchors=['gin.config:get_bindings', 'gin.config:query_parameter'],
        smoke=[dict(nsc=5, shape=0, stack=2, q=1, pa0=True, pa1=True, pa2=False,
                    pa3=True, pa4=False, pa5=False, pb0=False, pb1=True, pb2=False,
                    va0=1, va1=2, va2=3, va3=4, va4=5, va5=6, vb0=7, vb1=8, vb2=9)],
        tiers={
            'quick': dict(split=dict(stack=list(range(5)), q=list(range(5))),
                          fixed=dict(nsc=5, pa4=False, pa5=False, shape=1, pb2=False)),
            'thorough': dict(split=dict(shape=list(range(8)), stack=list(range(6))),
                             fixed=dict(nsc=6)),
        },
        bounds='as c01_inject; get_bindings by selector and by object, strict and '
               'inheriting; query_parameter at every scope',
    ),
    'c01_scopes2': dict(
        fn='c01_scopes2',
        anchors=['gin.config:_decorate_with_scope', 'gin.config:scoping_wrapper', 'gin.config:config_scope',
                 'gin.config:gin_wrapper', 'gin.config:get_configurable'],
        smoke=_smoke(_S2, [dict(kt=KT.index((h, 0)), mb=0 if h == 3 else 2) for h in range(11)] +
                     [dict(kt=KT.index((0, 1)), ma=1, mb=1), dict(kt=KT.index((11, 3))),
                      dict(kt=KT.index((12, 3)), ma=1)]),
        tiers={
            'quick': dict(split=dict(kt=_KT_QUICK), fixed=dict(pa0=True, pa3=False, pa5=False, pb1=True), budget_s=100),
            'thorough': dict(split=dict(kt=list(range(len(KT))), ma=[0, 1, 2]), fixed={}, budget_s=900),
        },
        bounds='13 histories that establish the active scope by something other than nested config_scope names: '
               'scoped selectors through get_configurable (inside another scope), scoped references (@s1/x kept, '
               '@s1/s2/x() evaluated inside another scope), a configurable captured under one scope and called '
               'under another (by selector, by object), a scoped registered-class instance whose registered '
               'method is called under another scope, config_scope with an invalid name / type / list raising '
               'inside an active scope, config_scope(""), a context manager created outside and entered '
               'inside a scope, a scope list mutated while active. Oracle: the arguments seen by the probe are '
               'those the rule gives for the scope in force INSIDE the call (recorded by the probe); that scope '
               'itself is only constrained where config_scope alone defines it (failed entry leaves no trace, '
               '"" clears, with-blocks restore) or to END with the components of a scoped selector. '
               'quick: function target for all, gin.register class for 4, a bound at "" (always) and any subset of s1, s1/s2, s2; b at s1; '
               'every caller split. thorough: function / register class / configurable class, 6 binding scopes',
    ),
    'c01_keys2': dict(
        fn='c01_keys2',
        anchors=['gin.config:bind_parameter', 'gin.config:parse_config', 'gin.config_parser:parse_binding_key',
                 'gin.config:_get_bindings'],
        smoke=_smoke(_K2, [dict(kc=KC.index((f, f % 2))) for f in range(8)] + [dict(kc=KC.index((3, 2)), ef=2, ma=1)]),
        tiers={
            'quick': dict(split=dict(kc=list(range(len(KC)))), fixed=dict(ef=0, pb=True, ma=0), budget_s=100),
            'thorough': dict(split=dict(kc=list(range(len(KC))), depth=[0, 1, 2]), fixed={}, budget_s=600),
        },
        bounds='8 ways of writing the key of `vw.dflt.a` (tuple / string with full or partial selector; config '
               'text with full / partial selector, as an indented block, and with a %macro value at one prefix '
               'level) x 3 scope chains: a repeated component [s1,s1] (bindings at "", s1, s1/s1 and the longer '
               'non-prefix s1/s1/s1), names with "_" and digits [x_2,S9], dotted names [s.x,m.n_0] (API key forms '
               'only: config text cannot spell them); active stack = every prefix of the chain; quick enters by '
               'nested names and lets Gin supply a, thorough also enters by "a/b" and by list and passes a '
               'positionally / by keyword',
    ),
    'c01_full': dict(
        fn='c01_full',
        anchors=['gin.config:gin_wrapper', 'gin.config:_get_supplied_positional_parameter_names'],
        smoke=_smoke(_F2, [dict(), dict(ma=0, mb=2, xr=False, mc=1, mk=1), dict(ma=2, mb=0, xr=False, stack=2)]),
        tiers={
            'quick': dict(split=dict(ma=[0, 1, 2], mc=[0, 1], mk=[0, 1]), fixed=dict(stack=1, pb1=True),
                          budget_s=100),
            'thorough': dict(split=dict(ma=[0, 1, 2], mb=[0, 1, 2], mc=[0, 1], mk=[0, 1], stack=[0, 1, 2]),
                             fixed={}, budget_s=600),
        },
        bounds='def full(a, b=DB, *rest, c=DC, **kw): a and c bound at any subset of "", s1; b and the **kw name k '
               'at s1; every split of a, b between omitted / positional / keyword, surplus positionals, c and k '
               'omitted or by keyword; quick: active stack [s1], thorough also [] and the non-prefix [s2]',
    ),
    'c01_shapes2': dict(
        fn='c01_shapes2',
        anchors=['gin.config:gin_wrapper', 'gin.config:meta_call_wrapper', 'gin.config:_get_bindings'],
        smoke=_smoke(_SH2, [dict(shape=s, ma=1 if s in (5, 9) else 0) for s in range(10)] +
                     [dict(shape=4, pbase=True, mb=0, pb0=False)]),
        tiers={
            'quick': dict(split=dict(shape=list(range(10))), fixed=dict(stack=1, pb0=False), budget_s=100),
            'thorough': dict(split=dict(shape=list(range(10)), stack=[0, 1, 2]), fixed={}, budget_s=600),
        },
        bounds='classes constructed through __new__ (NamedTuple with defaults, a class with only __new__), dict '
               'subclasses without a constructor of their own (gin.configurable and gin.register), a registered '
               'subclass inheriting a registered constructor (with and without a binding on the base class: where '
               'only the base binds b both the plain default and the base value are accepted). a bound at "", s1 '
               'and the non-prefix s2, b at "" and s1; stacks [], [s1], [s2] (quick: [s1]); every caller split. '
               'Five shapes beyond the quantified list are run as well with the unservable combinations '
               'discarded: ' + LIMITS,
    ),
    'c01_values2': dict(
        fn='c01_values2',
        anchors=['gin.config:gin_wrapper', 'gin.config:_get_bindings'],
        smoke=_smoke(_V2, [dict(), dict(shape=1, ma=2, cv=2), dict(shape=2, ma=1, cv=1, bk1=3),
                           dict(shape=3, ma=0, bk0=3, bk1=0, mb=0)]),
        tiers={
            'quick': dict(split=dict(shape=[0, 1, 2, 3]), fixed=dict(stack=1)),
            'thorough': dict(split=dict(shape=[0, 1, 2, 3], stack=[0, 1]), fixed={}),
        },
        bounds='value kinds other than ints: the caller passes a list / None / an object that cannot be copied '
               '(positionally or by keyword, plus a dict for b) for a parameter that is also bound: the function '
               'must receive the very same object; bindings at "" and s1 of kind int / None / nested list: a '
               'bound None is a value (overrides a shorter prefix), a bound list arrives equal; 4 shapes',
    ),
}

OUTSIDE = ('real OS threads and suspended generators (the per-thread stack on ONE thread only); classes defining '
           '__new__ whose base defines __init__; ' + LIMITS)
