"""C01 - injected arguments: caller's values over scope-layered bindings.

F-inputs : signature shape, active scope stack, how it was entered, per focus
           parameter the caller mode (omitted/positional/keyword) and one
           presence bit per binding scope.
S-inputs : every bound value and every caller value (unbounded ints).
Oracle   : written from the property text (longest applicable prefix wins,
           caller wins over everything, non-prefix scopes never apply,
           nothing => signature default or a TypeError before the body).
"""
import contextlib

import gin
from vf import rt
from vf import world

SC = ['', 's1', 's1/s2', 's1/s2/s3', 's2', 's2/s1']          # binding scopes
ST = [[], ['s1'], ['s1', 's2'], ['s1', 's2', 's3'], ['s2'], ['s2', 's1']]
SHAPES = ['plain', 'dflt', 'kwo', 'var', 'kws', 'Kinit', 'Kreg', 'Kmeth.meth', 'varkwo']
NFORM = 5


@contextlib.contextmanager
def enter(stack, form):
  """Makes `stack` the active scope in one of NFORM ways."""
  with contextlib.ExitStack() as es:
    if form == 0:                       # nested single names
      for s in stack:
        es.enter_context(gin.config_scope(s))
    elif form == 1:                     # 'a/b' shorthand
      if stack:
        es.enter_context(gin.config_scope('/'.join(stack)))
    elif form == 2:                     # explicit list replaces
      es.enter_context(gin.config_scope(list(stack)))
    elif form == 3:                     # explicit list inside an unrelated scope
      es.enter_context(gin.config_scope('zz'))
      es.enter_context(gin.config_scope(list(stack)))
    else:                               # None clears, then names
      es.enter_context(gin.config_scope('zz/yy'))
      es.enter_context(gin.config_scope(None))
      for s in stack:
        es.enter_context(gin.config_scope(s))
    yield


def model_value(active, present, values, depth):
  """Value at the longest applicable prefix, or None (the property's rule)."""
  best = None
  best_len = -1
  for i in range(depth):
    if not present[i]:
      continue
    comps = SC[i].split('/') if SC[i] else []
    if comps == active[:len(comps)] and len(comps) > best_len:
      best, best_len = values[i], len(comps)
  return best_len >= 0, best


def c01_inject(nsc: int, shape: int, stack: int, form: int, ma: int, mb: int,
               pa0: bool, pa1: bool, pa2: bool, pa3: bool, pa4: bool, pa5: bool,
               pb0: bool, pb1: bool, pb2: bool, pb3: bool, pb4: bool, pb5: bool,
               va0: int, va1: int, va2: int, va3: int, va4: int, va5: int,
               vb0: int, vb1: int, vb2: int, vb3: int, vb4: int, vb5: int,
               ca: int, cb: int, cx: int) -> bool:
  """
  pre: 0 <= shape < 9 and 0 <= stack < nsc and 0 <= form < 5
  pre: 0 <= ma < 3 and 0 <= mb < 3
  """
  world.fresh()
  shape = rt.pick(shape, 9)
  stack = rt.pick(stack, nsc)
  form = rt.pick(form, NFORM)
  ma = rt.pick(ma, 3)
  mb = rt.pick(mb, 3)
  name = SHAPES[shape]
  if mb == 1 and ma != 1:
    rt.discard()                        # positional only as a signature prefix
  if name == 'kwo' and (ma == 1 or mb == 1):
    rt.discard()
  if name in ('kws', 'varkwo') and mb == 1:
    rt.discard()                        # b is **kwargs-only / keyword-only there
  pa = [pa0, pa1, pa2, pa3, pa4, pa5]
  pb = [pb0, pb1, pb2, pb3, pb4, pb5]
  va = [va0, va1, va2, va3, va4, va5]
  vb = [vb0, vb1, vb2, vb3, vb4, vb5]
  pres_a, pres_b = [], []
  for i in range(6):
    if i < nsc and rt.flag(pa[i]):
      gin.bind_parameter((SC[i], 'vw.' + name, 'a'), va[i])
      pres_a.append(True)
    else:
      pres_a.append(False)
  for i in range(6):
    if i < nsc and rt.flag(pb[i]):
      # string-key form for b, tuple-key form for a
      gin.bind_parameter((SC[i] + '/' if SC[i] else '') + 'vw.' + name + '.b', vb[i])
      pres_b.append(True)
    else:
      pres_b.append(False)
  active = ST[stack]
  pos = []
  kw = {}
  if ma == 1:
    pos.append(ca)
  elif ma == 2:
    kw['a'] = ca
  if mb == 1:
    pos.append(cb)
  elif mb == 2:
    kw['b'] = cb
  extra = name == 'var' and ma == 1 and mb == 1
  if extra:
    pos.append(cx)
  surplus = name == 'varkwo' and ma == 1      # surplus positionals go to *rest, never to keyword-only b
  if surplus:
    pos.extend([cx, cx])

  # ---- oracle ---------------------------------------------------------
  has_a, bound_a = model_value(active, pres_a, va, nsc)
  has_b, bound_b = model_value(active, pres_b, vb, nsc)
  dflt_a = name not in ('plain', 'var')
  dflt_b = name != 'plain'
  if ma:
    exp_a, got_a = ca, True
  elif has_a:
    exp_a, got_a = bound_a, True
  else:
    exp_a, got_a = world.DA, dflt_a
  if mb:
    exp_b, got_b = cb, True
  elif has_b:
    exp_b, got_b = bound_b, True
  else:
    exp_b, got_b = world.DB, dflt_b
  rt.sig(('inject', name, stack, form, ma, mb, tuple(pres_a), tuple(pres_b)),
         nontrivial=(has_a and not ma) or (has_b and not mb))

  # ---- the real code --------------------------------------------------
  err = None
  with enter(active, form):
    inner_scope = gin.current_scope()
    try:
      if name == 'Kmeth.meth':
        with gin.config_scope(None):
          obj = gin.get_configurable('vw.Kmeth')()
        obj.meth(*pos, **kw)
      elif name == 'Kreg':
        gin.get_configurable(world.Kreg)(*pos, **kw)
      elif name == 'Kinit':
        world.Kinit(*pos, **kw)
      else:
        getattr(world, name)(*pos, **kw)
    except TypeError as e:
      err = e
  if inner_scope != active or gin.current_scope() != []:
    return False

  if not (got_a and got_b):
    # nothing supplies a parameter without default: TypeError before the body,
    # and the message still names the configurable.
    if err is None or world.LOG:
      return False
    with rt.native():
      return name.split('.')[-1] in str(err)
  if err is not None or len(world.LOG) != 1:
    return False
  _, args, kwargs, seen_scope = world.LOG[0]
  if seen_scope != active:
    return False
  if name == 'varkwo':
    if not rt.same('a', args[0], exp_a) or list(kwargs) != ['b'] or not rt.same('b', kwargs['b'], exp_b):
      return False
    if surplus:
      return len(args) == 3 and rt.same('x', args[1], cx) and rt.same('x', args[2], cx)
    return len(args) == 1
  if name == 'kws':
    if not rt.same('a', args[0], exp_a):
      return False
    if mb or has_b:
      return list(kwargs) == ['b'] and rt.same('b', kwargs['b'], exp_b)
    return kwargs == {}
  if extra:
    if len(args) != 3 or not rt.same('x', args[2], cx):
      return False
  elif len(args) != 2:
    return False
  return rt.same('a', args[0], exp_a) and rt.same('b', args[1], exp_b) and not kwargs


def c01_introspect(nsc: int, shape: int, stack: int, q: int,
                   pa0: bool, pa1: bool, pa2: bool, pa3: bool, pa4: bool, pa5: bool,
                   pb0: bool, pb1: bool, pb2: bool,
                   va0: int, va1: int, va2: int, va3: int, va4: int, va5: int,
                   vb0: int, vb1: int, vb2: int) -> bool:
  """
  pre: 0 <= shape < 8 and 0 <= stack < nsc and 0 <= q < nsc
  """
  world.fresh()
  shape = rt.pick(shape, 8)
  stack = rt.pick(stack, nsc)
  q = rt.pick(q, nsc)
  name = SHAPES[shape]
  pa = [pa0, pa1, pa2, pa3, pa4, pa5]
  va = [va0, va1, va2, va3, va4, va5]
  pb = [pb0, pb1, pb2, False, False, False]
  vb = [vb0, vb1, vb2, 0, 0, 0]
  pres_a, pres_b = [], []
  for i in range(6):
    if i < nsc and rt.flag(pa[i]):
      gin.bind_parameter((SC[i], 'vw.' + name, 'a'), va[i])
      pres_a.append(True)
    else:
      pres_a.append(False)
    if i < nsc and i < 3 and rt.flag(pb[i]):
      gin.bind_parameter((SC[i], name, 'b'), vb[i])
      pres_b.append(True)
    else:
      pres_b.append(False)
  active = ST[stack]
  has_a, bound_a = model_value(active, pres_a, va, nsc)
  has_b, bound_b = model_value(active, pres_b, vb, nsc)
  want = {}
  if has_a:
    want['a'] = bound_a
  if has_b:
    want['b'] = bound_b
  rt.sig(('introspect', name, stack, q, tuple(pres_a), tuple(pres_b)),
         nontrivial=has_a or has_b)
  with enter(active, 0):
    got = gin.get_bindings('vw.' + name)
    got_obj = None
    if name in ('plain', 'dflt', 'kwo', 'var', 'kws', 'Kinit', 'Kreg'):
      got_obj = gin.get_bindings(getattr(world, name))
  if got != want or (got_obj is not None and got_obj != want):
    return False
  # strict (non-inheriting) lookup: only the exact scope
  exact = {}
  if pres_a[q]:
    exact['a'] = va[q]
  if pres_b[q]:
    exact['b'] = vb[q]
  sel = (SC[q] + '/' if SC[q] else '') + 'vw.' + name
  if gin.get_bindings(sel, inherit_scopes=False) != exact:
    return False
  # query_parameter sees the value bound at exactly the queried scope
  try:
    v = gin.query_parameter(sel + '.a')
    if not pres_a[q] or not rt.same('qa', v, va[q]):
      return False
  except ValueError:
    if pres_a[q]:
      return False
  return True


_FALSE6 = dict(pa5=False, pb5=False)

HARNESSES = {
    'c01_inject': dict(
        fn='c01_inject',
        anchors=['gin.config:_get_bindings', 'gin.config:gin_wrapper',
                 'gin.config:config_scope'],
        smoke=[dict(nsc=5, shape=1, stack=2, form=0, ma=0, mb=2, pa0=True, pa1=True,
                    pa2=True, pa3=True, pa4=False, pa5=False, pb0=True, pb1=False,
                    pb2=False, pb3=False, pb4=False, pb5=False, va0=1, va1=2, va2=3,
                    va3=4, va4=5, va5=6, vb0=7, vb1=8, vb2=9, vb3=10, vb4=11, vb5=12,
                    ca=13, cb=14, cx=15)],
        tiers={
            'quick': dict(
                split=dict(shape=list(range(9)), stack=[0, 2, 3, 4]),
                fixed=dict(nsc=5, pa4=False, pa5=False, pb5=False, pb0=False, pb1=False,
                           pb2=False, pb3=False, form=0), budget_s=100),
            'thorough': dict(
                split=dict(shape=list(range(9)), stack=list(range(6))),
                fixed=dict(nsc=6, form=0, pb0=False, pb1=False, pb2=False, pb3=False, pb5=False),
                budget_s=900),
        },
        bounds='quick: parameter a bound at any subset of the prefix chain "", s1, s1/s2, s1/s2/s3, parameter b at the '
               'non-prefix scope s2; active stacks [], [s1,s2], [s1,s2,s3], [s2]; 9 shapes (incl. *args + keyword-only with surplus positionals); every caller split. '
               'thorough: 6 binding scopes, 6 stacks, 5 ways of entering the stack. values: all ints',
    ),
    'c01_forms': dict(
        fn='c01_inject',
        anchors=['gin.config:config_scope'],
        smoke=[dict(nsc=5, shape=1, stack=3, form=3, ma=0, mb=2, pa0=True, pa1=True,
                    pa2=True, pa3=True, pa4=False, pa5=False, pb0=True, pb1=False,
                    pb2=False, pb3=False, pb4=False, pb5=False, va0=1, va1=2, va2=3,
                    va3=4, va4=5, va5=6, vb0=7, vb1=8, vb2=9, vb3=10, vb4=11, vb5=12,
                    ca=13, cb=14, cx=15)],
        tiers={
            'quick': dict(split=dict(form=[1, 2, 3, 4], stack=[0, 3, 4]),
                          fixed=dict(nsc=5, shape=1, pa1=False, pa4=False, pa5=False, pb0=False, pb1=False,
                                     pb2=False, pb3=False, pb5=False), budget_s=100),
            'thorough': dict(split=dict(shape=list(range(9)), stack=list(range(6)), form=[1, 2, 3, 4]),
                             fixed=dict(nsc=6, pa4=False, pa5=False, pb0=False, pb1=False, pb2=False,
                                        pb3=False, pb5=False), budget_s=900),
        },
        bounds='the other 4 ways of making a stack active (a/b shorthand, explicit list, list inside an unrelated '
               'scope, None then names): quick for one shape, thorough for all shapes and stacks'),
    'c01_introspect': dict(
        fn='c01_introspect',
        anchors=['gin.config:get_bindings', 'gin.config:query_parameter'],
        smoke=[dict(nsc=5, shape=0, stack=2, q=1, pa0=True, pa1=True, pa2=False,
                    pa3=True, pa4=False, pa5=False, pb0=False, pb1=True, pb2=False,
                    va0=1, va1=2, va2=3, va3=4, va4=5, va5=6, vb0=7, vb1=8, vb2=9)],
        tiers={
            'quick': dict(split=dict(stack=list(range(5)), q=list(range(5))),
                          fixed=dict(nsc=5, pa4=False, pa5=False, shape=1, pb2=False)),
            'thorough': dict(split=dict(shape=list(range(8)), stack=list(range(6))),
                             fixed=dict(nsc=6)),
        },
        bounds='as c01_inject; get_bindings by selector and by object, strict and '
               'inheriting; query_parameter at every scope',
    ),
}
