"""C13 - registration is transparent to the registered function or class."""
import abc
import collections
import dataclasses
import inspect
import pickle
import typing

import gin
from gin import config as gc
from vf import rt
from vf import world

DA = -7


# ---- module-level shapes (picklable) for register / external_configurable ------
def m_fn(a=DA, b=2):
  """doc of m_fn"""
  return ('m_fn', a, b)


class MInit:
  """doc of MInit"""

  def __init__(self, a=DA):
    self.a = a


class MNew:
  """doc of MNew"""

  def __new__(cls, a=DA):
    self = super().__new__(cls)
    self.a = a
    return self


class MBoth:

  def __new__(cls, a=DA):
    self = super().__new__(cls)
    self.from_new = a
    return self

  def __init__(self, a=DA):
    self.a = a


class MNeither:
  """no constructor of its own"""
  a = DA


class Meta(type):

  def __call__(cls, *args, **kwargs):
    obj = super().__call__(*args, **kwargs)
    obj.via_meta = True
    return obj


class MMeta(metaclass=Meta):

  def __init__(self, a=DA):
    self.a = a


class MSlots:
  __slots__ = ('a',)

  def __init__(self, a=DA):
    self.a = a


class MNamed(typing.NamedTuple):
  a: int = DA
  b: int = 2


MColl = collections.namedtuple('MColl', ['a', 'b'], defaults=[DA, 2])


class MBase(abc.ABC):

  @abc.abstractmethod
  def run(self):
    pass


class MAbc(MBase):

  def __init__(self, a=DA):
    self.a = a

  def run(self):
    return self.a


class MCallable:

  def __call__(self, a=DA):
    return ('called', a)


M_CALLABLE = MCallable()


# ---- kinds added by the vocabulary-widening round ---------------------------------------------
@dataclasses.dataclass
class MData:
  """doc of MData"""
  a: int = DA
  tags: list = dataclasses.field(default_factory=list)


@dataclasses.dataclass(frozen=True, slots=True)
class MFrozen:
  """doc of MFrozen"""
  a: int = DA


class MExc(Exception):
  """doc of MExc"""

  def __init__(self, a=DA):
    super().__init__('mexc')
    self.a = a


class MHolder:

  def bm(self, a=DA):
    """doc of bm"""
    return ('bm', a)


M_BOUND = MHolder().bm            # a bound Python method (one object, kept)
M_METHOD_WRAPPER = (5).__add__    # method-wrapper
M_SLOT_WRAPPER = int.__add__      # slot wrapper ("wrapper_descriptor")
M_METHOD_DESCRIPTOR = str.upper   # method descriptor (not shimmed by _ensure_wrappability)
M_BOUND_BUILTIN = {'k': 1}.get    # builtin_function_or_method bound to an object


class FalsyMeta(type):
  """Classes of this metaclass are falsy (`bool(cls)` is False), like an empty registry class."""

  def __len__(cls):
    return 0


class MFalsy(metaclass=FalsyMeta):
  """doc of MFalsy"""

  def __init__(self, a=DA):
    self.a = a


class FalsyCallable:
  """A callable object that is falsy (an empty container with __call__)."""

  def __init__(self):
    self.__name__ = 'falsy_callable'

  def __len__(self):
    return 0

  def __call__(self, a=DA):
    return ('called', a)


M_FALSY_CALLABLE = FalsyCallable()

SHAPES = ['function', '__init__', '__new__', 'both', 'neither', 'metaclass', '__slots__',
          'typing.NamedTuple', 'collections.namedtuple', 'ABC subclass', 'callable object',
          'builtin', 'class with registered method',
          # added by the widening round
          'dataclass (default_factory field)', 'frozen slots dataclass', 'Exception subclass',
          'method-wrapper', 'slot wrapper', 'method descriptor', 'bound builtin method',
          'builtin class dict', 'collections.OrderedDict', 'bound Python method',
          'falsy class (metaclass __len__ == 0)', 'falsy callable object',
          'class with registered staticmethod and classmethod',
          # round f: a class that only BORROWS (same attribute name) the registered method of a class nested in it
          'class borrowing the registered method of its nested class']
MODULE_LEVEL = [m_fn, MInit, MNew, MBoth, MNeither, MMeta, MSlots, MNamed, MColl, MAbc, M_CALLABLE, sum, None,
                MData, MFrozen, MExc, M_METHOD_WRAPPER, M_SLOT_WRAPPER, M_METHOD_DESCRIPTOR, M_BOUND_BUILTIN,
                dict, collections.OrderedDict, M_BOUND, MFalsy, M_FALSY_CALLABLE, None, None]
NS = len(SHAPES)
APIS = ['configurable', 'register', 'external_configurable']
FORMS = ['name, module= given', 'bare decorator / no name']
USES = ['call', 'positional argument over a binding', 'user subclass of the registry version']
C_CALLABLES = (11, 16, 17, 18, 19)        # no usable __module__; called with arguments
NOT_CALLED_BARE = (10,)                   # a callable object without __name__ has no default name
BUILTIN_CLASSES = (20, 21)
# A positional argument over a bound parameter, for callable OBJECTS and BOUND Python methods: gin's
# argument-name lookup (inspect.getfullargspec) counts `self`, so `w(3)` with a binding for `a` raises
# "got multiple values for argument 'a'".  Reported by the widening round as a defect against the caller-wins
# clause of C01; the statement of C13 says nothing about caller-supplied arguments, so these combinations are
# not judged here (empty this tuple to judge them).
POSITIONAL_SELF_SHIFT = (10, 22, 24)
FRESH_ONLY = (26,)                        # built inside the path (its nested method registers on creation)
WITH_MEMBERS = (12, 25)                   # registered members are re-keyed only by register / external_configurable


def _item1(r):
  return r[1]


def _attr_a(r):
  return r.a


def _ident(r):
  return r


def _key_k(r):
  return r.get('k', DA)


def _plus3(v):
  return 3 + v


# per shape: (bindable parameter or None, call arguments, observed value, value without injection,
#             value with the parameter bound to v, positional call arguments or None, value they must give)
_CLS = ('a', (), _attr_a, DA, _ident, (3,), 3)
_FN = ('a', (), _item1, DA, _ident, (3,), 3)
PROTO = {
    0: _FN, 10: _FN, 22: _FN, 24: _FN,
    4: (None, (), _attr_a, DA, None, None, None),
    11: ('start', ([1, 2],), _ident, 3, _plus3, ([1, 2], 5), 8),
    16: (None, (3,), _ident, 8, None, None, None),
    17: (None, (5, 3), _ident, 8, None, None, None),
    18: (None, ('ab',), _ident, 'AB', None, None, None),
    19: (None, ('k',), _ident, 1, None, None, None),
    20: ('k', (), _key_k, DA, _ident, None, None),
    21: ('k', (), _key_k, DA, _ident, None, None),
}


def proto(shape):
  return PROTO.get(shape, _CLS)


def fresh_shape(shape):
  """A brand-new function/class of the given shape (for the in-place decorating API)."""
  if shape == 0:
    def f_fn(a=DA, b=2):
      """doc of f_fn"""
      return ('f_fn', a, b)
    return f_fn
  if shape == 1:
    class FInit:
      """doc"""
      def __init__(self, a=DA):
        self.a = a
    return FInit
  if shape == 2:
    class FNew:
      def __new__(cls, a=DA):
        self = super().__new__(cls)
        self.a = a
        return self
    return FNew
  if shape == 3:
    class FBoth:
      def __new__(cls, a=DA):
        return super().__new__(cls)
      def __init__(self, a=DA):
        self.a = a
    return FBoth
  if shape == 4:
    class FNeither:
      a = DA
    return FNeither
  if shape == 5:
    class FMeta(metaclass=Meta):
      def __init__(self, a=DA):
        self.a = a
    return FMeta
  if shape == 6:
    class FSlots:
      __slots__ = ('a',)
      def __init__(self, a=DA):
        self.a = a
    return FSlots
  if shape == 7:
    class FNamed(typing.NamedTuple):
      a: int = DA
      b: int = 2
    return FNamed
  if shape == 8:
    return collections.namedtuple('FColl', ['a', 'b'], defaults=[DA, 2])
  if shape == 9:
    class FAbc(MBase):
      def __init__(self, a=DA):
        self.a = a
      def run(self):
        return self.a
    return FAbc
  if shape == 12:
    class FWithMethod:
      def __init__(self, a=DA):
        self.a = a
      @gin.register
      def meth(self, m=DA):
        return ('meth', m)
    return FWithMethod
  if shape == 13:
    @dataclasses.dataclass
    class FData:
      """doc of FData"""
      a: int = DA
      tags: list = dataclasses.field(default_factory=list)
    return FData
  if shape == 14:
    @dataclasses.dataclass(frozen=True, slots=True)
    class FFrozen:
      a: int = DA
    return FFrozen
  if shape == 15:
    class FExc(Exception):
      """doc of FExc"""
      def __init__(self, a=DA):
        super().__init__('fexc')
        self.a = a
    return FExc
  if shape == 23:
    class FFalsy(metaclass=FalsyMeta):
      """doc of FFalsy"""
      def __init__(self, a=DA):
        self.a = a
    return FFalsy
  if shape == 25:
    class FMembers:
      """doc of FMembers"""
      def __init__(self, a=DA):
        self.a = a
      @staticmethod
      @gin.register
      def smake(m=DA):
        return ('smake', m)
      @classmethod
      @gin.register
      def cmake(cls, m=DA):
        return ('cmake', m)
    return FMembers
  if shape == 26:
    class FBorrow:
      """doc of FBorrow"""
      class Helper:
        @gin.register
        def describe13(self, m=DA):
          return ('describe13', m)
      describe13 = Helper.describe13    # held under the function's own name; FBorrow has no registered method
      def __init__(self, a=DA):
        self.a = a
    return FBorrow
  return None


def value_of(obj_or_result, shape):
  return proto(shape)[2](obj_or_result)


def cleanup(names, objs):
  with rt.native():
    for n in names:
      if n in gc._REGISTRY:
        gc._REGISTRY.pop(n)
    for o in objs:
      try:
        gc._INVERSE_REGISTRY.pop(o, None)
      except TypeError:
        pass
    gc._RENAMED_SELECTORS.clear()


def registry_marks():
  """What is registered right now (names, and identities of the inverse registry's keys)."""
  with rt.native():
    return set(gc._REGISTRY._selector_map), set(id(k) for k in gc._INVERSE_REGISTRY)


def restore_registry(marks):
  """Removes every registration made since `marks` was taken (test registrations must not leak)."""
  with rt.native():
    names, ids = marks
    for n in list(gc._REGISTRY._selector_map):
      if n not in names:
        gc._REGISTRY.pop(n)
    for k in list(gc._INVERSE_REGISTRY):
      if id(k) not in ids:
        del gc._INVERSE_REGISTRY[k]
    gc._RENAMED_SELECTORS.clear()


def c13_shapes(shape: int, api: int, scoped: bool, v: int, form: int = 0, use: int = 0) -> bool:
  """
  pre: 0 <= shape < 27 and 0 <= api < 3 and 0 <= form < 2 and 0 <= use < 3
  """
  world.fresh()
  shape = rt.pick(shape, NS)
  api = rt.pick(api, 3)
  scoped = rt.flag(scoped)
  form = rt.pick(form, 2)     # 0: api(name, module=...)(target); 1: api(target) - name/module taken from the target
  use = rt.pick(use, 3)       # what is done with the registry's version in addition (USES)
  if shape in WITH_MEMBERS and api == 0:
    rt.discard()    # methods are renamed under their class only by register / external_configurable
  if shape in NOT_CALLED_BARE and form == 1:
    rt.discard()    # no __name__ to take the default name from: outcome not fixed by the statement
  if shape in BUILTIN_CLASSES and api == 0:
    rt.discard()    # @gin.configurable would have to mutate an immutable builtin type
  param, args, value, dflt, inj, pos_args, pos_want = proto(shape)
  if use == 1 and pos_args is None:
    rt.discard()
  if use == 1 and shape in POSITIONAL_SELF_SHIFT:
    rt.discard()    # see the comment at POSITIONAL_SELF_SHIFT
  marks = registry_marks()
  with rt.native():
    if api == 0 or shape in WITH_MEMBERS or shape in FRESH_ONLY:
      target = fresh_shape(shape)
      if target is None:
        target = MODULE_LEVEL[shape]
    else:
      target = MODULE_LEVEL[shape]
    is_class = inspect.isclass(target)
    if use == 2 and not is_class:
      rt.discard()
    if form == 0:
      name = 'T%d' % shape
      sel = 'vw13.' + name
    else:
      # the documented defaults: the target's own __name__, under its own __module__ (when it has one)
      name = target.__name__
      own_module = getattr(target, '__module__', None)
      sel = own_module + '.' + name if own_module else name
    before_vars = dict(vars(target)) if is_class else None
    before_sig = None
    try:
      before_sig = inspect.signature(target)
    except (TypeError, ValueError):
      pass
    before_doc, before_name = getattr(target, '__doc__', None), getattr(target, '__name__', None)
    before_mod = getattr(target, '__module__', None)
  rt.sig(('shapes', SHAPES[shape], APIS[api], scoped, FORMS[form], USES[use]), nontrivial=True)
  try:
    if form == 0:
      if api == 0:
        ret = gin.configurable(name, module='vw13')(target)
      elif api == 1:
        ret = gin.register(name, module='vw13')(target)
      else:
        ret = gin.external_configurable(target, name, module='vw13')
    else:
      if api == 0:
        ret = gin.configurable(target)
      elif api == 1:
        ret = gin.register(target)
      else:
        ret = gin.external_configurable(target)
    has_a = param is not None
    with rt.native():
      # -- what the registration call returns ------------------------------------------------
      if api == 1 and ret is not target:
        return rt.no('register must return the very object')
      if api in (1, 2) and is_class:
        after = dict(vars(target))
        if set(after) != set(before_vars) or any(after[k] is not before_vars[k] for k in after):
          return rt.no('register/external_configurable altered the class')
      if api in (0, 2):
        if (before_name is not None and getattr(ret, '__name__', None) != before_name) or (
            getattr(ret, '__doc__', None) != before_doc):
          return rt.no('name/doc of the returned object')
        if shape not in C_CALLABLES and getattr(ret, '__module__', None) != before_mod:
          return rt.no('module of the returned object')
        if before_sig is not None and not is_class:
          if inspect.signature(ret) != before_sig:
            return rt.no('signature')
      if is_class and api in (0, 2):
        if not issubclass(ret, target):
          return rt.no('issubclass')
    if has_a:
      gin.bind_parameter(('s' if scoped else '', sel, param), v)
    # -- direct calls to the original receive nothing (register / external) --------------------
    def call(fn, *a, **k):
      if scoped:
        with gin.config_scope('s'):
          return fn(*a, **k)
      return fn(*a, **k)
    if api in (1, 2) and has_a:
      direct = call(target, *args)
      if not rt.same('direct call must not be injected', value(direct), dflt):
        return False
    # -- the registry's version is injected, through every way of reaching it --------------------
    ways = [gin.get_configurable(target) if api != 0 else ret,
            gin.get_configurable(('s/' if scoped else '') + sel)]
    if api == 2:
      ways.append(ret)
    with rt.native():
      if not args:
        gin.parse_config('vw.cons.p = @%s%s()' % ('s/' if scoped else '', sel))
    for i, w in enumerate(ways):
      res = call(w, *args) if i != 1 else w(*args)
      if not rt.same('registry version injected', value(res), inj(v) if has_a else dflt):
        return False
      if use == 1:
        # a positional argument of the caller over a bound parameter: the call must go through and the
        # caller's value is the one that arrives (alignment of cls/self in front of the arguments)
        res1 = call(w, *pos_args) if i != 1 else w(*pos_args)
        if not rt.same('positional argument over a binding', value(res1), pos_want):
          return False
        with rt.native():
          if is_class and not isinstance(res1, target):
            return rt.no('positional construction: instance of the original class')
          if is_class and shape not in WITH_MEMBERS and api != 0 and type(res1) is not target:
            return rt.no('positional construction: exactly the original class')
      if use == 2:
        # using the registry's version like a class: a user subclass of it
        with rt.native():
          Sub = type(w)('Sub', (w,), {'extra': 1, '__module__': __name__})
        sres = call(Sub) if i != 1 else Sub()
        with rt.native():
          if not isinstance(sres, target) or not isinstance(sres, Sub):
            return rt.no('an instance of a user subclass must be an instance of it and of the original')
          if not issubclass(Sub, target):
            return rt.no('user subclass no longer a subclass of the original')
        got_sub = value(sres)
        # (whether the binding also applies to the user's own subclass is not fixed by the statement)
        if has_a and not (got_sub == v or got_sub == dflt):
          return rt.no('user subclass constructed with a foreign value')
      with rt.native():
        if is_class:
          if not isinstance(res, target):
            return rt.no('instance of the original class')
          if shape not in WITH_MEMBERS and type(res) is not target and api != 0:
            return rt.no('exactly the original class when no method is overridden')
          if shape == 5 and not getattr(res, 'via_meta', False):
            return rt.no('custom metaclass __call__ bypassed')
          if api in (1, 2) and shape not in WITH_MEMBERS:
            try:
              blob = pickle.dumps(target() if shape != 9 else target())
              can = True
            except Exception:
              can = False
            if can:
              # (an instance holding a symbolic value cannot be pickled: construct a
              # second one through the same registry version with a concrete argument)
              inst = w(**{param: 3}) if has_a else w()
              back = pickle.loads(pickle.dumps(inst))
              if type(back) is not target or (has_a and value(back) != 3):
                return rt.no('pickle round trip')
    if not args:
      world.cons()
      got = world.LOG[-1][1][0]
      if has_a and not rt.same('via reference', value(got), v):
        return False
      with rt.native():
        if is_class and not isinstance(got, target):
          return rt.no('via reference: instance of the original class')
    if shape == 12:
      with rt.native():
        obj = gin.get_configurable(sel)()
        gin.bind_parameter(sel + '.meth.m', 99)
        if obj.meth() != ('meth', 99):
          return rt.no('registered method not injected through the class')
        if target().meth() != ('meth', DA) and api != 0:
          return rt.no('method of the original class was altered')
        # scoped access combined with registered methods
        if gin.get_configurable('u/' + sel)().meth() != ('meth', 99):
          return rt.no('registered method not injected through a scoped selector (root binding)')
        gin.bind_parameter('s/' + sel + '.meth.m', 98)
        sobj = gin.get_configurable('s/' + sel)()
        if not isinstance(sobj, target):
          return rt.no('scoped class with a registered method: instance of the original class')
        if sobj.meth() != ('meth', 98):
          return rt.no('registered method of an instance made through a scoped selector misses the scope binding')
        with gin.config_scope('s'):
          if obj.meth() != ('meth', 98):
            return rt.no('registered method called inside the scope misses the scope binding')
        gin.parse_config('vw.cons.q = @s/%s()' % sel)
        world.cons()
        robj = world.LOG[-1][1][1]
        if not isinstance(robj, target) or robj.meth() != ('meth', 98):
          return rt.no('registered method of an instance made through a scoped reference misses the scope binding')
        if target().meth() != ('meth', DA):
          return rt.no('method of the original class was altered (scoped)')
        with gin.config_scope('s'):
          if target().meth() != ('meth', DA):
            return rt.no('direct call of the original method injected inside a scope')
    if shape == 25:
      with rt.native():
        # the statement fixes only the original's side here: whatever is bound for the registered
        # members, the original class and direct calls through it stay as they were
        for cand in (sel + '.smake.m', 'vf.harness.c13.smake.m', sel + '.cmake.m', 'vf.harness.c13.cmake.m'):
          try:
            gin.bind_parameter(cand, 99)
          except ValueError:
            pass
        if target.smake() != ('smake', DA) or target().smake() != ('smake', DA):
          return rt.no('staticmethod of the original class was altered')
        if target.cmake() != ('cmake', DA) or target().cmake() != ('cmake', DA):
          return rt.no('classmethod of the original class was altered')
        after = dict(vars(target))
        if set(after) != set(before_vars) or any(after[k] is not before_vars[k] for k in after):
          return rt.no('the class with static/class members was altered')
    return True
  finally:
    restore_registry(marks)


def registry_names():
  return set(gc._REGISTRY._selector_map)


NC = 30
REREG_DIFFERENT = (0, 16)        # a different object under an existing full name
SAME_AGAIN = (25, 26, 27)        # the very same object under its own name again
ANY_EXCEPTION = (23, 28, 29)     # the statement does not fix the exception type beyond "rejected"
AFTER_FINALIZE = (28, 29)


def c13_reject(case: int, api: int, interactive: int) -> bool:
  """
  pre: 0 <= case < 30 and 0 <= api < 3 and 0 <= interactive < 5
  """
  world.fresh()
  case = rt.pick(case, NC)
  api = rt.pick(api, 3)
  # 0 no, 1 inside `with interactive_mode()`, 2 after a block that raised,
  # 3 between enter_interactive_mode() and exit_interactive_mode(), 4 after exit_interactive_mode()
  interactive = rt.pick(interactive, 5)
  inside = interactive in (1, 3)
  rt.sig(('reject', case, api, interactive), nontrivial=True)
  marks = registry_marks()
  with rt.native():
    def first(a=1):
      return ('first', a)

    def second(a=1):
      return ('second', a)

    def reg(fn, name='c13r', module='vw13', allow=None, deny=None, bare=False):
      if bare:
        if api == 0:
          return gin.configurable(fn)
        if api == 1:
          return gin.register(fn)
        return gin.external_configurable(fn)
      if api == 0:
        return gin.configurable(name, module=module, allowlist=allow, denylist=deny)(fn)
      if api == 1:
        return gin.register(name, module=module, allowlist=allow, denylist=deny)(fn)
      return gin.external_configurable(fn, name, module=module, allowlist=allow, denylist=deny)

    try:
      reg(first)
      if case in (8, 9, 27):
        _HOLD[0] = _cls_with_method()      # its method registers itself here, before the snapshot
      _T.clear()
      _T.update(_reject_targets())
      _T['first'] = first
      watched = _T.get(WATCH.get(case))    # the class a rejected registration must leave as it was
      watched_vars = dict(vars(watched)) if watched is not None else None
      if case == 26:
        reg(_T['kcls'], name='c13k')
      if case == 27:
        if api == 0:
          return True        # @gin.configurable does not re-key registered methods
        reg(_HOLD[0], name='c13cls')
      if case in AFTER_FINALIZE:
        gin.finalize()
      before = registry_names()
      if interactive == 2:
        try:
          with gin.config.interactive_mode():
            raise KeyError('body raised')
        except KeyError:
          pass
      if interactive == 4:
        gin.config.enter_interactive_mode()
        gin.config.exit_interactive_mode()
      exc = None
      try:
        if interactive == 1:
          with gin.config.interactive_mode():
            self_check = CASES[case](reg, second)
        elif interactive == 3:
          gin.config.enter_interactive_mode()
          try:
            CASES[case](reg, second)
          finally:
            gin.config.exit_interactive_mode()
        else:
          CASES[case](reg, second)
      except Exception as e:
        exc = e
      after = registry_names()
      if watched is not None and exc is not None:
        now = dict(vars(watched))
        if set(now) != set(watched_vars) or any(now[k] is not watched_vars[k] for k in now):
          return rt.no('a rejected registration altered the class it was given')
      if case in AFTER_FINALIZE:
        # (that registering under a lock raises is C12's business; here: a registration that raises
        # registers nothing, and a different object never replaces an existing name outside interactive mode)
        if case == 29 and not inside and exc is None:
          return rt.no('a different object under an existing full name accepted after finalize')
        if exc is not None:
          if after != before:
            return rt.no('a registration that raised after finalize changed the registry: %r' % (after ^ before))
          gc._set_config_is_locked(False)
          if gin.get_configurable('vw13.c13r')() != ('first', 1):
            return rt.no('existing entry replaced by a registration that raised after finalize')
        return True
      if case in REREG_DIFFERENT and inside:
        # re-registration of an existing name is allowed inside interactive mode only
        if exc is not None:
          return rt.no('interactive mode must allow re-registration')
        if gin.get_configurable('vw13.c13r')() != ('second', 1):
          return rt.no('re-registered version not used')
        return after == before
      if case in (8, 9):
        if api == 0:
          return True        # @gin.configurable does not re-key registered methods
        if exc is None or not isinstance(exc, ValueError):
          return rt.no('unknown allow/deny name must be rejected')
        if after != before:
          return rt.no('rejected class registration changed the registry: %r' % sorted(after ^ before))
        return True
      if case == 12 and inside:
        return exc is None
      if case == 12:
        if exc is None or not isinstance(exc, ValueError):
          return rt.no('an equal-but-different object under an existing name must be rejected')
        if gin.get_configurable('vw13.c13eq')() != ('eq', 1, 1):
          return rt.no('existing entry replaced by an equal-but-different object')
        return True
      if case == 7:
        # same object under the same name again: allowed, nothing changes
        return exc is None and after == before
      if case in SAME_AGAIN:
        # The very same object under its own name again.  "Only inside interactive mode may an existing name be
        # re-registered" can be read as forbidding this outside; gin lets it pass because the object is not
        # "different".  Both are accepted outside interactive mode - but either way the entry must still be
        # there and still work, and the original must still be untouched.
        if inside and exc is not None:
          return rt.no('interactive mode must allow re-registration (same object)')
        if exc is not None and not isinstance(exc, ValueError):
          return rt.no('same object again: unexpected %r' % (exc,))
        if after != before:
          return rt.no('same object again changed the set of registered names: %r' % (after ^ before))
        if case == 25:
          gin.bind_parameter('vw13.c13r.a', 7)
          if gin.get_configurable('vw13.c13r')() != ('first', 7) or gin.get_configurable(first)() != ('first', 7):
            return rt.no('entry no longer injected after the same function was registered again')
          if first() != ('first', 1):
            return rt.no('direct call injected after the same function was registered again')
        if case == 26:
          kcls = _T['kcls']
          gin.bind_parameter('vw13.c13k.a', 7)
          for w_ in (gin.get_configurable('vw13.c13k'), gin.get_configurable(kcls), gin.get_configurable('s/vw13.c13k')):
            o_ = w_()
            if o_.a != 7 or not isinstance(o_, kcls) or (api != 0 and type(o_) is not kcls):
              return rt.no('class entry broken after the same class was registered again')
          if api != 0 and kcls().a != 1:
            return rt.no('direct construction injected after the same class was registered again')
        if case == 27:
          mcls = _HOLD[0]
          gin.bind_parameter('vw13.c13cls.c13meth.m', 9)
          o_ = gin.get_configurable('vw13.c13cls')()
          if not isinstance(o_, mcls) or o_.c13meth() != ('c13meth', 9):
            return rt.no('registered method lost after the same class was registered again')
          if mcls().c13meth() != ('c13meth', 0):
            return rt.no('method of the original class altered after the same class was registered again')
        return True
      if exc is None or not isinstance(exc, Exception if case in ANY_EXCEPTION else (ValueError, TypeError)):
        return rt.no('case %d must be rejected, got %r' % (case, exc))
      if after != before:
        return rt.no('a rejected registration changed the registry: %r' % (after ^ before))
      if gin.get_configurable('vw13.c13r')() != ('first', 1):
        return rt.no('existing entry replaced by a rejected registration')
      return True
    finally:
      for n in list(registry_names()):
        if n.startswith('vw13.') or n in ('c13r', 'bad-mod.c13x', 'c13eq') or 'c13meth' in n or n.startswith('1bad') or '..' in n:
          gc._REGISTRY.pop(n)
      gc._INVERSE_REGISTRY.pop(first, None)
      gc._INVERSE_REGISTRY.pop(second, None)
      for o_ in list(gc._INVERSE_REGISTRY):
        if getattr(o_, '__name__', '') in ('c13meth', 'C13WithMethod'):
          del gc._INVERSE_REGISTRY[o_]
      gc._RENAMED_SELECTORS.clear()
      gc._INTERACTIVE_MODE = False
      gc._set_config_is_locked(False)
      restore_registry(marks)
      _T.clear()


_T = {}
# reject case -> key (in _T) of the class whose vars() a rejected registration must leave untouched
WATCH = {17: 'newonly', 18: 'newonly', 19: 'named', 20: 'initcls'}


def _reject_targets():
  class C13NewOnly:
    def __new__(cls, a=1):
      self = super().__new__(cls)
      self.a = a
      return self

  class C13InitCls:
    def __init__(self, a=1):
      self.a = a

  class C13K:
    def __init__(self, a=1):
      self.a = a

  class C13Nameless:
    def __call__(self, a=1):
      return ('nameless', a)

  return dict(newonly=C13NewOnly, initcls=C13InitCls, kcls=C13K,
              named=collections.namedtuple('C13Named', ['a', 'b'], defaults=[1, 2]),
              nameless=C13Nameless(), lam=lambda a=1: ('lam', a))


def _twice(fn):
  import functools

  def deco(g):
    @functools.wraps(g)
    def w(*a, **k):
      return g(*a, **k)
    return w
  return deco(deco(fn))


def _cls_with_method():
  class C13WithMethod:
    def __init__(self, a=1):
      self.a = a

    @gin.register
    def c13meth(self, m=0):
      return ('c13meth', m)
  return C13WithMethod


_HOLD = [None]


class EqCallable:
  """Callable objects that compare equal by label (identity must still decide)."""

  def __init__(self, label, k):
    self.label, self.k = label, k
    self.__name__ = 'eqc'

  def __call__(self, a=1):
    return ('eq', self.k, a)

  def __eq__(self, other):
    return isinstance(other, EqCallable) and other.label == self.label

  def __hash__(self):
    return hash(self.label)


CASES = [
    lambda reg, f: reg(f),                                   # 0 different object, existing full name
    lambda reg, f: reg(f, name='1bad'),                      # 1 invalid name
    lambda reg, f: reg(f, name='a..b'),                      # 2 invalid dotted name
    lambda reg, f: reg(f, name='c13x', module='bad-mod'),    # 3 invalid module
    lambda reg, f: reg(f, name='c13x', allow=['nope']),      # 4 unknown name in allowlist
    lambda reg, f: reg(f, name='c13x', deny=['nope']),       # 5 unknown name in denylist
    lambda reg, f: reg(f, name='c13x', allow=['a'], deny=['a']),  # 6 both lists
    lambda reg, f: None,                                     # 7 placeholder (same object again, below)
    lambda reg, f: reg(_HOLD[0], name='c13cls', allow=['nope']),   # 8 class with a registered method,
    lambda reg, f: reg(_HOLD[0], name='c13cls', deny=['nope']),    # 9 unknown allow / deny name
    lambda reg, f: reg(_twice(f), name='c13x', allow=['nope']),      # 10 two functools.wraps layers,
    lambda reg, f: reg(_twice(f), name='c13x', deny=['nope']),       # 11 unknown allow / deny name
    lambda reg, f: (reg(EqCallable('same', 1), name='c13eq'),        # 8 a DIFFERENT object that merely
                    reg(EqCallable('same', 2), name='c13eq')),       #   compares equal to the registered one
    # ---- added by the widening round ----
    lambda reg, f: reg(f, name='nl\n'),                      # 13 invalid name: identifier + trailing newline
    lambda reg, f: reg(f, name='c13x', module='bad\n'),      # 14 invalid module: trailing newline
    lambda reg, f: reg(_T['lam'], bare=True),                # 15 bare form, default name '<lambda>' is invalid
    lambda reg, f: reg(f, name='vw13.c13r', module=None),    # 16 existing full name spelled through `name` alone
    lambda reg, f: reg(_T['newonly'], name='c13x', allow=['nope']),   # 17 unknown allow name, __new__-only class
    lambda reg, f: reg(_T['newonly'], name='c13x', deny=['nope']),    # 18 unknown deny name, __new__-only class
    lambda reg, f: reg(_T['named'], name='c13x', allow=['nope']),     # 19 unknown allow name, namedtuple
    lambda reg, f: reg(_T['initcls'], name='c13x', deny=['nope']),    # 20 unknown deny name, __init__ class
    lambda reg, f: reg(f, name='c13x', allow=('nope',)),              # 21 unknown allow name given as a tuple
    lambda reg, f: reg(f, name='c13x', allow=('a',), deny=('a',)),    # 22 both lists, as tuples
    lambda reg, f: reg(_T['nameless'], name='c13x', allow=['nope']),  # 23 unknown allow name, callable object
    lambda reg, f: reg(sum, name='c13x', deny=['nope']),              # 24 unknown deny name, builtin
    lambda reg, f: reg(_T['first']),                                  # 25 the very same function again
    lambda reg, f: reg(_T['kcls'], name='c13k'),                      # 26 the very same class again
    lambda reg, f: reg(_HOLD[0], name='c13cls'),                      # 27 same class with a registered method again
    lambda reg, f: reg(f, name='c13x'),                               # 28 new name, after finalize()
    lambda reg, f: reg(f),                                            # 29 existing name, other object, after finalize()
]


HARNESSES = {
    'c13_shapes': dict(
        fn='c13_shapes',
        anchors=['gin.config:_make_configurable', 'gin.config:_decorate_fn_or_cls', 'gin.config:register',
                 'gin.config:external_configurable', 'gin.config:get_configurable',
                 'gin.config:meta_call_wrapper', 'gin.config:configurable', 'gin.config:_ensure_wrappability',
                 'gin.config:_find_registered_methods', 'gin.config:_decorate_with_scope',
                 'gin.config:scoping_wrapper'],
        smoke=[dict(shape=1, api=1, scoped=True, v=5), dict(shape=5, api=2, scoped=False, v=5),
               dict(shape=12, api=1, scoped=False, v=5), dict(shape=0, api=0, scoped=True, v=5),
               dict(shape=11, api=2, scoped=False, v=5),
               # kinds of the widening round: every new shape, both forms, the three uses
               dict(shape=13, api=2, scoped=True, v=5, form=1, use=2),
               dict(shape=14, api=1, scoped=False, v=5, form=0, use=1),
               dict(shape=14, api=0, scoped=False, v=5, form=1, use=2),
               dict(shape=15, api=0, scoped=True, v=5, form=1, use=0),
               dict(shape=15, api=2, scoped=False, v=5, form=0, use=2),
               dict(shape=16, api=1, scoped=False, v=5, form=1, use=0),
               dict(shape=17, api=2, scoped=True, v=5, form=0, use=0),
               dict(shape=18, api=0, scoped=False, v=5, form=1, use=0),
               dict(shape=19, api=2, scoped=False, v=5, form=1, use=0),
               dict(shape=11, api=1, scoped=True, v=5, form=1, use=1),
               dict(shape=20, api=2, scoped=True, v=5, form=1, use=2),
               dict(shape=21, api=1, scoped=False, v=5, form=0, use=0),
               dict(shape=22, api=1, scoped=True, v=5, form=1, use=0),
               dict(shape=23, api=1, scoped=True, v=5, form=0, use=1),
               dict(shape=23, api=1, scoped=False, v=5, form=1, use=0),
               dict(shape=23, api=0, scoped=False, v=5, form=1, use=0),
               dict(shape=24, api=0, scoped=False, v=5, form=1, use=0),
               dict(shape=24, api=2, scoped=True, v=5, form=1, use=0),
               dict(shape=25, api=1, scoped=False, v=5, form=1, use=0),
               dict(shape=12, api=2, scoped=True, v=5, form=1, use=2),
               dict(shape=2, api=0, scoped=False, v=5, form=1, use=1),
               dict(shape=7, api=2, scoped=True, v=5, form=1, use=2)],
        tiers={'quick': dict(split=dict(shape=list(range(NS)), api=[0, 1, 2]), budget_s=100),
               'thorough': dict(split=dict(shape=list(range(NS)), api=[0, 1, 2], form=[0, 1]),
                                budget_s=300)},
        bounds='27 shapes (function, class shapes __init__/__new__/both/neither/custom metaclass/__slots__/both '
               'namedtuple flavours/ABC subclass/dataclass with a default_factory field/frozen slots dataclass/'
               'Exception subclass/falsy class (metaclass __len__ == 0)/builtin classes dict and OrderedDict, '
               'callable object, falsy callable object, bound Python method, builtin sum (called, parameter start '
               'bound), method-wrapper (5).__add__, slot wrapper int.__add__, method descriptor str.upper, bound '
               'builtin method {}.get (all four called), class with a registered method, class with registered '
               'staticmethod and classmethod members) x 3 registration APIs x 2 forms (name and module given; '
               'bare decorator / no name: name from __name__, module from __module__) x scoped or not x 3 uses '
               '(plain call; a positional argument over the bound parameter; a user subclass of the registry '
               'version); bound value: all ints; reached through get_configurable(object), get_configurable('
               'selector), the returned wrapper and an evaluated reference; registered methods also through '
               'scoped selectors, a scoped reference and inside an active scope'),
    'c13_reject': dict(
        fn='c13_reject',
        anchors=['gin.config:_make_configurable', 'gin.config:_validate_parameters', 'gin.config:interactive_mode',
                 'gin.config:enter_interactive_mode', 'gin.config:exit_interactive_mode'],
        smoke=[dict(case=0, api=1, interactive=0), dict(case=0, api=0, interactive=1),
               dict(case=4, api=2, interactive=2),
               dict(case=13, api=1, interactive=0), dict(case=14, api=0, interactive=0),
               dict(case=15, api=0, interactive=4), dict(case=15, api=2, interactive=0),
               dict(case=16, api=1, interactive=3), dict(case=16, api=2, interactive=4),
               dict(case=17, api=0, interactive=0), dict(case=18, api=1, interactive=3),
               dict(case=19, api=2, interactive=0), dict(case=20, api=0, interactive=1),
               dict(case=21, api=1, interactive=0), dict(case=22, api=2, interactive=0),
               dict(case=23, api=1, interactive=0), dict(case=24, api=2, interactive=0),
               dict(case=25, api=0, interactive=0), dict(case=25, api=1, interactive=3),
               dict(case=26, api=0, interactive=0), dict(case=26, api=2, interactive=1),
               dict(case=27, api=1, interactive=0), dict(case=28, api=1, interactive=0),
               dict(case=29, api=2, interactive=0), dict(case=0, api=2, interactive=3)],
        tiers={'quick': dict(split=dict(case=list(range(NC))), budget_s=100),
               'thorough': dict(split=dict(case=list(range(NC)), api=[0, 1, 2]), budget_s=300)},
        bounds='30 cases x 3 APIs x {outside, inside `with interactive_mode()`, after an interactive block that '
               'raised, between enter_interactive_mode() and exit_interactive_mode(), after '
               'exit_interactive_mode()}.  Rejected registrations: different object under an existing full name '
               '(also spelled through `name` alone with module=None), invalid names (leading digit, "a..b", '
               'identifier + trailing newline, the default name of a lambda through the bare form), invalid module '
               '("bad-mod", trailing newline), unknown allowlist / denylist name (plain function, function behind '
               'two functools.wraps layers, class with a separately registered method, __new__-only class, '
               '__init__ class, namedtuple, callable object without __name__, builtin sum, list given as a tuple), '
               'both lists (lists or tuples), a different callable object that compares equal to the registered '
               'one.  Accepted-or-rejected-atomically: the very same function / class / class with a registered '
               'method registered again (entry, injection and the original must stay intact), a new name and an '
               'existing name after finalize()'),
}
ASSUMPTIONS = ['registry contents are listed and cleaned up through the private _REGISTRY/_INVERSE_REGISTRY (test '
               'registrations must not leak between paths)',
               'bare-form registrations are reached through the selector <target.__module__>.<target.__name__> '
               '(just <__name__> when the target has no __module__), the documented defaults',
               'registering the very same object under its own name again outside interactive mode may either be '
               'accepted or raise ValueError (the statement allows both readings); registering after finalize() '
               'is judged only for atomicity (that it raises is property C12)']
OUTSIDE = ('not judged: a positional argument over a bound parameter for callable objects and bound Python methods '
           '(raises "multiple values" in gin - a caller-wins matter of C01, see POSITIONAL_SELF_SHIFT); whether a '
           'binding applies to a user subclass of the registry version (either value accepted); the result of calling '
           'a registered staticmethod through the registry version of its class; get_configurable(returned class); '
           'side effects of the dynamic subclass on __init_subclass__ / __subclasses__(); enum / typing.Generic / '
           'final builtin classes; nested interactive blocks; allowlist given as a str or set, an empty allowlist '
           'together with a denylist; module=""; callable objects without __name__ through the bare form; '
           '@gin.configurable on immutable builtin classes; async / generator functions; positional-only parameters')
