"""C13 - registration is transparent to the registered function or class."""
import abc
import collections
import inspect
import pickle
import typing

import gin
from gin import config as gc
from vf import rt
from vf import world

DA = -7


# ---- module-level shapes (picklable) for register / external_configurable ------
def m_fn(a=DA, b=2):
  """doc of m_fn"""
  return ('m_fn', a, b)


class MInit:
  """doc of MInit"""

  def __init__(self, a=DA):
    self.a = a


class MNew:
  """doc of MNew"""

  def __new__(cls, a=DA):
    self = super().__new__(cls)
    self.a = a
    return self


class MBoth:

  def __new__(cls, a=DA):
    self = super().__new__(cls)
    self.from_new = a
    return self

  def __init__(self, a=DA):
    self.a = a


class MNeither:
  """no constructor of its own"""
  a = DA


class Meta(type):

  def __call__(cls, *args, **kwargs):
    obj = super().__call__(*args, **kwargs)
    obj.via_meta = True
    return obj


class MMeta(metaclass=Meta):

  def __init__(self, a=DA):
    self.a = a


class MSlots:
  __slots__ = ('a',)

  def __init__(self, a=DA):
    self.a = a


class MNamed(typing.NamedTuple):
  a: int = DA
  b: int = 2


MColl = collections.namedtuple('MColl', ['a', 'b'], defaults=[DA, 2])


class MBase(abc.ABC):

  @abc.abstractmethod
  def run(self):
    pass


class MAbc(MBase):

  def __init__(self, a=DA):
    self.a = a

  def run(self):
    return self.a


class MCallable:

  def __call__(self, a=DA):
    return ('called', a)


M_CALLABLE = MCallable()

SHAPES = ['function', '__init__', '__new__', 'both', 'neither', 'metaclass', '__slots__',
          'typing.NamedTuple', 'collections.namedtuple', 'ABC subclass', 'callable object',
          'builtin', 'class with registered method']
MODULE_LEVEL = [m_fn, MInit, MNew, MBoth, MNeither, MMeta, MSlots, MNamed, MColl, MAbc, M_CALLABLE, sum]
NS = len(SHAPES)
APIS = ['configurable', 'register', 'external_configurable']


def fresh_shape(shape):
  """A brand-new function/class of the given shape (for the in-place decorating API)."""
  if shape == 0:
    def f_fn(a=DA, b=2):
      """doc of f_fn"""
      return ('f_fn', a, b)
    return f_fn
  if shape == 1:
    class FInit:
      """doc"""
      def __init__(self, a=DA):
        self.a = a
    return FInit
  if shape == 2:
    class FNew:
      def __new__(cls, a=DA):
        self = super().__new__(cls)
        self.a = a
        return self
    return FNew
  if shape == 3:
    class FBoth:
      def __new__(cls, a=DA):
        return super().__new__(cls)
      def __init__(self, a=DA):
        self.a = a
    return FBoth
  if shape == 4:
    class FNeither:
      a = DA
    return FNeither
  if shape == 5:
    class FMeta(metaclass=Meta):
      def __init__(self, a=DA):
        self.a = a
    return FMeta
  if shape == 6:
    class FSlots:
      __slots__ = ('a',)
      def __init__(self, a=DA):
        self.a = a
    return FSlots
  if shape == 7:
    class FNamed(typing.NamedTuple):
      a: int = DA
      b: int = 2
    return FNamed
  if shape == 8:
    return collections.namedtuple('FColl', ['a', 'b'], defaults=[DA, 2])
  if shape == 9:
    class FAbc(MBase):
      def __init__(self, a=DA):
        self.a = a
      def run(self):
        return self.a
    return FAbc
  if shape == 12:
    class FWithMethod:
      def __init__(self, a=DA):
        self.a = a
      @gin.register
      def meth(self, m=DA):
        return ('meth', m)
    return FWithMethod
  return None


def value_of(obj_or_result, shape):
  if shape in (0,):
    return obj_or_result[1]
  if shape == 10:
    return obj_or_result[1]
  if shape == 3 and hasattr(obj_or_result, 'a'):
    return obj_or_result.a
  return obj_or_result.a


def cleanup(names, objs):
  with rt.native():
    for n in names:
      if n in gc._REGISTRY:
        gc._REGISTRY.pop(n)
    for o in objs:
      try:
        gc._INVERSE_REGISTRY.pop(o, None)
      except TypeError:
        pass
    gc._RENAMED_SELECTORS.clear()


def c13_shapes(shape: int, api: int, scoped: bool, v: int) -> bool:
  """
  pre: 0 <= shape < 13 and 0 <= api < 3
  """
  world.fresh()
  shape = rt.pick(shape, NS)
  api = rt.pick(api, 3)
  scoped = rt.flag(scoped)
  if shape == 12 and api == 0:
    rt.discard()    # methods are renamed under their class only by register / external_configurable
  rt.sig(('shapes', SHAPES[shape], APIS[api], scoped), nontrivial=True)
  with rt.native():
    if api == 0 or shape == 12:
      target = fresh_shape(shape)
      if target is None:
        target = MODULE_LEVEL[shape] if shape in (10, 11) else None
    else:
      target = MODULE_LEVEL[shape]
    name = 'T%d' % shape
    sel = 'vw13.' + name
    is_class = inspect.isclass(target)
    before_vars = dict(vars(target)) if is_class else None
    before_sig = None
    try:
      before_sig = inspect.signature(target)
    except (TypeError, ValueError):
      pass
    before_doc, before_name = getattr(target, '__doc__', None), getattr(target, '__name__', None)
    before_mod = getattr(target, '__module__', None)
  names = [sel, sel + '.meth', 'vf.harness.c13.meth']
  try:
    if api == 0:
      ret = gin.configurable(name, module='vw13')(target)
    elif api == 1:
      ret = gin.register(name, module='vw13')(target)
    else:
      ret = gin.external_configurable(target, name, module='vw13')
    has_a = shape not in (4, 11)
    if has_a:
      gin.bind_parameter(('s' if scoped else '', sel, 'a'), v)
    with rt.native():
      # -- what the registration call returns ------------------------------------------------
      if api == 1 and ret is not target:
        return rt.no('register must return the very object')
      if api in (1, 2) and is_class:
        after = dict(vars(target))
        if set(after) != set(before_vars) or any(after[k] is not before_vars[k] for k in after):
          return rt.no('register/external_configurable altered the class')
      if api in (0, 2):
        if (before_name is not None and getattr(ret, '__name__', None) != before_name) or (
            getattr(ret, '__doc__', None) != before_doc):
          return rt.no('name/doc of the returned object')
        if shape != 11 and getattr(ret, '__module__', None) != before_mod:
          return rt.no('module of the returned object')
        if before_sig is not None and not is_class:
          if inspect.signature(ret) != before_sig:
            return rt.no('signature')
      if is_class and api in (0, 2):
        if not issubclass(ret, target):
          return rt.no('issubclass')
    # -- direct calls to the original receive nothing (register / external) --------------------
    def call(fn):
      if scoped:
        with gin.config_scope('s'):
          return fn()
      return fn()
    if api in (1, 2) and has_a and shape != 11:
      direct = call(target)
      if not rt.same('direct call must not be injected', value_of(direct, shape), DA):
        return False
    # -- the registry's version is injected, through every way of reaching it --------------------
    ways = [gin.get_configurable(target) if api != 0 else ret,
            gin.get_configurable(('s/' if scoped else '') + sel)]
    if api == 2:
      ways.append(ret)
    with rt.native():
      gin.parse_config('vw.cons.p = @%s%s()' % ('s/' if scoped else '', sel))
    for i, w in enumerate(ways):
      if shape == 11:
        break
      res = call(w) if i != 1 else w()
      if has_a and not rt.same('registry version injected', value_of(res, shape), v):
        return False
      with rt.native():
        if is_class:
          if not isinstance(res, target):
            return rt.no('instance of the original class')
          if shape != 12 and type(res) is not target and api != 0:
            return rt.no('exactly the original class when no method is overridden')
          if shape == 5 and not getattr(res, 'via_meta', False):
            return rt.no('custom metaclass __call__ bypassed')
          if api in (1, 2) and shape not in (12,):
            try:
              blob = pickle.dumps(target() if shape != 9 else target())
              can = True
            except Exception:
              can = False
            if can:
              # (an instance holding a symbolic value cannot be pickled: construct a
              # second one through the same registry version with a concrete argument)
              inst = (w(a=3) if has_a else w()) if i != 1 else (w(a=3) if has_a else w())
              back = pickle.loads(pickle.dumps(inst))
              if type(back) is not target or (has_a and back.a != 3):
                return rt.no('pickle round trip')
    if shape != 11:
      world.cons()
      got = world.LOG[-1][1][0]
      if has_a and not rt.same('via reference', value_of(got, shape), v):
        return False
    if shape == 12:
      with rt.native():
        obj = gin.get_configurable(sel)()
        gin.bind_parameter(sel + '.meth.m', 99)
        if obj.meth() != ('meth', 99):
          return rt.no('registered method not injected through the class')
        if target().meth() != ('meth', DA) and api != 0:
          return rt.no('method of the original class was altered')
    return True
  finally:
    cleanup(names, [target, getattr(target, 'meth', None)])


def registry_names():
  return set(gc._REGISTRY._selector_map)


def c13_reject(case: int, api: int, interactive: int) -> bool:
  """
  pre: 0 <= case < 13 and 0 <= api < 3 and 0 <= interactive < 3
  """
  world.fresh()
  case = rt.pick(case, 13)
  api = rt.pick(api, 3)
  interactive = rt.pick(interactive, 3)   # 0 no, 1 inside interactive_mode, 2 after a block that raised
  rt.sig(('reject', case, api, interactive), nontrivial=True)
  with rt.native():
    def first(a=1):
      return ('first', a)

    def second(a=1):
      return ('second', a)

    def reg(fn, name='c13r', module='vw13', allow=None, deny=None):
      if api == 0:
        return gin.configurable(name, module=module, allowlist=allow, denylist=deny)(fn)
      if api == 1:
        return gin.register(name, module=module, allowlist=allow, denylist=deny)(fn)
      return gin.external_configurable(fn, name, module=module, allowlist=allow, denylist=deny)

    try:
      reg(first)
      if case in (8, 9):
        _HOLD[0] = _cls_with_method()      # its method registers itself here, before the snapshot
      before = registry_names()
      if interactive == 2:
        try:
          with gin.config.interactive_mode():
            raise KeyError('body raised')
        except KeyError:
          pass
      exc = None
      try:
        if interactive == 1:
          with gin.config.interactive_mode():
            self_check = CASES[case](reg, second)
        else:
          CASES[case](reg, second)
      except Exception as e:
        exc = e
      after = registry_names()
      if case == 0 and interactive == 1:
        # re-registration of an existing name is allowed inside interactive mode only
        if exc is not None:
          return rt.no('interactive mode must allow re-registration')
        if gin.get_configurable('vw13.c13r')() != ('second', 1):
          return rt.no('re-registered version not used')
        return after == before
      if case in (8, 9):
        if api == 0:
          return True        # @gin.configurable does not re-key registered methods
        if exc is None or not isinstance(exc, ValueError):
          return rt.no('unknown allow/deny name must be rejected')
        if after != before:
          return rt.no('rejected class registration changed the registry: %r' % sorted(after ^ before))
        return True
      if case == 12 and interactive == 1:
        return exc is None
      if case == 12:
        if exc is None or not isinstance(exc, ValueError):
          return rt.no('an equal-but-different object under an existing name must be rejected')
        if gin.get_configurable('vw13.c13eq')() != ('eq', 1, 1):
          return rt.no('existing entry replaced by an equal-but-different object')
        return True
      if case == 7:
        # same object under the same name again: allowed, nothing changes
        return exc is None and after == before
      if exc is None or not isinstance(exc, (ValueError, TypeError)):
        return rt.no('case %d must be rejected, got %r' % (case, exc))
      if after != before:
        return rt.no('a rejected registration changed the registry: %r' % (after ^ before))
      if gin.get_configurable('vw13.c13r')() != ('first', 1):
        return rt.no('existing entry replaced by a rejected registration')
      return True
    finally:
      for n in list(registry_names()):
        if n.startswith('vw13.') or n in ('c13r', 'bad-mod.c13x', 'c13eq') or 'c13meth' in n or n.startswith('1bad') or '..' in n:
          gc._REGISTRY.pop(n)
      gc._INVERSE_REGISTRY.pop(first, None)
      gc._INVERSE_REGISTRY.pop(second, None)
      for o_ in list(gc._INVERSE_REGISTRY):
        if getattr(o_, '__name__', '') in ('c13meth', 'C13WithMethod'):
          del gc._INVERSE_REGISTRY[o_]
      gc._RENAMED_SELECTORS.clear()
      gc._INTERACTIVE_MODE = False


def _twice(fn):
  import functools

  def deco(g):
    @functools.wraps(g)
    def w(*a, **k):
      return g(*a, **k)
    return w
  return deco(deco(fn))


def _cls_with_method():
  class C13WithMethod:
    def __init__(self, a=1):
      self.a = a

    @gin.register
    def c13meth(self, m=0):
      return ('c13meth', m)
  return C13WithMethod


_HOLD = [None]


class EqCallable:
  """Callable objects that compare equal by label (identity must still decide)."""

  def __init__(self, label, k):
    self.label, self.k = label, k
    self.__name__ = 'eqc'

  def __call__(self, a=1):
    return ('eq', self.k, a)

  def __eq__(self, other):
    return isinstance(other, EqCallable) and other.label == self.label

  def __hash__(self):
    return hash(self.label)


CASES = [
    lambda reg, f: reg(f),                                   # 0 different object, existing full name
    lambda reg, f: reg(f, name='1bad'),                      # 1 invalid name
    lambda reg, f: reg(f, name='a..b'),                      # 2 invalid dotted name
    lambda reg, f: reg(f, name='c13x', module='bad-mod'),    # 3 invalid module
    lambda reg, f: reg(f, name='c13x', allow=['nope']),      # 4 unknown name in allowlist
    lambda reg, f: reg(f, name='c13x', deny=['nope']),       # 5 unknown name in denylist
    lambda reg, f: reg(f, name='c13x', allow=['a'], deny=['a']),  # 6 both lists
    lambda reg, f: None,                                     # 7 placeholder (same object again, below)
    lambda reg, f: reg(_HOLD[0], name='c13cls', allow=['nope']),   # 8 class with a registered method,
    lambda reg, f: reg(_HOLD[0], name='c13cls', deny=['nope']),    # 9 unknown allow / deny name
    lambda reg, f: reg(_twice(f), name='c13x', allow=['nope']),      # 10 two functools.wraps layers,
    lambda reg, f: reg(_twice(f), name='c13x', deny=['nope']),       # 11 unknown allow / deny name
    lambda reg, f: (reg(EqCallable('same', 1), name='c13eq'),        # 8 a DIFFERENT object that merely
                    reg(EqCallable('same', 2), name='c13eq')),       #   compares equal to the registered one
]


HARNESSES = {
    'c13_shapes': dict(
        fn='c13_shapes',
        anchors=['gin.config:_make_configurable', 'gin.config:_decorate_fn_or_cls', 'gin.config:register',
                 'gin.config:external_configurable', 'gin.config:get_configurable',
                 'gin.config:meta_call_wrapper'],
        smoke=[dict(shape=1, api=1, scoped=True, v=5), dict(shape=5, api=2, scoped=False, v=5),
               dict(shape=12, api=1, scoped=False, v=5), dict(shape=0, api=0, scoped=True, v=5),
               dict(shape=11, api=2, scoped=False, v=5)],
        tiers={'quick': dict(split=dict(shape=list(range(NS)), api=[0, 1, 2]), budget_s=100),
               'thorough': dict(split=dict(shape=list(range(NS)), api=[0, 1, 2], scoped=[False, True]),
                                budget_s=300)},
        bounds='13 shapes (function, 9 class shapes incl. custom metaclass, __slots__, both namedtuple flavours, ABC '
               'subclass, callable object, builtin, class with a registered method) x 3 registration APIs x scoped or '
               'not; bound value: all ints; reached through get_configurable(object), get_configurable(selector), the '
               'returned wrapper and an evaluated reference'),
    'c13_reject': dict(
        fn='c13_reject',
        anchors=['gin.config:_make_configurable', 'gin.config:_validate_parameters', 'gin.config:interactive_mode'],
        smoke=[dict(case=0, api=1, interactive=0), dict(case=0, api=0, interactive=1),
               dict(case=4, api=2, interactive=2)],
        tiers={'quick': dict(split=dict(case=list(range(13))), budget_s=100),
               'thorough': dict(split=dict(case=list(range(13)), api=[0, 1, 2]), budget_s=300)},
        bounds='12 rejected registrations (incl. a function behind two functools.wraps layers with an unknown allow/deny name; (incl. a class with a separately registered method and an unknown allow/deny name, (incl. a different callable object that compares equal to the registered one; (different object under an existing full name, invalid name x2, invalid module, '
               'unknown allowlist / denylist name, both lists) x 3 APIs x {outside, inside interactive mode, after an '
               'interactive block that raised}'),
}
ASSUMPTIONS = ['registry contents are listed and cleaned up through the private _REGISTRY/_INVERSE_REGISTRY (test '
               'registrations must not leak between paths)']
