"""C18 - shared records stay consistent under threads; singletons are constructed once.

Engine S (vf/sched): the schedule is the symbolic variable.  Thread programs are
recorded from the real code through proxies on gin.config's module-level
containers and locks; z3 decides over ALL interleavings of the recorded event
programs; every schedule it returns is forced on real threads running the real
code and only reported if the violation reproduces.
Engine X: sequential histories of singleton uses and clears.
"""
import json
import os
import subprocess
import sys

import gin
from vf import rt
from vf import world

ROOT = os.path.dirname(os.path.dirname(os.path.dirname(os.path.abspath(__file__))))


# ---------------------------------------------------------------------------------------------
# scenarios
# ---------------------------------------------------------------------------------------------
def _setup_operative():
  world.fresh()
  gin.parse_config(['vw.dflt.a = 1', 'a/vw.dflt.b = 2', 'b/vw.dflt.b = 3', 'vw.cons.p = [1, 2]'])


def _setup_operative_partial():
  """As above, but the record of ('a', dflt) already exists with only one of its
  parameters (the first call supplied the other one itself)."""
  _setup_operative()
  with gin.config_scope('a'):
    world.dflt(7)


def _call_in(scope):
  def prog():
    with gin.config_scope(scope):
      return world.dflt()
  return prog


def _reader():
  text = gin.operative_config_str()
  # every read parses (checked on the thread itself, natively, into a scratch parser)
  from gin import config_parser
  from vf.harness.c03 import Delegate
  list(config_parser.ConfigParser(text, Delegate()))
  return text


def _check_no_exception(results, final):
  for i, r in enumerate(results):
    if r is None:
      return 'thread %d did not finish' % i
    if r[0] == 'exc':
      return 'thread %d failed because of another thread: %r' % (i, r[1])
  return None


CONSTRUCTED = []


def _setup_singleton():
  world.fresh()
  del CONSTRUCTED[:]
  from vf.sched import proxies

  def hook(tag):
    CONSTRUCTED.append(tag)
    proxies.external('construct', tag)
  world.CONSTRUCT_HOOK[0] = hook
  gin.parse_config(['vw.cons.p = @k/gin.singleton()', 'vw.cons.q = @j/gin.singleton()',
                    'k/gin.singleton.constructor = @k/vw.mkobj', 'j/gin.singleton.constructor = @j/vw.mkobj',
                    "k/vw.mkobj.tag = 'k'", "j/vw.mkobj.tag = 'j'",
                    'vw.lit.p = @k/gin.singleton()'])


def _use_both():
  return tuple(id(x) for x in world.cons())


def _use_k():
  return (id(world.lit()[0]), None)


def _check_singleton(results, final):
  v = _check_no_exception(results, final)
  if v:
    return v
  for tag in ('k', 'j'):
    if CONSTRUCTED.count(tag) > 1:
      return 'singleton %r constructed %d times' % (tag, CONSTRUCTED.count(tag))
  ks = set(r[1][0] for r in results)
  js = set(r[1][1] for r in results if r[1][1] is not None)
  if len(ks) > 1 or len(js) > 1:
    return 'threads received different objects for one singleton'
  return None


def scenarios(tier):
  out = [
      ('operative: writer a | writer b | reader', [_call_in('a'), _call_in('b'), _reader],
       _setup_operative, _check_no_exception, 'standard'),
      ('operative: writer a | writer a | new section | reader'[:60],
       [_call_in('a'), _call_in('a'), world.cons, _reader][:4 if tier == 'thorough' else 3] + (
           [] if tier == 'thorough' else []),
       _setup_operative, _check_no_exception, 'standard'),
      ('operative: existing record gains a parameter | reader', [_call_in('a'), _reader],
       _setup_operative_partial, _check_no_exception, 'standard'),
      ('singleton: k,j | k,j', [_use_both, _use_both], _setup_singleton, _check_singleton, 'singleton'),
      ('singleton: k | k,j | k', [_use_k, _use_both, _use_k][:3 if tier == 'thorough' else 2],
       _setup_singleton, _check_singleton, 'singleton'),
  ]
  if tier == 'thorough':
    out.append(('operative: 2 writers | 2 readers', [_call_in('a'), _call_in('b'), _reader, _reader],
                _setup_operative, _check_no_exception, 'standard'))
  return out


def c18_forced(tier: str, scenario: int, schedule: str, shared: str) -> bool:
  """Forces one schedule on real threads (replay of a solver counterexample)."""
  from vf.sched import driver
  name, programs, setup, check, kind = scenarios(tier)[scenario]
  sched = [int(x) for x in schedule.split(',') if x != '']
  shared_set = set(shared.split('|'))

  def abstract(final):
    return {k: ('present' if str(t).startswith(('obj#', 'dict#')) else t)
            for k, t in final.items() if k[0] in shared_set}
  _, _, _, seq_final, _ = driver.run(programs, setup, 'solo')
  traces, results, errors, final, names = driver.run(programs, setup, 'forced', sched,
                                                     list(range(len(programs))), shared_set)
  v = check(results, final)
  if v is None and kind == 'standard' and abstract(final) != abstract(seq_final):
    v = 'final shared state differs from the sequential one: %r vs %r' % (
        sorted(abstract(final).items()), sorted(abstract(seq_final).items()))
  if v and os.environ.get('VERIF_EXPLAIN'):
    sys.stderr.write('FAIL: %s\n' % v)
  return v is None


def engine_s_main(tier, seed):
  """Runs inside the overlay venv (needs z3)."""
  import time
  import z3
  from vf.sched import driver
  t0 = time.time()
  cov = dict(states=0, queries=0, solver_s=0.0, replayed=0, samples=[], sigs={}, exhaustive=True,
             scenarios=[])
  violations, infra, functions = [], [], set()
  for idx, (name, programs, setup, check, kind) in enumerate(scenarios(tier)):
    def prop(model, scen, kind=kind):
      qs = driver.standard_queries(model, scen)
      if kind == 'singleton':
        for (obj, key), e in model.effects.items():
          qs.append(('constructor of %s called twice' % key,
                     [z3.UGT(model.eff[e][model.T], 1), z3.Not(model.div[model.T])]))
      return qs
    scen = driver.Scenario(name, programs, setup, prop, check,
                           ignore=('_OPERATIVE_CONFIG',) if kind == 'singleton' else ())
    try:
      vs, exhaustive = scen.solve()
    except Exception as e:  # pylint: disable=broad-except
      import traceback
      infra.append('%s: %s' % (name, traceback.format_exc()[-800:]))
      continue
    cov['states'] += scen.stats['states']
    cov['queries'] += scen.stats['queries']
    cov['solver_s'] += scen.stats['solver_s']
    cov['replayed'] += scen.forced_runs
    cov['samples'].extend(scen.samples)
    cov['sigs'][name] = True
    cov['exhaustive'] = cov['exhaustive'] and exhaustive and not vs
    cov['scenarios'].append(dict(name=name, threads=len(programs), learn_iterations=scen.stats['learn_iters'],
                                 forced_runs=scen.forced_runs, shared=sorted(getattr(scen, 'shared', []))))
    infra.extend(scen.infra)
    for text, sched in vs:
      violations.append(dict(text=text, kwargs=dict(tier=tier, scenario=idx,
                                                    schedule=','.join(map(str, sched)),
                                                    shared='|'.join(sorted(getattr(scen, 'shared', []))))))
  cov['solver_s'] = round(cov['solver_s'], 2)
  cov['wall_s'] = round(time.time() - t0, 1)
  return dict(coverage=cov, violations=violations, infra=infra,
              functions=['gin.config:singleton_value', 'gin.config:gin_wrapper',
                         'gin.config:operative_config_str', 'gin.config:_config_str'])


def engine_s(tier, seed):
  """Called by vf.runner (plain interpreter): runs Engine S in the overlay venv."""
  env = dict(os.environ)
  env.pop('VERIF_NO_CROSSHAIR', None)
  env['PYTHONPATH'] = ROOT + ':' + os.environ.get('VERIF_REPO', '/repo')
  p = subprocess.run([os.path.join(ROOT, '.venv', 'bin', 'python'), '-c',
                      'import json,sys; from vf.harness import c18; '
                      'sys.stdout.write("@@ENGINE@@" + json.dumps(c18.engine_s_main(%r, %d), default=repr))'
                      % (tier, seed)],
                     cwd=ROOT, env=env, capture_output=True, text=True, timeout=3000)
  i = p.stdout.rfind('@@ENGINE@@')
  if i < 0:
    return dict(coverage=dict(states=0, exhaustive=False), violations=[],
                infra=['engine S crashed: ' + (p.stderr or p.stdout)[-1500:]])
  res = json.loads(p.stdout[i + len('@@ENGINE@@'):])
  out_v = []
  for v in res['violations']:
    out_v.append(('PENDING', 'c18_forced', v['kwargs'], v['text']))
  res['violations'] = out_v
  return res


ENGINES = {'engine_s': engine_s}


# ---------------------------------------------------------------------------------------------
# Engine X: sequential histories of singleton uses and clears
# ---------------------------------------------------------------------------------------------
def c18_singleton_seq(n: int, o0: int, o1: int, o2: int, o3: int, o4: int) -> bool:
  """
  pre: 1 <= n <= 5 and 0 <= o0 < 5 and 0 <= o1 < 5 and 0 <= o2 < 5 and 0 <= o3 < 5 and 0 <= o4 < 5
  """
  world.fresh()
  ops = [rt.pick(o, 5) for o in (o0, o1, o2, o3, o4)[:n]]
  rt.sig(('singleton_seq', tuple(ops)), nontrivial=len(ops) >= 2)
  with rt.native():
    built = []
    world.CONSTRUCT_HOOK[0] = built.append
    text = ['vw.cons.p = @k/gin.singleton()', 'vw.cons.q = @j/gin.singleton()',
            'k/gin.singleton.constructor = @k/vw.mkobj', 'j/gin.singleton.constructor = @j/vw.mkobj',
            "k/vw.mkobj.tag = 'k'", "j/vw.mkobj.tag = 'j'", 'vw.lit.p = @k/gin.singleton()']
    gin.parse_config(text)
    current = {}          # reference: key -> object of this configuration lifetime
    try:
      for op in ops:
        if op == 0 or op == 1:           # use k and j / use k only
          before = list(built)
          res = world.cons() if op == 0 else (world.lit()[0], None)
          for key, obj in zip('kj', res):
            if obj is None:
              continue
            if key in current:
              if obj is not current[key]:
                return rt.no('a later use received a different object')
            else:
              current[key] = obj
          new = built[len(before):]
          if sorted(new) != sorted(set(new)):
            return rt.no('constructed twice in one use')
        elif op == 2:
          gin.clear_config()
          gin.parse_config(text)
          current = {}
        elif op == 3:                    # direct API with a different constructor: cache wins
          obj = gin.config.singleton_value('k', lambda: 'other')
          if 'k' in current:
            if obj is not current['k']:
              return rt.no('singleton_value ignored the cached object')
          else:
            current['k'] = obj
        else:                            # no constructor and nothing cached is an error
          try:
            obj = gin.config.singleton_value('k')
            if 'k' not in current or obj is not current['k']:
              return rt.no('singleton_value without constructor')
          except ValueError:
            if 'k' in current:
              return rt.no('cached singleton forgotten')
      # one construction per key per configuration lifetime
      return True
    finally:
      world.CONSTRUCT_HOOK[0] = None


HARNESSES = {
    'c18_singleton_seq': dict(
        fn='c18_singleton_seq',
        anchors=['gin.config:singleton_value', 'gin.config:singleton', 'gin.config:clear_config'],
        smoke=[dict(n=5, o0=0, o1=1, o2=2, o3=0, o4=3)],
        tiers={'quick': dict(split=dict(o0=list(range(5))), fixed=dict(n=4, o4=0), budget_s=100),
               'thorough': dict(split=dict(o0=list(range(5)), o1=list(range(5))), fixed=dict(n=5),
                                budget_s=300)},
        bounds='every history of 4 (quick) / 5 (thorough) operations from {use k and j through references, use k '
               'only, clear_config + re-parse, singleton_value with another constructor, singleton_value without '
               'constructor}'),
}
RULE = ('Engine S: one case per scenario (all interleavings of its recorded event programs decided by z3); Engine X: one '
        'case per operation history')
SOLVER_ROLE = ('decides schedules: z3 over the unrolled interleaving transition system of event programs recorded from the real '
               'code (unsat = no schedule violates); sat schedules are forced on real threads')
OUTSIDE = ('in the singleton scenarios the operative-record accesses (all under their own lock and checked by the operative '
           'scenarios) are abstracted away; switch points inside a single C-level dict operation (excluded by the GIL), free-threaded builds, more than 4 '
           'threads; iteration ORDER of a shared dict is abstracted (only the key set seen when an iterator is created '
           'selects the continuation)')
ASSUMPTIONS = ['shared state = module-level dicts and locks of gin.config found by scanning vars(gin.config) '
               '(listed per scenario in the evidence); a thread\'s event sequence depends only on its observations of '
               'shared reads (checked: a non-deterministic trace raises an infrastructure error)']
