"""C18 - shared records stay consistent under threads; singletons are constructed once.

Engine S (vf/sched): the schedule is the symbolic variable.  Thread programs are
recorded from the real code through proxies on gin.config's module-level
containers and locks; z3 decides over ALL interleavings of the recorded event
programs; every schedule it returns is forced on real threads running the real
code and only reported if the violation reproduces.
Engine X: sequential histories of singleton uses and clears.

Thread programs of the Engine S scenarios (scenarios()):
  operative record  - calls of one (scope, configurable) with different call shapes (dflt(7), dflt(b=8),
                      dflt(REQUIRED), dflt(7, b=REQUIRED)), a record written through the evaluation of a
                      reference (cons.p = @a/dflt()) racing a direct writer of the same key, macro and
                      constant consumers, nested / string-scoped / inherited scopes with the starting thread
                      holding a scope open, class and method configurables, dynamic registration; a reader.
                      Oracle: no thread fails, every read parses, every call delivers what it delivers alone,
                      the final operative config equals that of SOME sequential order (compared after every
                      forced run on the real dump, and by the solver on the modelled cells).
  singletons        - k/j through references; objects None / 0 / []; a constructor that raises on its first
                      call (the uses retry); scope names '' / a / b / a/b, uses from inside an enclosing scope;
                      a constructor that itself uses a singleton.  Oracle: one successful construction per
                      key, all uses of a key get that object, it is the object its own constructor made.
  informational     - a thread calling clear_config (outside the quantifier): decided, reported in the
                      evidence (engines.engine_s.informational), cannot fail the check.
"""
import json
import os
import subprocess
import sys

import gin
from vf import rt
from vf import world

ROOT = os.path.dirname(os.path.dirname(os.path.dirname(os.path.abspath(__file__))))
sys.path.insert(0, os.path.join(ROOT, 'fixtures'))      # vfx (dynamic-registration scenario)

from vf.sched import proxies as _px   # plain Python (no z3): also loaded by concrete replays


# ---------------------------------------------------------------------------------------------
# probes of this module (registered once per process under the Gin module path `vw18`)
# ---------------------------------------------------------------------------------------------
class Flaky(Exception):
  """raised by the flaky constructor on its first call"""


class Obj:
  """object delivered by the probe constructors: remembers which constructor call made it"""

  def __init__(self, tag, inner=None):
    self.tag, self.inner = tag, inner

  def __repr__(self):
    return 'Obj(%r)' % (self.tag,)


def _hook(tag):
  if world.CONSTRUCT_HOOK[0] is not None:
    world.CONSTRUCT_HOOK[0](tag)


if not hasattr(world, '_vw18'):
  # "the flaky constructor has not failed yet", as an event-producing cell: the constructor's
  # behaviour depends on it, so the engine has to see the access (external:flaky is modelled like
  # any other shared dict)
  _ARMED = _px.external_dict('flaky')

  @gin.configurable(module='vw18')
  def mk(tag='?', kind=0):
    """kind 0: Obj(tag); 1: None; 2: 0; 3: a new empty list; 4: raises on the first call, then Obj(tag).
    The construct hook only sees SUCCESSFUL constructions."""
    if kind == 4 and _ARMED.pop(tag, None):
      raise Flaky('first construction of %r fails' % (tag,))
    _hook(tag)
    return [Obj(tag), None, 0, []][kind] if kind < 4 else Obj(tag)

  @gin.configurable(module='vw18')
  def mkpair(inner=None, tag='?'):
    """a constructor that itself uses a singleton (bound to `inner`)"""
    _hook(tag)
    return Obj(tag, inner)

  @gin.configurable(module='vw18')
  def take(p=None, q=None):
    return (p, q)

  world._vw18 = dict(mk=mk, mkpair=mkpair, take=take, ARMED=_ARMED, Flaky=Flaky, Obj=Obj)
mk, mkpair, take = world._vw18['mk'], world._vw18['mkpair'], world._vw18['take']
ARMED, Flaky, Obj = world._vw18['ARMED'], world._vw18['Flaky'], world._vw18['Obj']


# ---------------------------------------------------------------------------------------------
# scenarios
# ---------------------------------------------------------------------------------------------
def _setup_operative():
  world.fresh()
  gin.parse_config(['vw.dflt.a = 1', 'a/vw.dflt.b = 2', 'b/vw.dflt.b = 3', 'vw.cons.p = [1, 2]'])


def _setup_operative_partial():
  """As above, but the record of ('a', dflt) already exists with only one of its
  parameters (the first call supplied the other one itself)."""
  _setup_operative()
  with gin.config_scope('a'):
    world.dflt(7)


def _call_in(scope):
  def prog():
    with gin.config_scope(scope):
      return world.dflt()
  return prog


from gin import config_parser as _config_parser
from vf.harness.c03 import Delegate as _Delegate    # imported here, never for the first time on a program thread


def _reader():
  text = gin.operative_config_str()
  # every read parses (checked on the thread itself, natively, into a scratch parser)
  list(_config_parser.ConfigParser(text, _Delegate()))
  return text


def _check_no_exception(results, final):
  for i, r in enumerate(results):
    if r is None:
      return 'thread %d did not finish' % i
    if r[0] == 'exc':
      return 'thread %d failed because of another thread: %r' % (i, r[1])
  return None


# ---- call shapes, reference-evaluated writers, macros/constants, scopes, classes and methods ----------
def _expecting(prog, expect, label):
  prog.expect, prog.label = expect, label
  return prog


def _shape(scope, shape):
  """One call of vw.dflt in `scope` with call shape 0: dflt()  1: dflt(7)  2: dflt(b=8)
  3: dflt(gin.REQUIRED)  4: dflt(7, b=gin.REQUIRED).  With `vw.dflt.a = 1`, `a/vw.dflt.b = 2` the
  records of the shapes differ ({a,b} / {b} / {a} / {a,b} / {b}), so a lost or merged update of
  one record is visible in the final operative config."""
  def prog():
    with gin.config_scope(scope):
      if shape == 0:
        return world.dflt()
      if shape == 1:
        return world.dflt(7)
      if shape == 2:
        return world.dflt(b=8)
      if shape == 3:
        return world.dflt(gin.REQUIRED)
      return world.dflt(7, b=gin.REQUIRED)
  return _expecting(prog, [(1, 2), (7, 2), (1, 8), (1, 2), (7, 2)][shape], 'shape %d' % shape)


def _setup_refwriter():
  world.fresh()
  gin.parse_config(['vw.dflt.a = 1', 'a/vw.dflt.b = 2', 'vw.cons.p = @a/vw.dflt()'])


def _cons_via_reference():
  return world.cons()          # its own record, then - through deepcopy of the reference - ('a', 'vw.dflt')


_cons_via_reference.expect = ((1, 2), None)


def _setup_macros():
  world.fresh()
  gin.constant('vw18c.K', 5)
  gin.parse_config(['M = 3', 'vw.dflt.a = %M', 'vw.dflt.b = %vw18c.K', 's/M = 4', 's/vw.dflt.a = %s/M'])


def _macro_consumer(scope):
  def prog():
    if scope:
      with gin.config_scope(scope):
        return world.dflt()
    return world.dflt()
  return _expecting(prog, (4, 5) if scope else (3, 5), 'macro consumer %r' % scope)


def _setup_scopes():
  world.fresh()
  gin.parse_config(['vw.dflt.a = 1', 'a/vw.dflt.b = 2', 'a/b/vw.dflt.b = 4', 'z/vw.dflt.b = 9', 'm/vw.dflt.a = 13',
                    'm/vw.dflt.b = 14'])
  # the thread that starts the workers keeps a scope open while they run: a worker's scope stack must
  # start empty (world.fresh() of the next setup drops this entry again)
  gin.config_scope('m').__enter__()


def _nested_ab():
  with gin.config_scope('a'):
    with gin.config_scope('b'):
      return world.dflt(), gin.current_scope()


_nested_ab.expect = ((1, 4), ['a', 'b'])


def _string_scoped_from_z():
  with gin.config_scope('z'):
    inner = gin.get_configurable('a/b/vw.dflt')()     # scope list REPLACES z for the call
    outer = world.dflt(7)                               # and z is back afterwards
    return inner, outer, gin.current_scope()


_string_scoped_from_z.expect = ((1, 4), (7, 9), ['z'])


def _scope_a_only():
  with gin.config_scope('a'):
    return world.dflt(7)


_scope_a_only.expect = (7, 2)


def _setup_classes():
  world.fresh()
  gin.parse_config(['vw.Kinit.a = 1', 'a/vw.Kreg.b = 2', 'vw.Kmeth.meth.a = 3', 'a/vw.Kmeth.meth.b = 4'])


def _class_direct():
  return world.Kinit().got, world.Kinit(b=8).got


_class_direct.expect = ((1, world.DB), (1, 8))


def _class_scoped_api():
  return gin.get_configurable('a/vw.Kreg')().got, gin.get_configurable('vw.Kreg')(5).got


_class_scoped_api.expect = ((world.DA, 2), (5, world.DB))


def _method(scoped):
  def prog():
    obj = gin.get_configurable('a/vw.Kmeth' if scoped else 'vw.Kmeth')()
    return obj.meth()
  return _expecting(prog, (3, 4) if scoped else (3, world.DB), 'method scoped=%r' % scoped)


def _setup_dynamic():
  world.fresh()
  gin.parse_config('from __gin__ import dynamic_registration\nimport vfx.alpha.mod as am\n'
                   'am.consumer.p = @am.fn()\nam.fn.x = 1\nsc/am.fn.y = 2\n')


def _dyn_consumer():
  import vfx.alpha.mod as am
  return gin.get_configurable(am.consumer)()


_dyn_consumer.expect = (('alpha.fn', 1, 0), None)


def _dyn_fn_scoped():
  import vfx.alpha.mod as am
  with gin.config_scope('sc'):
    return gin.get_configurable(am.fn)()


_dyn_fn_scoped.expect = ('alpha.fn', 1, 2)


def _check_calls(results, final, programs=None):
  """No thread fails; every call delivers what it delivers when it runs alone."""
  v = _check_no_exception(results, final)
  if v:
    return v
  for i, (r, prog) in enumerate(zip(results, programs or ())):
    if hasattr(prog, 'expect') and r[1] != prog.expect:
      return 'thread %d (%s): the call delivered %r; alone it delivers %r' % (
          i, getattr(prog, 'label', prog.__name__), r[1], prog.expect)
  return None


# ---- singletons -----------------------------------------------------------------------------------
CONSTRUCTED = []


def _install_construct_hook():
  del CONSTRUCTED[:]
  from vf.sched import proxies

  def hook(tag):
    CONSTRUCTED.append(tag)
    proxies.external('construct', tag)
  world.CONSTRUCT_HOOK[0] = hook


def _setup_singleton():
  world.fresh()
  _install_construct_hook()
  gin.parse_config(['vw.cons.p = @k/gin.singleton()', 'vw.cons.q = @j/gin.singleton()',
                    'k/gin.singleton.constructor = @k/vw.mkobj', 'j/gin.singleton.constructor = @j/vw.mkobj',
                    "k/vw.mkobj.tag = 'k'", "j/vw.mkobj.tag = 'j'",
                    'vw.lit.p = @k/gin.singleton()'])


def _use_both():
  return tuple(id(x) for x in world.cons())


def _use_k():
  return (id(world.lit()[0]), None)


def _check_singleton(results, final):
  v = _check_no_exception(results, final)
  if v:
    return v
  for tag in ('k', 'j'):
    if CONSTRUCTED.count(tag) > 1:
      return 'singleton %r constructed %d times' % (tag, CONSTRUCTED.count(tag))
  ks = set(r[1][0] for r in results)
  js = set(r[1][1] for r in results if r[1][1] is not None)
  if len(ks) > 1 or len(js) > 1:
    return 'threads received different objects for one singleton'
  return None


# Second generation of singleton scenarios.  Every key X has the consumer binding
# `cX/vw18.take.p = @X/gin.singleton()` and the constructor `@X/vw18.mk` with tag X; a program
# returns [(key, delivered object or ('exc', exception))...] in the order of its uses.
KINDS2 = {'k': 0, 'j': 0, 'n': 1, 'z': 2, 'e': 3, 'f': 4, 'a': 0, 'b': 0, 'a/b': 0}


def _c(key):
  return 'c' + key.replace('/', '_')


def _setup_singleton2():
  world.fresh()
  _install_construct_hook()
  dict.clear(ARMED)
  dict.__setitem__(ARMED, 'f', True)
  text = []
  for key, kind in KINDS2.items():
    text += ['%s/vw18.take.p = @%s/gin.singleton()' % (_c(key), key),
             '%s/gin.singleton.constructor = @%s/vw18.mk' % (key, key),
             '%s/vw18.mk.tag = %r' % (key, key), '%s/vw18.mk.kind = %d' % (key, kind)]
  # key '' (no scope at all): consumer vw.cons, called outside every scope
  text += ['vw.cons.p = @gin.singleton()', 'gin.singleton.constructor = @vw18.mk', "vw18.mk.tag = ''",
           'vw18.mk.kind = 0']
  # a constructor that itself uses a singleton: pair -> j   (reentrant use of the singleton lock)
  text += ['cpair/vw18.take.p = @pair/gin.singleton()', 'pair/gin.singleton.constructor = @pair/vw18.mkpair',
           "pair/vw18.mkpair.tag = 'pair'", 'pair/vw18.mkpair.inner = @j/gin.singleton()']
  gin.parse_config(text)


def _uses(*keys, **kw):
  """Uses the singletons `keys` one after another through their consumers.  '' is used through
  vw.cons outside every scope; a key written 'X@outer' is used from inside an enclosing scope
  (consumer scope cX/outer: the reference's own scope list replaces it)."""
  retry = kw.get('retry', False)

  def one(key):
    inside = key.endswith('@outer')
    key = key[:-6] if inside else key
    if key == '':
      return world.cons()[0]
    with gin.config_scope(_c(key)):
      if inside:
        with gin.config_scope('outer'):
          return take()[0]
      return take()[0]

  def prog():
    out = []
    for key in keys:
      name = key[:-6] if key.endswith('@outer') else key
      for attempt in range(2 if retry else 1):
        try:
          out.append((name, one(key)))
          break
        except Flaky as e:
          out.append((name, ('exc', e)))
    return out
  prog.label = 'uses %s' % (keys,)
  return prog


def _rejected_then(*keys):
  """A singleton use that Gin rejects at validation (no constructor given, nothing cached), then ordinary uses
  (round e seed C18-e: the rejection left the singleton lock held by that thread)."""
  base = _uses(*keys)

  def prog():
    out = []
    try:
      gin.config.singleton_value('c18_nokey')
      out.append(('c18_nokey', 'accepted'))
    except ValueError:
      pass
    return out + base()
  prog.label = 'rejected use, then uses %s' % (keys,)
  return prog


def _locks_left_held():
  from gin import config as gc
  """Names of gin's module-level locks that are still held although every thread of the run has finished (any
  later use from another thread would hang).  Tested from a fresh thread; a lock found held is replaced by a new
  one of the same type so that the next run of this process starts clean."""
  import threading
  held = []
  for name in ('_SINGLETONS_LOCK', '_OPERATIVE_CONFIG_LOCK'):
    lock = getattr(gc, name, None)
    lock = getattr(lock, '_real', lock)
    if lock is None:
      continue
    got = []

    def probe(lock=lock, got=got):
      if lock.acquire(blocking=False):
        lock.release()
        got.append(True)
    t = threading.Thread(target=probe)
    t.start()
    t.join()            # the probe never blocks (non-blocking acquire), so this cannot hang - and a loaded machine
    #                     cannot make a free lock look held
    if not got:
      held.append(name)
      setattr(gc, name, type(lock)())
  return held


def _check_singleton2(results, final):
  for i, r in enumerate(results):
    if r is None:
      return 'thread %d did not finish' % i
    if r[0] == 'exc':
      return 'thread %d failed: %r' % (i, r[1])
  held = _locks_left_held()
  if held:
    return 'every thread has finished but %s is still held: the next use from another thread hangs' % ', '.join(held)
  for tag in set(CONSTRUCTED):
    if CONSTRUCTED.count(tag) > 1:
      return 'singleton %r constructed %d times' % (tag, CONSTRUCTED.count(tag))
  got, failed = {}, {}
  for i, r in enumerate(results):
    for key, obj in r[1]:
      if isinstance(obj, tuple) and len(obj) == 2 and obj[0] == 'exc':
        failed[key] = failed.get(key, 0) + 1
        continue
      got.setdefault(key, []).append(obj)
  for key, n in failed.items():
    # the flaky constructor fails exactly once: only the use that made that call may see the failure
    if KINDS2.get(key) != 4 or n > 1:
      return 'singleton %r: %d uses failed' % (key, n)
  for key, objs in got.items():
    for o in objs[1:]:
      if o is not objs[0]:
        return 'uses of singleton %r received different objects' % (key,)
    o = objs[0]
    kind = KINDS2.get(key, 0)
    want_type = {1: type(None), 2: int, 3: list}.get(kind, Obj)
    if type(o) is not want_type or (want_type is Obj and o.tag != key):
      return 'singleton %r delivered %r, which its constructor did not make' % (key, o)
    if CONSTRUCTED.count(key) != 1:
      return 'singleton %r delivered but constructed %d times' % (key, CONSTRUCTED.count(key))
    if key == 'pair' and 'j' in got and o.inner is not got['j'][0]:
      return "the constructor of 'pair' received another object for singleton 'j' than the direct uses"
  objs = [v[0] for k, v in got.items() if KINDS2.get(k, 0) in (0, 4)]
  if len(set(map(id, objs))) != len(objs):
    return 'two different scope names share one object'
  return None


# ---- outside the quantifier: a clearing thread (reported, never failing the check) ------------------
def _clearer():
  gin.clear_config()
  return 'cleared'


def _direct_k():
  """first use of k through the Python API (works whether or not the configuration was cleared)"""
  def ctor():
    _hook('k')
    return Obj('k')
  with gin.config_scope('k'):
    return [('k', gin.get_configurable('gin.singleton')(ctor))]


def _check_informational(results, final):
  """Describes what a forced run showed (so that a solver schedule can be confirmed); the caller
  only reports it."""
  for i, r in enumerate(results):
    if r is None:
      return 'thread %d did not finish' % i
    if r[0] == 'exc':
      return 'thread %d fails: %r' % (i, r[1])
  return None        # (a second construction after the clear is legitimate: not an observation)


def scenarios(tier):
  thorough = tier == 'thorough'
  out = [
      ('operative: writer a | writer b | reader', [_call_in('a'), _call_in('b'), _reader],
       _setup_operative, _check_no_exception, 'standard'),
      ('operative: writer a | writer a | new section | reader'[:60],
       [_call_in('a'), _call_in('a'), world.cons, _reader][:4 if tier == 'thorough' else 3] + (
           [] if tier == 'thorough' else []),
       _setup_operative, _check_no_exception, 'standard'),
      ('operative: existing record gains a parameter | reader', [_call_in('a'), _reader],
       _setup_operative_partial, _check_no_exception, 'standard'),
      ('singleton: k,j | k,j', [_use_both, _use_both], _setup_singleton, _check_singleton, 'singleton'),
      ('singleton: k | k,j | k', [_use_k, _use_both, _use_k][:3 if tier == 'thorough' else 2],
       _setup_singleton, _check_singleton, 'singleton'),
  ]
  if tier == 'thorough':
    out.append(('operative: 2 writers | 2 readers', [_call_in('a'), _call_in('b'), _reader, _reader],
                _setup_operative, _check_no_exception, 'standard'))
  # ---- widened vocabulary (appended: the indices above are referred to by recorded replays) --------
  out += [
      # two FIRST calls of one (scope, configurable) whose records differ: {b} and {a}
      ('shapes: a:dflt(7) | a:dflt(b=8) | reader', [_shape('a', 1), _shape('a', 2), _reader],
       _setup_operative, _check_calls, 'calls'),
      ('shapes: a:dflt(REQUIRED) | a:dflt(7) | a:dflt(b=8) | a:dflt(7, b=REQUIRED)',
       [_shape('a', 3), _shape('a', 1), _shape('a', 2), _shape('a', 4)][:4 if thorough else 3],
       _setup_operative, _check_calls, 'calls'),
      ('existing {b} record: a:dflt(b=8) | a:dflt(REQUIRED) | reader', [_shape('a', 2), _shape('a', 3), _reader],
       _setup_operative_partial, _check_calls, 'calls'),
      # a record written through the evaluation of a reference, racing a direct writer of the same key
      ('reference: cons(p=@a/dflt()) | a:dflt(7) | reader', [_cons_via_reference, _shape('a', 1), _reader],
       _setup_refwriter, _check_calls, 'calls'),
      ('reference: cons(p=@a/dflt()) | cons(p=@a/dflt()) | a:dflt(b=8)',
       [_cons_via_reference, _cons_via_reference, _shape('a', 2)] + ([_reader] if thorough else []),
       _setup_refwriter, _check_calls, 'calls'),
      # macro and constant records ('M', 'gin.macro') / ('vw18c.K', 'gin.constant')
      ('macros: dflt(a=%M, b=%K) | s:dflt(a=%s/M) | reader', [_macro_consumer(''), _macro_consumer('s'), _reader],
       _setup_macros, _check_calls, 'calls'),
      ('macros: dflt(a=%M, b=%K) | dflt(a=%M, b=%K) | reader', [_macro_consumer(''), _macro_consumer(''), _reader],
       _setup_macros, _check_calls, 'calls'),
      # nested scope, string-scoped API from inside another scope, starter thread holds a scope open
      ('scopes: a/b nested | z: get_configurable(a/b/dflt) | a:dflt(7) | reader; starter in scope m',
       [_nested_ab, _string_scoped_from_z, _reader] + ([_scope_a_only] if thorough else []),
       _setup_scopes, _check_calls, 'calls'),
      # class and method configurables
      ('classes: Kinit() x2 | get_configurable(a/Kreg)() | reader', [_class_direct, _class_scoped_api, _reader],
       _setup_classes, _check_calls, 'calls'),
      ('methods: a/Kmeth().meth() | Kmeth().meth() | reader', [_method(True), _method(False), _reader],
       _setup_classes, _check_calls, 'calls'),
      # reader under dynamic registration (Python-level loops over the live record)
      ('dynamic registration: consumer(p=@am.fn()) | sc:am.fn() | reader', [_dyn_consumer, _dyn_fn_scoped, _reader],
       _setup_dynamic, _check_calls, 'calls'),
      # ---- singletons ----
      ('singleton2: falsy objects  n,e,z | e,n,z', [_uses('n', 'e', 'z'), _uses('e', 'n', 'z')],
       _setup_singleton2, _check_singleton2, 'singleton2'),
      ('singleton2: constructor fails once  f(retry) | f(retry)' + (' | f' if thorough else ''),
       [_uses('f', retry=True), _uses('f', retry=True)] + ([_uses('f')] if thorough else []),
       _setup_singleton2, _check_singleton2, 'singleton2'),
      ("singleton2: key shapes  '',a/b | a,a/b@outer | b,''",
       [_uses('', 'a/b'), _uses('a', 'a/b@outer'), _uses('b', '')][:3 if thorough else 2],
       _setup_singleton2, _check_singleton2, 'singleton2'),
      ("singleton2: key shapes  a/b,b | b,a/b@outer", [_uses('a/b', 'b'), _uses('b', 'a/b@outer')],
       _setup_singleton2, _check_singleton2, 'singleton2'),
      ('singleton2: constructor uses a singleton  pair | j,pair', [_uses('pair'), _uses('j', 'pair')],
       _setup_singleton2, _check_singleton2, 'singleton2'),
      ('singleton2: a rejected use first  (rejected),j | j,n', [_rejected_then('j'), _uses('j', 'n')],
       _setup_singleton2, _check_singleton2, 'singleton2'),
  ]
  return out


def _setup_operative_info():
  _setup_operative()
  del CONSTRUCTED[:]


def informational_scenarios(tier):
  """Thread programs OUTSIDE the quantifier of the property (it lists: call configurables, read the
  operative config, use singletons).  Decided like the others, reported in the evidence, and unable to
  fail the check."""
  return [
      ('outside quantifier: clear_config() | first use of k (Python API) | first use of k (Python API)',
       [_clearer, _direct_k, _direct_k], _setup_singleton2, _check_informational, 'informational'),
      ('outside quantifier: clear_config() | a:dflt(7) | a:dflt(b=8)',
       [_clearer, _shape('a', 1), _shape('a', 2)], _setup_operative_info, _check_informational, 'informational'),
  ]


def _seq_finals(programs, setup):
  from vf.sched import driver
  return driver.sequential_finals(programs, setup)


def c18_forced(tier: str, scenario: int, schedule: str, shared: str) -> bool:
  """Forces one schedule on real threads (replay of a solver counterexample)."""
  from vf.sched import driver
  name, programs, setup, check, kind = scenarios(tier)[scenario]
  sched = [int(x) for x in schedule.split(',') if x != '']
  shared_set = set(shared.split('|'))

  def abstract(final):
    return {k: ('present' if str(t).startswith(('obj#', 'dict#')) else t)
            for k, t in final.items() if k[0] in shared_set or k[0].startswith('_OPERATIVE_CONFIG')}
  if kind == 'calls':
    seq_finals = driver.sequential_finals(programs, setup)
  else:
    seq_finals = [driver.run(programs, setup, 'solo')[3]]
  traces, results, errors, final, names = driver.run(programs, setup, 'forced', sched,
                                                     list(range(len(programs))), shared_set)
  if _px.CTL.unfaithful:
    raise RuntimeError('the forced run went on without a lock it needed (%r): not an execution of the real code'
                       % (errors,))
  v = _run_check(check, results, final, programs)
  if v is None and kind in ('standard', 'calls') and abstract(final) not in [abstract(f) for f in seq_finals]:
    v = 'final shared state differs from the sequential one: %r vs %r' % (
        sorted(abstract(final).items()), sorted(abstract(seq_finals[0]).items()))
  if v and os.environ.get('VERIF_EXPLAIN'):
    sys.stderr.write('FAIL: %s\n' % v)
  return v is None


def _run_check(check, results, final, programs):
  if check is _check_calls:
    return check(results, final, programs)
  return check(results, final)


def _solve_one(idx, scen_tuple, cov, violations, infra, tier, informational=False, ignore=None):
  import z3
  from vf.sched import driver
  name, programs, setup, check, kind = scen_tuple

  def prop(model, scen):
    qs = driver.standard_queries(model, scen)
    if kind in ('singleton', 'singleton2', 'informational'):
      for (obj, key), e in model.effects.items():
        if obj == 'external:construct':
          qs.append(('constructor of %s called twice' % key,
                     [z3.UGT(model.eff[e][model.T], 1), z3.Not(model.div[model.T])]))
    return qs
  scen = driver.Scenario(name, programs, setup, prop,
                         lambda results, final: _run_check(check, results, final, programs),
                         ignore=ignore if ignore is not None else (
                             ('_OPERATIVE_CONFIG',) if kind in ('singleton', 'singleton2') else ()),
                         permute=kind in ('calls', 'informational'),
                         final_objects=('_OPERATIVE_CONFIG',) if kind in ('standard', 'calls') else ())
  try:
    vs, exhaustive = scen.solve()
  except Exception as e:  # pylint: disable=broad-except
    import traceback
    (cov['informational'] if informational else infra).append('%s: %s' % (name, traceback.format_exc()[-800:]))
    return
  entry = dict(name=name, threads=len(programs), learn_iterations=scen.stats['learn_iters'],
               forced_runs=scen.forced_runs, shared=sorted(getattr(scen, 'shared', [])))
  if informational:
    entry['outcome'] = ([t for t, _ in vs] + list(scen.infra)) or ['no schedule fails a query']
    cov['informational'].append(entry)
    return
  cov['states'] += scen.stats['states']
  cov['queries'] += scen.stats['queries']
  cov['solver_s'] += scen.stats['solver_s']
  cov['replayed'] += scen.forced_runs
  cov['samples'].extend(scen.samples)
  cov['sigs'][name] = True
  cov['exhaustive'] = cov['exhaustive'] and exhaustive and not vs
  cov['scenarios'].append(entry)
  infra.extend(scen.infra)
  for text, sched in vs:
    violations.append(dict(text=text, kwargs=dict(tier=tier, scenario=idx,
                                                  schedule=','.join(map(str, sched)),
                                                  shared='|'.join(sorted(getattr(scen, 'shared', []))))))


def engine_s_main(tier, seed):
  """Runs inside the overlay venv (needs z3)."""
  import time
  t0 = time.time()
  cov = dict(states=0, queries=0, solver_s=0.0, replayed=0, samples=[], sigs={}, exhaustive=True,
             scenarios=[], informational=[])
  violations, infra = [], []
  only = os.environ.get('VERIF_SCEN')      # development aid: comma-separated scenario indices
  for idx, tup in enumerate(scenarios(tier)):
    if only and str(idx) not in only.split(','):
      continue
    t1 = time.time()
    if violations:
      # a schedule has been found already: the remaining scenarios still run, but a scenario whose
      # (changed) code makes the model large may give up early - as a note, never as a verdict
      from vf.sched import bmc
      bmc.Model.TIMEOUT_MS = 15000
    _solve_one(idx, tup, cov, violations, infra, tier)
    if os.environ.get('VERIF_EXPLAIN'):
      sys.stderr.write('scenario %d %.1fs %s\n' % (idx, time.time() - t1, tup[0]))
  if not only or 'info' in only.split(','):
    from vf.sched import bmc
    bmc.Model.TIMEOUT_MS = 20000
    for idx, tup in enumerate(informational_scenarios(tier)):
      t1 = time.time()
      # (in the singleton one the accesses to the bindings and to the operative record are abstracted
      # away: the Python-API uses do not depend on them)
      _solve_one(idx, tup, cov, [], [], tier, informational=True,
                 ignore=('_CONFIG', '_OPERATIVE_CONFIG') if 'first use' in tup[0] else ())
      if os.environ.get('VERIF_EXPLAIN'):
        sys.stderr.write('informational %d %.1fs %s\n' % (idx, time.time() - t1, tup[0]))
  cov['samples'] = cov['samples'][:8]
  cov['solver_s'] = round(cov['solver_s'], 2)
  cov['wall_s'] = round(time.time() - t0, 1)
  return dict(coverage=cov, violations=violations, infra=infra,
              functions=['gin.config:singleton_value', 'gin.config:gin_wrapper',
                         'gin.config:operative_config_str', 'gin.config:_config_str'])


def engine_s(tier, seed):
  """Called by vf.runner (plain interpreter): runs Engine S in the overlay venv."""
  env = dict(os.environ)
  env.pop('VERIF_NO_CROSSHAIR', None)
  env['PYTHONPATH'] = ROOT + ':' + os.environ.get('VERIF_REPO', '/repo')
  p = subprocess.run([os.path.join(ROOT, '.venv', 'bin', 'python'), '-c',
                      'import json,sys; from vf.harness import c18; '
                      'sys.stdout.write("@@ENGINE@@" + json.dumps(c18.engine_s_main(%r, %d), default=repr))'
                      % (tier, seed)],
                     cwd=ROOT, env=env, capture_output=True, text=True, timeout=3000)
  i = p.stdout.rfind('@@ENGINE@@')
  if i < 0:
    return dict(coverage=dict(states=0, exhaustive=False), violations=[],
                infra=['engine S crashed: ' + (p.stderr or p.stdout)[-1500:]])
  res = json.loads(p.stdout[i + len('@@ENGINE@@'):])
  out_v = []
  for v in res['violations']:
    out_v.append(('PENDING', 'c18_forced', v['kwargs'], v['text']))
  res['violations'] = out_v
  return res


ENGINES = {'engine_s': engine_s}


# ---------------------------------------------------------------------------------------------
# Engine X: sequential histories of singleton uses and clears
# ---------------------------------------------------------------------------------------------
SEQ_TEXT = ['vw.cons.p = @k/gin.singleton()', 'vw.cons.q = @j/gin.singleton()',
            'k/gin.singleton.constructor = @k/vw.mkobj', 'j/gin.singleton.constructor = @j/vw.mkobj',
            "k/vw.mkobj.tag = 'k'", "j/vw.mkobj.tag = 'j'", 'vw.lit.p = @k/gin.singleton()',
            # falsy objects, a constructor that fails once, key shapes
            'cne/vw18.take.p = @n/gin.singleton()', 'cne/vw18.take.q = @e/gin.singleton()',
            'n/gin.singleton.constructor = @n/vw18.mk', "n/vw18.mk.tag = 'n'", 'n/vw18.mk.kind = 1',
            'e/gin.singleton.constructor = @e/vw18.mk', "e/vw18.mk.tag = 'e'", 'e/vw18.mk.kind = 3',
            'cf/vw18.take.p = @f/gin.singleton()',
            'f/gin.singleton.constructor = @f/vw18.mk', "f/vw18.mk.tag = 'f'", 'f/vw18.mk.kind = 4',
            'cab/vw18.take.p = @a/b/gin.singleton()', 'cab/vw18.take.q = @b/gin.singleton()',
            'a/b/gin.singleton.constructor = @a/b/vw18.mk', "a/b/vw18.mk.tag = 'a/b'",
            'b/gin.singleton.constructor = @b/vw18.mk', "b/vw18.mk.tag = 'b'",
            'vw.kwo.a = @gin.singleton()', 'gin.singleton.constructor = @vw18.mk', "vw18.mk.tag = ''"]
KEY_OF_TAG = {'k': 'k', 'kk': 'k', 'k2': 'k', 'other': 'k', 'py': 'k', 'j': 'j', 'n': 'n', 'e': 'e', 'f': 'f',
              'a/b': 'a/b', 'b': 'b', '': '', 'other0': ''}
NOPS_OLD, NOPS = 5, 17
OPNAMES = ['use k,j (references)', 'use k (reference)', 'clear_config + re-parse',
           'singleton_value(k, other constructor)', 'singleton_value(k)', 'clear_config (no re-parse)',
           'clear_config(clear_constants=True) + re-parse', 'rebind constructor of k', 'rebind tag of k',
           'bind a non-callable constructor for k', 'bind the original constructor for k',
           "config_scope('k'): get_configurable('gin.singleton')(ctor)", 'finalize',
           'use n (None), e ([])', 'use f (constructor fails once)', 'use a/b, b from inside a scope',
           "use '' (reference and API)"]


def _seq(ops):
  """Runs one history against the reference model.

  Model: per configuration lifetime (from start / from a clear) every key is constructed at most
  once; the first delivery of a key needs a construction in THIS lifetime; every later delivery is
  that same object, whatever constructor is bound or passed by then; a use fails exactly when the
  key is not cached and there is no usable constructor (or the flaky constructor makes its one
  failing call), and a failed use caches nothing."""
  built = []
  world.CONSTRUCT_HOOK[0] = built.append
  dict.clear(ARMED)
  dict.__setitem__(ARMED, 'f', True)
  gin.parse_config(SEQ_TEXT)
  st = dict(current={}, start=0, parsed=True, ctor='ok', locked=False, armed=True)

  def made():
    return [KEY_OF_TAG[t] for t in built[st['start']:]]

  def deliver(key, obj, before):
    """`obj` was delivered for `key`; `before`: keys constructed in this lifetime before the op."""
    cur = st['current']
    if key in cur:
      if obj is not cur[key]:
        return 'a later use of %r received a different object' % (key,)
    else:
      if key not in made():
        return 'singleton %r delivered without a construction in this configuration lifetime' % (key,)
      cur[key] = obj
    return None

  def invariant():
    m = made()
    for key in set(m):
      if m.count(key) > 1:
        return 'singleton %r constructed %d times in one configuration lifetime' % (key, m.count(key))
    return None

  def new_life(reparse):
    st['current'], st['start'], st['locked'], st['ctor'] = {}, len(built), False, 'ok'
    st['parsed'] = reparse
    if reparse:
      gin.parse_config(SEQ_TEXT)

  def bind(lines):
    if st['locked']:
      with gin.unlock_config():
        gin.parse_config(lines)
    else:
      gin.parse_config(lines)

  def other(tag):
    def ctor():
      built.append(tag)
      return Obj(tag)
    return ctor

  try:
    for op in ops:
      before = made()
      v = None
      if op in (0, 1):                    # use k and j / use k only, through references
        call = world.cons if op == 0 else world.lit
        expect_fail = st['parsed'] and 'k' not in before and st['ctor'] == 'bad'
        try:
          res = call()
          if expect_fail:
            return rt.no('a use with a non-callable constructor and nothing cached succeeded')
          if not st['parsed']:
            if res != (None, None):
              return rt.no('bindings survived clear_config')
          else:
            v = deliver('k', res[0], before) or (op == 0 and deliver('j', res[1], before)) or None
        except ValueError:
          if not expect_fail:
            return rt.no('a use failed although the singleton is cached or its constructor is fine')
          if 'k' in made():
            return rt.no('a failed use constructed the singleton')
      elif op in (2, 5, 6):
        if op == 6:
          gin.clear_config(clear_constants=True)
        else:
          gin.clear_config()
        new_life(reparse=op != 5)
      elif op in (3, 4, 11):              # Python API: other constructor / no constructor / plain call in scope k
        try:
          if op == 3:
            obj = gin.config.singleton_value('k', other('other'))
          elif op == 4:
            obj = gin.config.singleton_value('k')
          else:
            with gin.config_scope('k'):
              obj = gin.get_configurable('gin.singleton')(other('py'))
          if op == 4 and 'k' not in before:
            return rt.no('singleton_value without constructor and nothing cached succeeded')
          v = deliver('k', obj, before)
        except ValueError:
          if op != 4 or 'k' in before:
            return rt.no('cached singleton forgotten, or a usable constructor rejected')
      elif op == 7:                       # another constructor for k: the cached object must win
        bind(['k/gin.singleton.constructor = @k/vw18.mk', "k/vw18.mk.tag = 'k2'"])
        st['ctor'] = 'ok'
      elif op == 8:
        bind(["k/vw.mkobj.tag = 'kk'"])
      elif op == 9:                       # an evaluated (hence non-callable) constructor result
        bind(['k/gin.singleton.constructor = @k/vw.src()'])
        st['ctor'] = 'bad'
      elif op == 10:
        bind(['k/gin.singleton.constructor = @k/vw.mkobj'])
        st['ctor'] = 'ok'
      elif op == 12:
        if not st['locked']:
          gin.finalize()
          st['locked'] = True
      elif op == 13:                      # falsy objects
        with gin.config_scope('cne'):
          res = take()
        if not st['parsed']:
          if res != (None, None):
            return rt.no('bindings survived clear_config')
        else:
          if res[0] is not None or type(res[1]) is not list:
            return rt.no('falsy singleton objects not delivered')
          v = deliver('n', res[0], before) or deliver('e', res[1], before)
      elif op == 14:                      # constructor that fails on its first call
        expect_fail = st['parsed'] and 'f' not in before and st['armed']
        try:
          with gin.config_scope('cf'):
            res = take()
          if expect_fail:
            return rt.no('the failing constructor call was swallowed')
          if st['parsed']:
            v = deliver('f', res[0], before)
        except Flaky:
          if not expect_fail:
            return rt.no('a use failed although the singleton is cached or its constructor works')
          st['armed'] = False
          if 'f' in made():
            return rt.no('a failed construction was cached')
      elif op == 15:                      # nested scope name, used from inside an enclosing scope
        with gin.config_scope('cab'):
          with gin.config_scope('outer'):
            res = take()
        if st['parsed']:
          v = deliver('a/b', res[0], before) or deliver('b', res[1], before)
          if v is None and (res[0] is res[1] or res[0].tag != 'a/b' or res[1].tag != 'b'):
            return rt.no("keys 'a/b' and 'b' are not kept apart")
      else:                               # key '': reference outside every scope and the API
        if st['parsed']:
          v = deliver('', world.kwo()[0], before)
          before = made()
        if v is None:
          v = deliver('', gin.config.singleton_value('', other('other0')), before)
      v = v or invariant()
      if v:
        return rt.no(v)
    return True
  finally:
    world.CONSTRUCT_HOOK[0] = None


def c18_singleton_seq(n: int, o0: int, o1: int, o2: int, o3: int, o4: int) -> bool:
  """
  pre: 1 <= n <= 5 and 0 <= o0 < 5 and 0 <= o1 < 5 and 0 <= o2 < 5 and 0 <= o3 < 5 and 0 <= o4 < 5
  """
  world.fresh()
  ops = [rt.pick(o, NOPS_OLD) for o in (o0, o1, o2, o3, o4)[:n]]
  rt.sig(('singleton_seq', tuple(ops)), nontrivial=len(ops) >= 2)
  with rt.native():
    return _seq(ops)


def c18_singleton_hist(n: int, o0: int, o1: int, o2: int, o3: int) -> bool:
  """
  pre: 1 <= n <= 4 and 0 <= o0 < 17 and 0 <= o1 < 17 and 0 <= o2 < 17 and 0 <= o3 < 17
  """
  world.fresh()
  ops = [rt.pick(o, NOPS) for o in (o0, o1, o2, o3)[:n]]
  rt.sig(('singleton_hist', tuple(ops)), nontrivial=len(ops) >= 2)
  with rt.native():
    return _seq(ops)


HARNESSES = {
    'c18_singleton_seq': dict(
        fn='c18_singleton_seq',
        anchors=['gin.config:singleton_value', 'gin.config:singleton', 'gin.config:clear_config'],
        smoke=[dict(n=5, o0=0, o1=1, o2=2, o3=0, o4=3)],
        tiers={'quick': dict(split=dict(o0=list(range(5))), fixed=dict(n=4, o4=0), budget_s=100),
               'thorough': dict(split=dict(o0=list(range(5)), o1=list(range(5))), fixed=dict(n=5),
                                budget_s=300)},
        bounds='every history of 4 (quick) / 5 (thorough) operations from {use k and j through references, use k '
               'only, clear_config + re-parse, singleton_value with another constructor, singleton_value without '
               'constructor}'),
    'c18_singleton_hist': dict(
        fn='c18_singleton_hist',
        anchors=['gin.config:singleton_value', 'gin.config:singleton', 'gin.config:clear_config',
                 'gin.config:finalize', 'gin.config:unlock_config'],
        smoke=[dict(n=4, o0=9, o1=1, o2=10, o3=0), dict(n=4, o0=0, o1=7, o2=8, o3=1),
               dict(n=4, o0=5, o1=4, o2=3, o3=11), dict(n=4, o0=12, o1=9, o2=6, o3=1),
               dict(n=4, o0=13, o1=14, o2=14, o3=13), dict(n=4, o0=15, o1=16, o2=2, o3=16),
               dict(n=3, o0=14, o1=5, o2=14, o3=0)],
        tiers={'quick': dict(split=dict(o0=list(range(17))), fixed=dict(n=3, o3=0), budget_s=150),
               'thorough': dict(split=dict(o0=list(range(17)), o1=list(range(17))), fixed=dict(n=4),
                                budget_s=300)},
        bounds='every history of 3 (quick) / 4 (thorough) operations from the 17 of OPNAMES: the five above plus '
               'clear_config without re-parse, clear_config(clear_constants=True), re-binding the constructor or '
               'the tag of k without a clear, binding an evaluated (non-callable) constructor and correcting it, '
               "the plain Python path config_scope('k'): get_configurable('gin.singleton')(ctor), finalize (later "
               'bindings through unlock_config), singletons whose object is None / [], a constructor that raises '
               "on its first call, the nested scope name 'a/b' next to 'b' used from inside an enclosing scope, "
               "and the empty scope name ''"),
}
RULE = ('Engine S: one case per scenario (all interleavings of its recorded event programs decided by z3); Engine X: one '
        'case per operation history')
SOLVER_ROLE = ('decides schedules: z3 over the unrolled interleaving transition system of event programs recorded from the real '
               'code (unsat = no schedule violates); sat schedules are forced on real threads')
OUTSIDE = ('in the singleton scenarios the operative-record accesses (all under their own lock and checked by the operative '
           'scenarios) are abstracted away; switch points inside a single C-level dict operation (excluded by the GIL), free-threaded builds, more than 4 '
           'threads; iteration ORDER of a shared dict is abstracted (only the key set seen when an iterator is created '
           'selects the continuation); state that is not a module-level dict or lock of gin.config is invisible to '
           'Engine S: _PARSE_CONTEXTS (list), _IMPORTS (set), the SelectorMaps _REGISTRY / _CONSTRUCTORS-like instances '
           '(their inner dicts), locks created at run time - hence a configurable BODY that calls gin.query_parameter / '
           'operative_config_str while another thread reads (the reader pushes a ParseContext on the shared list) is '
           'not decided; a thread that calls clear_config is outside the quantifier: one such scenario is decided and '
           'reported under engines.engine_s.informational without influencing the verdict')
ASSUMPTIONS = ['shared state = module-level dicts and locks of gin.config found by scanning vars(gin.config) '
               '(listed per scenario in the evidence); a thread\'s event sequence depends only on its observations of '
               'shared reads (checked: a non-deterministic trace raises an infrastructure error)',
               'the final operative config is compared with that of running the same programs one after another in '
               'ANY order (the statement does not fix one); a reentrant lock\'s inner acquire/release by its holder is '
               'not an event (it can neither block nor change the holder); a blocking acquire of a non-reentrant lock '
               'by its holder raises in that thread instead of hanging',
               'each call is also required to deliver what it delivers when run alone (scopes, bindings and '
               'references of another thread - or of the thread that started the workers - must not leak into it)']
