"""C08 - names resolve by unique dotted suffix, identically through every API."""
import copy

import gin
from gin import config as gc
from gin import selector_map
from vf import rt
from vf import world
from vf.spec.selmap import spec_matching

VOC = ['a', 'b.a', 'a.b.a', 'b.b.a', 'a.b', 'b.a.b', 'b', 'a.a', 'a.a.b', 'b.b']
T = '$'


def canonical_tree(names):
  """Representation invariant, built independently of SelectorMap: trie of the
  reversed components, '$' -> complete selector at terminals, no empty subtrees."""
  tree = {}
  for n in names:
    node = tree
    for c in reversed(n.split('.')):
      node = node.setdefault(c, {})
    node[T] = n
  return tree


def build(names, values):
  m = selector_map.SelectorMap()
  m._selector_tree = canonical_tree(names)
  m._selector_map = {n: values[n] for n in names}
  return m


# query strings that are not dotted names (empty components) or that contain the tree's own terminal
# marker '$' as a component: none of them is a suffix of a stored name, so each must be reported unknown
MALFORMED = ['', '.', 'a.', '.a', 'a..a', '$', '$.a', '$.b.a', 'a.$', '$.a.b']

# names that are not dotted names (identifiers separated by single periods): insert must refuse them
INVALID = ['a\n', '', 'a.', '.a', 'a..b', '$', '1a', 'a b', 'a-b', None]


def _try(f, *a):
  try:
    return ('ok', f(*a))
  except Exception as e:       # noqa: the TYPE of the exception is what the oracle looks at
    return ('exc', type(e))


def suffixes(n):
  parts = n.split('.')
  return ['.'.join(parts[i:]) for i in range(len(parts))]


def queries(nvoc):
  qs = []
  for n in VOC[:nvoc]:
    for s in suffixes(n):
      if s not in qs:
        qs.append(s)
  qs.extend(['c', 'a.c', 'c.a'])
  qs.extend(MALFORMED)
  return qs


def check_map(m, names, values, nvoc):
  """Every public observation of `m` equals the reference for the name set.

  The observation battery only handles concrete strings (values are compared by
  identity first), so it runs natively; the operation under test runs traced.
  """
  vals = values
  smap = m._selector_map
  for n in names:
    # traced pre-pass over the stored values (identity is the fast path and the normal case): a changed value
    # is decided here by a solver comparison, so that the counterexample carries `stored != expected`
    got = smap.get(n, _MISSING) if isinstance(smap, dict) else _MISSING
    if got is _MISSING or got is values[n]:
      continue
    if not (got == values[n]):
      return rt.no('the value stored under %r changed' % (n,))
    if vals is values:
      vals = dict(values)
    vals[n] = got                 # an equal copy (deepcopy): the native battery compares against this object
  with rt.native():
    return _check_map(m, names, vals, nvoc)


_PLAIN = (int, bool, str, type(None))
_MISSING = object()


def _same(got, want):
  """Runs natively: stored values are compared by identity; `==` only between plain concrete values (two
  distinct symbolic objects cannot be compared outside the tracer, and are never the stored object)."""
  if got is want:
    return True
  if type(got) in _PLAIN and type(want) in _PLAIN:
    return rt.same('value', got, want)
  return False


def _check_map(m, names, values, nvoc):
  if m._selector_tree != canonical_tree(names):
    return False
  if set(m._selector_map) != set(names) or len(m) != len(names):
    return False
  items = dict(m.items())
  if set(items) != set(names) or not all(_same(items[n], values[n]) for n in names):
    return False
  for q in queries(nvoc):
    want = spec_matching(names, q)
    r = _try(m.matching_selectors, q)
    if r[0] != 'ok':
      return rt.no('matching_selectors(%r) raised %s' % (q, r[1].__name__))
    if sorted(r[1]) != want:
      return False
    if (q in m) != (q in names):
      return False
    if not _same(m.get(q, 'dflt'), values[q] if q in names else 'dflt'):
      return False
    r = _try(m.__getitem__, q)                       # m[q]: complete names only, no suffix matching
    if q in names:
      if r[0] != 'ok' or not _same(r[1], values[q]):
        return rt.no('m[%r] of a stored name' % (q,))
    elif r != ('exc', KeyError):
      return rt.no('m[%r] of a name that is not stored: %r' % (q, r))
    r = _try(m.get_all_matches, q)
    if r[0] != 'ok':
      return rt.no('get_all_matches(%r) raised %s' % (q, r[1].__name__))
    got_all = r[1]
    if len(got_all) != len(want):
      return False
    if not all(any(g is values[w] for w in want) for g in got_all):
      return rt.no('get_all_matches(%r) returned a foreign value' % (q,))
    r = _try(m.get_match, q, 'none')
    r0 = _try(m.get_match, q)                        # default omitted: None when nothing matches
    if len(want) > 1:
      if r != ('exc', KeyError) or r0 != ('exc', KeyError):
        return rt.no('get_match(%r) of an ambiguous name: %r' % (q, r))
    elif len(want) == 1:
      if r[0] != 'ok' or not _same(r[1], values[want[0]]):
        return False
      if r0[0] != 'ok' or not _same(r0[1], values[want[0]]):
        return rt.no('get_match(%r) without default' % (q,))
    else:
      if r[0] != 'ok' or not _same(r[1], 'none'):
        return rt.no('get_match(%r, dflt) of an unknown name: %r' % (q, r))
      if r0[0] != 'ok' or r0[1] is not None:
        return rt.no('get_match(%r) of an unknown name: %r' % (q, r0))
  for n in names:
    ms = m.minimal_selector(n)
    sf = suffixes(n)
    if ms not in sf:
      return False
    if spec_matching(names, ms) != [n] or m.matching_selectors(ms) != [n]:
      return False
    for shorter in sf[sf.index(ms) + 1:]:
      if spec_matching(names, shorter) == [n]:
        return False
  for q in ('c', 'a.c'):
    if q not in names:
      try:
        m.minimal_selector(q)
        return False
      except KeyError:
        pass
  return True


def c08_step(nvoc: int, op: int, arg: int,
             s0: bool, s1: bool, s2: bool, s3: bool, s4: bool, s5: bool, s6: bool,
             s7: bool, s8: bool, s9: bool,
             v0: int, v1: int, v2: int, v3: int, v4: int, v5: int, v6: int,
             v7: int, v8: int, v9: int, vn: int) -> bool:
  """
  pre: 0 <= op < 9 and 0 <= arg < nvoc
  """
  op = rt.pick(op, 9)
  arg = rt.pick(arg, nvoc)
  bits = [s0, s1, s2, s3, s4, s5, s6, s7, s8, s9]
  vals = [v0, v1, v2, v3, v4, v5, v6, v7, v8, v9]
  names = []
  for i in range(nvoc):
    if rt.flag(bits[i]):
      names.append(VOC[i])
  values = {VOC[i]: vals[i] for i in range(10)}
  target = VOC[arg]
  if op == 5 and arg != 0:
    rt.discard()
  rt.sig(('step', tuple(names), op, INVALID[arg] if op == 8 else target), nontrivial=len(names) >= 2)
  m = build(names, values)
  if not check_map(m, names, values, nvoc):     # the pre-state itself is consistent
    return False
  new_values = dict(values)
  new_values[target] = vn
  if op == 0:                                   # insert / overwrite
    m[target] = vn
    after = names if target in names else names + [target]
    return check_map(m, after, new_values, nvoc)
  if op == 1:                                   # pop
    if target not in names:
      try:
        m.pop(target)
        return False
      except KeyError:
        return check_map(m, names, values, nvoc)
    got = m.pop(target)
    if not _same(got, values[target]):
      return False
    return check_map(m, [n for n in names if n != target], values, nvoc)
  if op == 2:                                   # copy, then insert into the copy
    c = m.copy()
    if not check_map(c, names, values, nvoc):
      return False
    c[target] = vn
    after = names if target in names else names + [target]
    return check_map(c, after, new_values, nvoc) and check_map(m, names, values, nvoc)
  if op == 3:                                   # copy, then pop from the copy
    c = m.copy()
    if target in names:
      c.pop(target)
      return (check_map(c, [n for n in names if n != target], values, nvoc) and
              check_map(m, names, values, nvoc))
    return check_map(c, names, values, nvoc)
  if op == 4:                                   # copy, then insert into the ORIGINAL
    c = m.copy()
    m[target] = vn
    after = names if target in names else names + [target]
    return check_map(m, after, new_values, nvoc) and check_map(c, names, values, nvoc)
  if op == 5:
    c = m.copy()                                # clear the original, copy keeps all
    m.clear()
    return check_map(m, [], values, nvoc) and check_map(c, names, values, nvoc)
  if op == 6:                                   # copy.copy (__copy__), then insert into the copy
    c = copy.copy(m)
    if type(c) is not selector_map.SelectorMap or not check_map(c, names, values, nvoc):
      return rt.no('copy.copy(m) is not an equal SelectorMap')
    c[target] = vn
    after = names if target in names else names + [target]
    return check_map(c, after, new_values, nvoc) and check_map(m, names, values, nvoc)
  if op == 7:                                   # copy.deepcopy, then insert into / pop from the ORIGINAL
    c = copy.deepcopy(m)
    cvals = dict(values)                        # deepcopy may copy the stored values: equal, not identical
    for n in names:
      got = c.get(n, None)
      if not (got is values[n] or got == values[n]):      # traced comparison (the values are symbolic)
        return rt.no('copy.deepcopy(m) changed a stored value')
      cvals[n] = got
    if type(c) is not selector_map.SelectorMap or not check_map(c, names, cvals, nvoc):
      return rt.no('copy.deepcopy(m) is not an equal SelectorMap')
    if target in names:
      m.pop(target)
      return (check_map(m, [n for n in names if n != target], values, nvoc) and
              check_map(c, names, cvals, nvoc))
    m[target] = vn
    return check_map(m, names + [target], new_values, nvoc) and check_map(c, names, cvals, nvoc)
  # op == 8: a name that is not a dotted name is refused and the map is unchanged
  bad = INVALID[arg]
  try:
    m[bad] = vn
  except ValueError:
    pass
  except TypeError:
    if isinstance(bad, str):
      return rt.no('insert of %r raised TypeError' % (bad,))
  else:
    return rt.no('insert accepted the invalid name %r' % (bad,))
  return check_map(m, names, values, nvoc)


SPELL = ['x.m.fam', 'vw.x.m.fam', ('', 'x.m.fam'), ('', 'vw.x.m.fam'), 'fam', 'm.fam',
         'nosuch', 'y.m.fam']
KIND = ['xm', 'xm', 'xm', 'xm', 'ambiguous', 'ambiguous', 'unknown', 'ym']


def _key(sp, scope):
  s = SPELL[sp]
  if isinstance(s, tuple):
    return (scope, s[1], 'p')
  return (scope + '/' if scope else '') + s + '.p'


def c08_api(sp1: int, sp2: int, sp3: int, scoped: bool, v1: int, v2: int) -> bool:
  """
  pre: 0 <= sp1 < 8 and 0 <= sp2 < 8 and 0 <= sp3 < 8
  """
  world.fresh()
  sp1, sp2, sp3 = rt.pick(sp1, 8), rt.pick(sp2, 8), rt.pick(sp3, 8)
  scope = 's' if rt.flag(scoped) else ''
  rt.sig(('api', sp1, sp2, sp3, scope), nontrivial=KIND[sp1] == 'xm' and KIND[sp2] in ('xm', 'ym'))
  state = {}                                     # reference: complete name -> value
  for sp, v in ((sp1, v1), (sp2, v2)):
    exc = None
    try:
      gin.bind_parameter(_key(sp, scope), v)
    except Exception as e:
      exc = e
    if KIND[sp] in ('ambiguous', 'unknown'):
      if exc is None or not isinstance(exc, (ValueError, KeyError)):
        return False
    else:
      if exc is not None:
        return False
      state[KIND[sp]] = v
  # query through a third spelling
  k3 = _key(sp3, scope)
  if isinstance(k3, tuple):
    k3 = (k3[0] + '/' if k3[0] else '') + k3[1] + '.p'
  try:
    got = gin.query_parameter(k3)
    if KIND[sp3] not in state or not rt.same('q', got, state[KIND[sp3]]):
      return False
  except (ValueError, KeyError):
    if KIND[sp3] in state:
      return False
  # get_bindings by selector spelling and by object agree with the reference
  sel = SPELL[sp3] if isinstance(SPELL[sp3], str) else SPELL[sp3][1]
  try:
    gb = gin.get_bindings((scope + '/' if scope else '') + sel)
    if KIND[sp3] not in ('xm', 'ym'):
      return False
    want = {'p': state[KIND[sp3]]} if KIND[sp3] in state else {}
    if gb != want:
      return False
  except (ValueError, KeyError):
    if KIND[sp3] in ('xm', 'ym'):
      return False
  # the configurable itself receives the value under the scope
  del world.LOG[:]
  if scope:
    with gin.config_scope(scope):
      world.fam_xm()
      world.fam_ym()
  else:
    world.fam_xm()
    world.fam_ym()
  rx, ry = world.LOG[0][1][0], world.LOG[1][1][0]
  return (rt.same('xm', rx, state.get('xm', 0)) and rt.same('ym', ry, state.get('ym', 0)))


# ---- probes of this module: a complete stored name ('q.fam2') that is also a suffix of other names ------------
def _register_probes():
  if 'q.fam2' in gc._REGISTRY:       # idempotent (module imported twice in one process)
    return (gc._REGISTRY['q.fam2'].wrapper, gc._REGISTRY['vw08.z.q.fam2'].wrapper,
            gc._REGISTRY['vw08.y.q.fam2'].wrapper)

  @gin.configurable('q.fam2')        # module part inside the name: the complete selector is 'q.fam2'
  def fam2_q(p=0):
    world.rec('fam2_q', p)
    return p

  @gin.configurable('fam2', module='vw08.z.q')
  def fam2_zq(p=0):
    world.rec('fam2_zq', p)
    return p

  @gin.configurable('fam2', module='vw08.y.q')
  def fam2_yq(p=0):
    world.rec('fam2_yq', p)
    return p

  return fam2_q, fam2_zq, fam2_yq


fam2_q, fam2_zq, fam2_yq = _register_probes()

# Two name families.  kinds: 'A' / 'B' = an unambiguous spelling of configurable A / B, 'amb' = matches several,
# 'unk' = matches none, 'unk$' = matches none and contains the tree's terminal marker as a component.
FAMS = [
    dict(sels=['x.m.fam', 'vw.x.m.fam', 'fam', 'm.fam', 'nosuch', 'y.m.fam', 'vw.y.m.fam', '$.vw.x.m.fam'],
         kinds=['A', 'A', 'amb', 'amb', 'unk', 'B', 'B', 'unk$'],
         complete={'A': 'vw.x.m.fam', 'B': 'vw.y.m.fam'},
         fns={'A': world.fam_xm, 'B': world.fam_ym},
         # second statement: (selector index, form)
         second=[None, (0, 0), (1, 0), (1, 4), (5, 1), (6, 5), (3, 0)]),
    dict(sels=['z.q.fam2', 'vw08.z.q.fam2', 'fam2', 'nosuch.fam2', 'r.q.fam2', 'q.fam2', 'q.q.fam2', '$.q.fam2'],
         kinds=['B', 'B', 'amb', 'unk', 'unk', 'A', 'unk', 'unk$'],
         complete={'A': 'q.fam2', 'B': 'vw08.z.q.fam2'},
         fns={'A': fam2_q, 'B': fam2_zq},
         second=[None, (5, 0), (5, 1), (5, 4), (0, 1), (1, 5), (2, 0)]),
]
NSEL = 8
# forms of a binding statement
#  0 text, flat `[s/]SEL.p = v`        1 text, block `[s/]SEL:` + indented `p = v`
#  2 / 3 the same with parse_config(..., skip_unknown=True)
#  4 bind_parameter(str)   5 bind_parameter([scope, SEL, 'p']) (a list)   6 bind_parameter(ParsedBindingKey.parse(str))
NFORM = 7
REJECT = (ValueError, KeyError)


def _bind(form, scope, sel, val):
  """One binding statement; returns the exception it raised (or None)."""
  pre = scope + '/' if scope else ''
  try:
    if form in (0, 2):
      gin.parse_config('%s%s.p = %d' % (pre, sel, val), skip_unknown=(form == 2))
    elif form in (1, 3):
      gin.parse_config('%s%s:\n  p = %d\n' % (pre, sel, val), skip_unknown=(form == 3))
    elif form == 4:
      gin.bind_parameter('%s%s.p' % (pre, sel), val)
    elif form == 5:
      gin.bind_parameter([scope, sel, 'p'], val)
    else:
      gin.bind_parameter(gc.ParsedBindingKey.parse('%s%s.p' % (pre, sel)), val)
  except Exception as e:     # noqa: judged by the caller
    return e
  return None


def _bind_ok(kind, form, exc, state, val):
  """Judges one binding statement against the reference and updates it."""
  if kind in ('A', 'B'):
    if exc is not None:
      return rt.no('an unambiguous spelling was rejected: %r' % (exc,))
    state[kind] = val
    return True
  if kind == 'amb':        # rejected as ambiguous, skip_unknown or not
    return isinstance(exc, REJECT) or rt.no('an ambiguous spelling was not rejected: %r' % (exc,))
  if form in (2, 3) and exc is None:
    return True            # unknown + skip_unknown: silently skipped (C15's subject), nothing is bound
  if kind == 'unk$' and form < 4 and isinstance(exc, SyntaxError):
    return True            # '$' is not a token of the config language
  return isinstance(exc, REJECT) or rt.no('an unknown spelling was not reported unknown: %r' % (exc,))


def _observe(fam, state, scope, selq):
  """Every reading API, with spelling `selq`, agrees with the reference `state` (kind -> value)."""
  F = FAMS[fam]
  pre = scope + '/' if scope else ''
  sel, kind = F['sels'][selq], F['kinds'][selq]
  known = kind in ('A', 'B')
  r = _try(gin.query_parameter, pre + sel + '.p')
  if known and kind in state:
    if r != ('ok', state[kind]):
      return rt.no('query_parameter(%r): %r' % (pre + sel + '.p', r))
  elif r[0] != 'exc' or not issubclass(r[1], REJECT):
    return rt.no('query_parameter(%r) of an unbound/unknown/ambiguous name: %r' % (pre + sel + '.p', r))
  for inherit in (True, False):
    r = _try(gin.get_bindings, pre + sel, True, inherit)
    if known:
      if r != ('ok', {'p': state[kind]} if kind in state else {}):
        return rt.no('get_bindings(%r): %r' % (pre + sel, r))
    elif r[0] != 'exc' or not issubclass(r[1], REJECT):
      return rt.no('get_bindings(%r) of an unknown/ambiguous name: %r' % (pre + sel, r))
  r = _try(gin.get_configurable, pre + sel)
  if known:
    if r[0] != 'ok' or r[1]() != state.get(kind, 0):
      return rt.no('get_configurable(%r)() did not receive the value' % (pre + sel,))
  elif r[0] != 'exc' or not issubclass(r[1], REJECT):
    return rt.no('get_configurable(%r) of an unknown/ambiguous name: %r' % (pre + sel, r))
  # by object, under the scope: the _inverse_lookup branch
  with gin.config_scope(scope if scope else None):
    for k in ('A', 'B'):
      want = {'p': state[k]} if k in state else {}
      if gin.get_bindings(F['fns'][k]) != want:
        return rt.no('get_bindings(<object %s>)' % k)
      if gin.get_configurable(F['fns'][k])() != state.get(k, 0):
        return rt.no('get_configurable(<object %s>)()' % k)
      if F['fns'][k]() != state.get(k, 0):
        return rt.no('the configurable %s did not receive its value' % k)
  # outside the scope a scoped binding is invisible
  for k in ('A', 'B'):
    if F['fns'][k]() != (0 if scope else state.get(k, 0)):
      return rt.no('the configurable %s outside the scope' % k)
  # the shortest reported spelling resolves back to the same entry: config_str() text re-parsed
  saved = {k: dict(v) for k, v in gc._CONFIG.items()}
  text = gin.config_str()
  gc._CONFIG.clear()
  gc._CONFIG_PROVENANCE.clear()
  r = _try(gin.parse_config, text)
  got = {k: dict(v) for k, v in gc._CONFIG.items()}
  if r[0] != 'ok' or got != saved:
    return rt.no('config_str() does not resolve back: %r -> %r (%r)' % (saved, got, r))
  return True


def c08_text(fam: int, f1: int, sel1: int, b2: int, selq: int, scoped: bool) -> bool:
  """
  pre: 0 <= fam < 2 and 0 <= f1 < 7 and 0 <= sel1 < 8 and 0 <= b2 < 7 and 0 <= selq < 8
  """
  fam, f1, sel1 = rt.pick(fam, 2), rt.pick(f1, NFORM), rt.pick(sel1, NSEL)
  b2, selq = rt.pick(b2, 7), rt.pick(selq, NSEL)
  scope = 's' if rt.flag(scoped) else ''
  F = FAMS[fam]
  rt.sig(('text', fam, f1, sel1, b2, selq, scope),
         nontrivial=F['kinds'][sel1] in ('A', 'B') and F['kinds'][selq] in ('A', 'B'))
  with rt.native():          # everything below is concrete (names and literal values)
    world.fresh()
    state = {}
    exc = _bind(f1, scope, F['sels'][sel1], 11)
    if not _bind_ok(F['kinds'][sel1], f1, exc, state, 11):
      return False
    if F['second'][b2] is not None:
      i2, f2 = F['second'][b2]
      exc = _bind(f2, scope, F['sels'][i2], 22)
      if not _bind_ok(F['kinds'][i2], f2, exc, state, 22):
        return False
    return _observe(fam, state, scope, selq)


# reference forms
#  0 `vw.cons.p = @[s/]SEL()`   1 `vw.cons.p = @[s/]SEL` (the caller calls it)   2 form 0 with skip_unknown=True
#  3 `vw.cons.p = [@[s/]SEL, @[s/]OTHER-SPELLING]` read back with resolve_references=False
NRF = 4


def c08_refs(fam: int, selb: int, bscoped: bool, selr: int, rf: int, rscoped: bool) -> bool:
  """
  pre: 0 <= fam < 2 and 0 <= selb < 8 and 0 <= selr < 7 and 0 <= rf < 4
  """
  fam, selb, selr, rf = rt.pick(fam, 2), rt.pick(selb, NSEL), rt.pick(selr, NSEL - 1), rt.pick(rf, NRF)
  bscope = 's' if rt.flag(bscoped) else ''
  rscope = 's' if rt.flag(rscoped) else ''
  F = FAMS[fam]
  kb, kr = F['kinds'][selb], F['kinds'][selr]
  if kb not in ('A', 'B'):
    rt.discard()
  if rf == 3 and kr not in ('A', 'B'):
    rt.discard()
  rt.sig(('refs', fam, selb, bscope, selr, rf, rscope), nontrivial=kr in ('A', 'B'))
  with rt.native():
    world.fresh()
    gin.bind_parameter(((bscope + '/') if bscope else '') + F['sels'][selb] + '.p', 11)
    pre = rscope + '/' if rscope else ''
    ref = '@' + pre + F['sels'][selr]
    if rf == 3:
      other = [i for i in range(NSEL) if F['kinds'][i] == kr and i != selr]
      other = F['sels'][other[0]] if other else F['sels'][selr]
      text = 'vw.cons.p = [%s, @%s%s]' % (ref, pre, other)
    else:
      text = 'vw.cons.p = %s%s' % (ref, '' if rf == 1 else '()')
    r = _try(gin.parse_config, text, rf == 2)
    if kr == 'amb':
      return (r[0] == 'exc' and issubclass(r[1], REJECT)) or rt.no('ambiguous reference accepted: %r' % (r,))
    if kr == 'unk':
      if rf == 2 and r[0] == 'ok':
        return True        # placeholder for an unknown reference (C15's subject)
      return (r[0] == 'exc' and issubclass(r[1], REJECT)) or rt.no('unknown reference accepted: %r' % (r,))
    if r[0] != 'ok':
      return rt.no('reference through an unambiguous spelling rejected: %r' % (r,))
    # value the referenced configurable receives when called under the reference's scope
    want = 11 if (kb == kr and bscope in ('', rscope)) else 0
    if rf == 3:
      r1, r2 = gin.get_bindings('vw.cons', resolve_references=False)['p']
      if r1.config_key != r2.config_key:
        return rt.no('config_key of a reference depends on its spelling: %r %r' % (r1.config_key, r2.config_key))
      if not (r1 == r2) or (r1 != r2):
        return rt.no('two spellings of one reference are not equal')
      return r1.scoped_configurable_fn() == want and r2.scoped_configurable_fn() == want
    world.cons()
    got = world.LOG[-1][1][0]
    if rf == 1:
      got = got()
    if got != want:
      return rt.no('reference %s delivered %r, want %r' % (text, got, want))
    got = gin.get_bindings('vw.cons')['p']
    if rf == 1:
      got = got()
    return got == want or rt.no('get_bindings resolved the reference to %r, want %r' % (got, want))


# ---- finalize: two user hooks give one parameter through two spellings -------------------------------------------
# key kinds of a hook result: (what, selector spelling index in FAMS[0])
#   's' string key, 't' tuple key, 'k' ParsedBindingKey instance
HKEYS = [('s', 0), ('s', 1), ('t', 0), ('t', 1), ('k', 0), ('k', 1), ('s', 5), ('t', 6), ('s', 3), ('s', 4)]


def _hkey(i, scope):
  what, si = HKEYS[i]
  sel = FAMS[0]['sels'][si]
  if what == 't':
    return (scope, sel, 'p')
  text = (scope + '/' if scope else '') + sel + '.p'
  return gc.ParsedBindingKey.parse(text) if what == 'k' else text


def c08_hooks(k1: int, k2: int, sc1: bool, sc2: bool, one: bool, pre: bool, v1: int, v2: int) -> bool:
  """
  pre: 0 <= k1 < 10 and 0 <= k2 < 10
  """
  world.fresh()
  k1, k2 = rt.pick(k1, 10), rt.pick(k2, 10)
  s1 = 's' if rt.flag(sc1) else ''
  s2 = 's' if rt.flag(sc2) else ''
  one, pre = rt.flag(one), rt.flag(pre)
  kinds = FAMS[0]['kinds']
  kd1, kd2 = kinds[HKEYS[k1][1]], kinds[HKEYS[k2][1]]
  same_param = kd1 == kd2 and kd1 in ('A', 'B') and s1 == s2
  if one and s1 == s2 and (k1 == k2 or (same_param and 'k' in (HKEYS[k1][0], HKEYS[k2][0]))):
    # equal Python objects are ONE entry of the hook's dict (nothing to decide); a ParsedBindingKey is a
    # tuple, so beside another spelling of its parameter in ONE dict Python itself may merge or compare them
    rt.discard()
  rt.sig(('hooks', k1, k2, s1, s2, one, pre), nontrivial=same_param)
  if pre:                   # an earlier binding of A under the complete name, which a hook may overwrite
    gin.bind_parameter(('', 'vw.x.m.fam', 'p'), 7)
  key1, key2 = _hkey(k1, s1), _hkey(k2, s2)
  if one:
    with rt.native():       # a real dict (hash lookup): keys of different types are never compared
      d = {key1: v1, key2: v2}
      if len(d) != 2:
        raise rt.HarnessError('two hook keys collapsed inside a plain dict')
    gin.config.register_finalize_hook(lambda config: d)
  else:
    gin.config.register_finalize_hook(lambda config: {key1: v1})
    gin.config.register_finalize_hook(lambda config: {key2: v2})
  exc = None
  try:
    gin.finalize()
  except Exception as e:
    exc = e
  bad = [k for k in (kd1, kd2) if k not in ('A', 'B')]
  if bad:                   # ambiguous / unknown key: rejected
    return isinstance(exc, REJECT) or rt.no('finalize accepted an ambiguous/unknown hook key: %r' % (exc,))
  if same_param and not one:
    # the mechanism the property names: one parameter through two spellings from two hooks is ONE key
    return isinstance(exc, ValueError) or rt.no('two hooks updated one parameter under two spellings: %r' % (exc,))
  want = {}                 # (scope, kind) -> value
  if pre:
    want[('', 'A')] = 7
  if same_param:            # one hook naming one parameter twice: a conflict error or one of the two values
    if exc is not None:
      return isinstance(exc, ValueError) or rt.no('unexpected error %r' % (exc,))
    got = gin.query_parameter((s1 + '/' if s1 else '') + FAMS[0]['complete'][kd1] + '.p')
    return got is v1 or got is v2 or rt.no('one hook, two spellings: neither value bound')
  if exc is not None:
    with rt.native():
      return rt.no('finalize rejected updates of two different parameters: %r' % (exc,))
  want[(s1, kd1)] = v1
  want[(s2, kd2)] = v2
  # every spelling reads the values back; the configurables receive them
  for sc in ('', 's'):
    for k, spell in (('A', 'x.m.fam'), ('A', 'vw.x.m.fam'), ('B', 'y.m.fam')):
      key = (sc + '/' if sc else '') + spell + '.p'
      try:
        got = gin.query_parameter(key)
        if (sc, k) not in want or not (got is want[(sc, k)] or rt.same(key, got, want[(sc, k)])):
          return rt.no('query %s after finalize' % key)
      except ValueError:
        if (sc, k) in want:
          return rt.no('query %s after finalize: not bound' % key)
  del world.LOG[:]
  world.fam_xm()
  world.fam_ym()
  with gin.config_scope('s'):
    world.fam_xm()
    world.fam_ym()
  got = [l[1][0] for l in world.LOG]
  exp = [want.get(('', 'A'), 0), want.get(('', 'B'), 0),
         want.get(('s', 'A'), want.get(('', 'A'), 0)), want.get(('s', 'B'), want.get(('', 'B'), 0))]
  for g, e in zip(got, exp):
    if not (g is e or rt.same('received', g, e)):
      return rt.no('a configurable did not receive the value given by a hook')
  return True


# ---- names that are not dotted names, through the registering APIs ----------------------------------------------
BADNAMES = ['K\n', 'a.K\n', '', 'K.', '.K', 'a..K', '1K', 'K-x', '$']


def _junk(p=0):
  return p


def c08_badname(api: int, bad: int) -> bool:
  """
  pre: 0 <= api < 4 and 0 <= bad < 9
  """
  api, bad = rt.pick(api, 4), rt.pick(bad, len(BADNAMES))
  name = BADNAMES[bad]
  rt.sig(('badname', api, name))
  with rt.native():
    world.fresh()
    reg_before = sorted(gc._REGISTRY._selector_map)
    const_before = sorted(gc._CONSTANTS._selector_map)
    try:
      if api == 0:
        r = _try(gin.constant, name, 1)
      elif api == 1:
        r = _try(lambda: gin.configurable(name)(_junk))
      elif api == 2:
        if not name:
          rt.discard()      # module='' means "no module given"
        r = _try(lambda: gin.configurable('junk08', module=name)(_junk))
      else:
        r = _try(lambda: gin.external_configurable(_junk, name))
      reg_after = sorted(gc._REGISTRY._selector_map)
      const_after = sorted(gc._CONSTANTS._selector_map)
    finally:                # never let an accepted junk name leak into the next path
      for n in [n for n in gc._REGISTRY._selector_map if n not in reg_before]:
        gc._REGISTRY.pop(n)
      gc._INVERSE_REGISTRY.pop(_junk, None)
    if api == 1 and name == '':
      return True           # configurable('') means "no name given": the function's own name is used
    if api == 3 and name == '':
      return True
    if r[0] != 'exc' or not issubclass(r[1], ValueError):
      return rt.no('%r accepted as a name (api %d): now stored %r' %
                   (name, api, [n for n in reg_after + const_after if n not in reg_before + const_before]))
    if reg_after != reg_before or const_after != const_before:
      return rt.no('a rejected name changed the registry')
    return True


# ---- additions AFTER a name has already been resolved (history of additions through the API) ---------------------
# (round d seed C08-d: a per-context memo of resolved selectors that registration never invalidates)
LATE_LOG = []


def _lw_first(x=-1):
  LATE_LOG.append(('first', x))
  return x


def _lw_second(x=-2):
  LATE_LOG.append(('second', x))
  return x


if 'vw08l.alpha.lw' not in gc._REGISTRY:
  gin.external_configurable(_lw_first, 'lw', module='vw08l.alpha')


def _late_use(api, spelling, value):
  """One use of `spelling` (a selector, without parameter) through one API; returns ('ok', what) / ('exc', type)."""
  if api == 0:
    return _try(lambda: gin.bind_parameter(spelling + '.x', value))
  if api == 1:
    return _try(lambda: gin.query_parameter(spelling + '.x'))
  if api == 2:
    return _try(lambda: gin.config.parse_value('@' + spelling))
  if api == 3:
    return _try(lambda: gin.get_configurable(spelling))
  if api == 4:
    return _try(lambda: gin.parse_config('%s.x = %d\n' % (spelling, value)))
  return _try(lambda: gin.get_bindings(spelling))


def c08_late(first: int, api: int, sp: int) -> bool:
  """
  pre: 0 <= first < 7 and 0 <= api < 6 and 0 <= sp < 2
  """
  first, api, sp = rt.pick(first, 7), rt.pick(api, 6), rt.pick(sp, 2)
  spelling = ['lw', 'alpha.lw'][sp]          # the second stays unique after the addition, the first does not
  rt.sig(('late', first, api, sp), nontrivial=True)
  v1, v2 = 11, 22                            # concrete: the values travel through config text
  with rt.native():
    world.fresh()
    del LATE_LOG[:]
    reg_before = sorted(gc._REGISTRY._selector_map)
    try:
      gin.bind_parameter('vw08l.alpha.lw.x', v1)
      # 1. the name is resolved once while it is unique (first == 6: not at all)
      if first < 6:
        r = _late_use(first, spelling, v1)
        if r[0] != 'ok':
          return rt.no('%r not resolved while unique (api %d): %r' % (spelling, first, r))
      # 2. an addition: a second configurable whose full name ends with the same component
      gin.external_configurable(_lw_second, 'lw', module='vw08l.beta')
      # 3. the same spelling again, through any API
      r = _late_use(api, spelling, v2)
      if sp == 0:
        if r[0] != 'exc':
          return rt.no("'lw' matches two entries after the addition but api %d resolved it (first use: api %d)"
                       % (api, first))
      else:
        if r[0] != 'ok':
          return rt.no("'alpha.lw' is still unique after the addition but api %d rejected it: %r" % (api, r))
      # the complete names keep addressing their own entry
      gin.bind_parameter('vw08l.beta.lw.x', v2 + 100)
      exp_first = v2 if (sp == 1 and api in (0, 4)) else v1
      if gin.query_parameter('vw08l.alpha.lw.x') != exp_first:
        return rt.no('the binding of alpha.lw changed to %r' % (gin.query_parameter('vw08l.alpha.lw.x'),))
      got = (gin.get_configurable('vw08l.alpha.lw')(), gin.get_configurable('vw08l.beta.lw')())
      if got != (exp_first, v2 + 100):
        return rt.no('the two entries received %r' % (got,))
    finally:
      for n in [n for n in gc._REGISTRY._selector_map if n not in reg_before]:
        gc._REGISTRY.pop(n)
      gc._INVERSE_REGISTRY.pop(_lw_second, None)
      # a context-level memo (if any) must not leak into the next path either
      ctx = gc._PARSE_CONTEXTS[0]
      for attr in list(vars(ctx)):
        if isinstance(getattr(ctx, attr), dict) and attr not in ('_symbol_table', '_symbol_source'):
          getattr(ctx, attr).clear()
    return True


# ---- registered METHODS of two same-named classes in different modules (round e seed C08-e: the printed name of a
#      method was always `Class.method`, also when that is ambiguous) -------------------------------------------------
def _same_named_method_owners():
  def make():
    class Worker:
      def __init__(self, w=0):
        self.w = w

      @gin.register
      def run(self, steps=0):
        return steps
    return Worker
  for mod in ('vw08m.alpha', 'vw08m.beta'):
    if mod + '.Worker' not in gc._REGISTRY:
      gin.register('Worker', module=mod)(make())


_same_named_method_owners()
M_SPELL = [('alpha.Worker.run', 0), ('vw08m.alpha.Worker.run', 0), ('beta.Worker.run', 1), ('vw08m.beta.Worker.run', 1),
           ('Worker.run', None), ('run', None)]


def c08_methods(s1: int, s2: int, scoped: bool, api: int) -> bool:
  """
  pre: 0 <= s1 < 6 and 0 <= s2 < 6 and 0 <= api < 2
  """
  s1, s2, api = rt.pick(s1, 6), rt.pick(s2, 6), rt.pick(api, 2)
  scoped = rt.flag(scoped)
  rt.sig(('methods', s1, s2, scoped, api), nontrivial=True)
  with rt.native():
    world.fresh()
    sc = 's/' if scoped else ''
    want = {}
    for k, sp in enumerate((s1, s2)):
      name, owner = M_SPELL[sp]
      key = '%s%s.steps' % (sc, name)
      r = _try(lambda: gin.bind_parameter(key, 10 + k) if api == 0 else gin.parse_config('%s = %d\n' % (key, 10 + k)))
      if owner is None:
        if r[0] != 'exc':
          return rt.no('%r names two methods (or a method without its class) but was accepted' % key)
      else:
        if r[0] != 'ok':
          return rt.no('%r rejected: %r' % (key, r))
        want[owner] = 10 + k
    full = ['vw08m.alpha.Worker.run', 'vw08m.beta.Worker.run']
    for owner in (0, 1):
      r = _try(lambda: gin.query_parameter('%s%s.steps' % (sc, full[owner])))
      if (owner in want and r != ('ok', want[owner])) or (owner not in want and r[0] == 'ok'):
        return rt.no('binding of %s: %r, expected %r' % (full[owner], r, want.get(owner)))
    # the names the config string reports resolve back, each to its own entry, and the text re-parses
    text = gin.config_str()
    for line in text.split('\n'):
      if line.startswith('# Parameters for '):
        sel = line[len('# Parameters for '):-1].rsplit('/', 1)[-1]
        r = _try(lambda: gin.get_configurable(sel))
        if r[0] != 'ok':
          return rt.no('the name %r reported by config_str() does not resolve back: %r' % (sel, r))
        shorter = sel.split('.', 1)[1] if sel.count('.') > 1 else None
        if shorter and _try(lambda: gin.get_configurable(shorter))[0] == 'ok':
          return rt.no('a shorter suffix %r of the reported name resolves as well' % shorter)
    world.fresh()
    r = _try(lambda: gin.parse_config(text))
    if r[0] != 'ok':
      return rt.no('config_str() does not re-parse: %r\n%s' % (r, text))
    for owner in want:
      if _try(lambda: gin.query_parameter('%s%s.steps' % (sc, full[owner]))) != ('ok', want[owner]):
        return rt.no('after the re-parse %s is not bound to %r' % (full[owner], want[owner]))
  return True


# every spelling of a macro reference / definition is one key for the finalize hooks too
from vf.harness.c05 import c05_prefix as c08_refkey  # noqa: E402  (same harness, claimed under C08 as well)


def _names(nvoc):
  return {('s%d' % i): False for i in range(nvoc, 10)}


HARNESSES = {
    'c08_methods': dict(
        fn='c08_methods',
        anchors=['gin.config:minimal_selector', 'gin.selector_map:minimal_selector', 'gin.config:parse'],
        smoke=[dict(s1=0, s2=3, scoped=False, api=0), dict(s1=4, s2=1, scoped=True, api=1), dict(s1=5, s2=2, scoped=False, api=1)],
        tiers={'quick': dict(split=dict(s1=list(range(6))), budget_s=100),
               'thorough': dict(split=dict(s1=list(range(6)), s2=list(range(6))), budget_s=100)},
        bounds='registered methods `run` of two classes both named Worker in two modules: two bindings through 6 '
               'spellings each (unique short / complete, ambiguous Class.method, bare method), scoped or not, through '
               'bind_parameter or config text; ambiguous spellings rejected, each binding lands on its own entry, every '
               'name config_str() reports resolves back and no shorter suffix does, the text re-parses into the same '
               'bindings'),
    'c08_late': dict(
        fn='c08_late',
        anchors=['gin.config:get_configurable', 'gin.selector_map:get_match', 'gin.config:parse'],
        smoke=[dict(first=0, api=1, sp=0), dict(first=2, api=4, sp=1), dict(first=6, api=3, sp=0),
               dict(first=5, api=5, sp=0)],
        tiers={'quick': dict(split=dict(first=list(range(7))), budget_s=100),
               'thorough': dict(split=dict(first=list(range(7)), api=list(range(6))), budget_s=200)},
        bounds='a name resolved once while unique (through bind_parameter / query_parameter / parse_value / '
               'get_configurable / parse_config / get_bindings, or not at all), then a second configurable whose '
               'full name ends with the same component is registered, then the same spelling is used again through '
               'each of the 6 APIs: the now ambiguous short spelling must be rejected, the still unique longer one '
               'must resolve, and the complete names keep their own bindings'),
    'c08_step': dict(
        fn='c08_step',
        anchors=['gin.selector_map:__setitem__', 'gin.selector_map:pop', 'gin.selector_map:copy',
                 'gin.selector_map:matching_selectors', 'gin.selector_map:minimal_selector',
                 'gin.selector_map:get_match'],
        smoke=[dict(nvoc=7, op=2, arg=1, s0=True, s1=False, s2=True, s3=True, s4=False, s5=False,
                    s6=True, s7=False, s8=False, s9=False, v0=0, v1=1, v2=2, v3=3, v4=4, v5=5,
                    v6=6, v7=7, v8=8, v9=9, vn=10),
               dict(nvoc=7, op=0, arg=4, s0=False, s1=False, s2=False, s3=False, s4=False, s5=False,
                    s6=False, s7=False, s8=False, s9=False, v0=0, v1=1, v2=2, v3=3, v4=4, v5=5,
                    v6=6, v7=7, v8=8, v9=9, vn=10),
               dict(nvoc=7, op=1, arg=3, s0=True, s1=True, s2=True, s3=True, s4=False, s5=False,
                    s6=False, s7=False, s8=False, s9=False, v0=0, v1=1, v2=2, v3=3, v4=4, v5=5,
                    v6=6, v7=7, v8=8, v9=9, vn=10)] +
              # copy.copy, copy.deepcopy; s0 (name 'a') is stored, so that the '$.a' query reaches a terminal
              [dict(nvoc=7, op=o, arg=a, s0=True, s1=True, s2=False, s3=True, s4=False, s5=False,
                    s6=True, s7=False, s8=False, s9=False, v0=0, v1=1, v2=2, v3=3, v4=4, v5=5,
                    v6=6, v7=7, v8=8, v9=9, vn=10) for o, a in ((6, 2), (7, 1), (7, 5))] +
              # refused inserts ('' and 'a\n') into a map none of whose names is reached by a '$' query
              [dict(nvoc=7, op=8, arg=a, s0=False, s1=False, s2=True, s3=True, s4=False, s5=False,
                    s6=True, s7=False, s8=False, s9=False, v0=0, v1=1, v2=2, v3=3, v4=4, v5=5,
                    v6=6, v7=7, v8=8, v9=9, vn=10) for a in (1, 0)],
        tiers={'quick': dict(split=dict(op=list(range(9)), s0=[False, True], s1=[False, True]),
                             fixed=dict(nvoc=7, s7=False, s8=False, s9=False), budget_s=100),
               'thorough': dict(split=dict(op=list(range(9)), arg=list(range(10)),
                                           s0=[False, True], s1=[False, True]),
                                fixed=dict(nvoc=10), budget_s=900)},
        bounds='arbitrary subset of a 7-name (quick) / 10-name (thorough) vocabulary over components {a,b}, '
               'depth<=3, with names that are suffixes of other names; one operation (insert/overwrite, pop, '
               'copy+mutate copy, copy+mutate original, clear, copy.copy+mutate copy, copy.deepcopy+mutate '
               'original, insert of a name that is not a dotted name: 7 (quick) / 10 (thorough) of them incl. '
               "'a\\n', '', 'a..b', '$', None -> ValueError (TypeError for None) and map unchanged) with arbitrary "
               'argument; all queries over the vocabulary, its suffixes, 3 foreign names and 10 strings that are '
               "not dotted names or contain the terminal marker ('', '.', 'a.', '.a', 'a..a', '$', '$.a', '$.b.a', "
               "'a.$', '$.a.b': each must be reported unknown by matching_selectors / get_match (with and without "
               'default) / get_all_matches / get / in / m[q]); stored values: all ints. Inductive step: the '
               'post-state is again the canonical trie, so histories of any length are covered.'),
    'c08_refkey': dict(
        fn='c08_refkey',
        anchors=['gin.config:validate_macros_hook', 'gin.config:validate_reference'],
        # (c05_prefix has grown a parameter `fscope` - finalize inside config_scope('amb'), C05's subject: pinned off here)
        smoke=[dict(d0=True, d1=True, d2=False, d3=False, u0=True, u1=True, u2=False, u3=False, spell=1,
                    bindspell=1, late=False, fscope=False, v0=1, v1=2, v2=3, v3=4)],
        tiers={'quick': dict(split=dict(spell=[0, 1, 2], bindspell=[0, 1, 2]),
                             fixed=dict(d3=False, u3=False, d2=False, u2=False, fscope=False), budget_s=100),
               'thorough': dict(split=dict(spell=[0, 1, 2], bindspell=[0, 1, 2]),
                                fixed=dict(d3=False, u3=False, fscope=False), budget_s=300)},
        bounds='finalize (built-in hooks) over 3 spellings of a macro reference x 3 spellings of its definition x '
               'definitions before/after the uses, names m and m/x'),
    'c08_api': dict(
        fn='c08_api',
        anchors=['gin.config:parse', 'gin.config:bind_parameter', 'gin.config:query_parameter',
                 'gin.config:get_bindings'],
        smoke=[dict(sp1=0, sp2=1, sp3=2, scoped=True, v1=5, v2=6)],
        tiers={'quick': dict(split=dict(sp1=list(range(8))), budget_s=100),
               'thorough': dict(split=dict(sp1=list(range(8)), sp2=list(range(8))), budget_s=300)},
        bounds='two binds and one query over 8 spellings (4 unambiguous spellings of one parameter as string '
               'and tuple keys, 2 ambiguous, 1 unknown, 1 sibling), scoped or not; values: all ints'),
    'c08_text': dict(
        fn='c08_text',
        anchors=['gin.config:parse_config', 'gin.config:parse', 'gin.config:bind_parameter',
                 'gin.config:query_parameter', 'gin.config:get_bindings', 'gin.config:get_configurable',
                 'gin.config:_as_scope_and_selector', 'gin.config:_inverse_lookup', 'gin.config:config_str',
                 'gin.selector_map:minimal_selector', 'gin.selector_map:get_match'],
        smoke=[dict(fam=0, f1=0, sel1=0, b2=3, selq=1, scoped=True),     # flat text, then bind_parameter
               dict(fam=1, f1=1, sel1=5, b2=4, selq=0, scoped=False),    # block text on the exact name 'q.fam2'
               dict(fam=0, f1=5, sel1=1, b2=0, selq=5, scoped=False),    # list key
               dict(fam=0, f1=6, sel1=0, b2=2, selq=1, scoped=True),     # ParsedBindingKey instance
               dict(fam=0, f1=2, sel1=4, b2=1, selq=0, scoped=False),    # unknown + skip_unknown
               dict(fam=1, f1=3, sel1=2, b2=6, selq=2, scoped=True),     # ambiguous block header + skip_unknown
               dict(fam=1, f1=4, sel1=0, b2=1, selq=7, scoped=False)],   # '$' as a query component
        tiers={'quick': dict(split=dict(fam=[0, 1], f1=list(range(7))), budget_s=100),
               'thorough': dict(split=dict(fam=[0, 1], f1=list(range(7))), budget_s=300)},
        bounds='2 name families (vw.x.m.fam / vw.y.m.fam; q.fam2 - a COMPLETE name that is also a suffix of '
               'vw08.z.q.fam2 and vw08.y.q.fam2) x 8 spellings each (unambiguous short/long, ambiguous, unknown at '
               "3 depths, '$' as a component) x 7 statement forms (flat text, block text, both with "
               'skip_unknown=True, bind_parameter by str / list / ParsedBindingKey instance) x an optional second '
               'statement (6 spelling/form pairs) x 8 query spellings, scoped or not; read back through '
               'query_parameter, get_bindings (str, inherit_scopes both ways, and by object under the scope), '
               'get_configurable (str and object), the configurables themselves, and config_str() re-parsed '
               '(minimal selectors resolve back). All leaves concrete (values 11 / 22), run natively.'),
    'c08_refs': dict(
        fn='c08_refs',
        anchors=['gin.config:configurable_reference', 'gin.config:initialize', 'gin.config:_should_skip',
                 'gin.config:knows', 'gin.config:config_key', 'gin.config:__deepcopy__'],
        smoke=[dict(fam=0, selb=1, bscoped=False, selr=0, rf=0, rscoped=True),
               dict(fam=0, selb=0, bscoped=True, selr=1, rf=1, rscoped=True),
               dict(fam=1, selb=5, bscoped=False, selr=5, rf=2, rscoped=False),
               dict(fam=1, selb=0, bscoped=False, selr=1, rf=3, rscoped=True),
               dict(fam=0, selb=0, bscoped=False, selr=3, rf=2, rscoped=False),
               dict(fam=1, selb=0, bscoped=False, selr=4, rf=2, rscoped=False)],
        tiers={'quick': dict(split=dict(fam=[0, 1], rf=list(range(4))), budget_s=100),
               'thorough': dict(split=dict(fam=[0, 1], rf=list(range(4))), budget_s=300)},
        bounds='one binding (any unambiguous spelling, scoped or not) and one reference in config text: '
               '@SEL(), @SEL, @SEL() with skip_unknown=True, [@SEL, @other spelling] read back unresolved; 7 '
               'reference spellings x 2 families, reference scoped or not; the consumer receives the value of the '
               'referenced entry, config_key and == do not depend on the spelling, ambiguous references are '
               'rejected even with skip_unknown. Concrete leaves, run natively.'),
    'c08_hooks': dict(
        fn='c08_hooks',
        anchors=['gin.config:finalize', 'gin.config:register_finalize_hook', 'gin.config:parse',
                 'gin.config:__hash__', 'gin.config:__eq__', 'gin.config:bind_parameter'],
        smoke=[dict(k1=0, k2=1, sc1=False, sc2=False, one=False, pre=True, v1=5, v2=6),    # str / str conflict
               dict(k1=2, k2=5, sc1=True, sc2=True, one=False, pre=False, v1=5, v2=6),     # tuple / instance
               dict(k1=0, k2=3, sc1=False, sc2=False, one=True, pre=False, v1=5, v2=6),    # one hook, two spellings
               dict(k1=4, k2=6, sc1=False, sc2=True, one=False, pre=True, v1=5, v2=6),     # different parameters
               dict(k1=1, k2=0, sc1=True, sc2=False, one=False, pre=True, v1=5, v2=6),     # same name, other scope
               dict(k1=0, k2=8, sc1=False, sc2=False, one=False, pre=False, v1=5, v2=6)],  # ambiguous key
        tiers={'quick': dict(split=dict(k1=list(range(10))), budget_s=100),
               'thorough': dict(split=dict(k1=list(range(10)), k2=list(range(10))), budget_s=300)},
        bounds='two user finalize hooks (or ONE hook whose dict holds both keys) x 10 key kinds each (str / '
               '3-tuple / ParsedBindingKey instance with different given_selector, short and complete spelling, '
               'sibling configurable, ambiguous, unknown) x each key scoped or not x an earlier binding under the '
               'complete name; two hooks naming one parameter must raise ValueError, different parameters '
               '(other configurable or other scope) must both apply and read back through every spelling; '
               'values: all ints'),
    'c08_badname': dict(
        fn='c08_badname',
        anchors=['gin.config:constant', 'gin.config:_make_configurable', 'gin.selector_map:__setitem__'],
        smoke=[dict(api=0, bad=5), dict(api=1, bad=6), dict(api=2, bad=7), dict(api=3, bad=3),
               dict(api=0, bad=0), dict(api=1, bad=1)],
        tiers={'quick': dict(split=dict(api=[0, 1, 2, 3]), budget_s=60),
               'thorough': dict(split=dict(api=[0, 1, 2, 3]), budget_s=60)},
        bounds="9 strings that are not dotted names ('K\\n', 'a.K\\n', '', 'K.', '.K', 'a..K', '1K', 'K-x', '$') "
               'given as the name of gin.constant, the name or the module of gin.configurable, the name of '
               'gin.external_configurable: ValueError, registry and constants unchanged'),
}

OUTSIDE = ('names over other alphabets than {a,b} / deeper than 3 at map level; nested scopes (a/b) with mixed '
           'spellings; registered methods (the only API path that removes a name); enum constants; sharing of '
           'stored VALUE objects between a map and its copy (the statement is read as: the copy shares no '
           'structure, i.e. no later operation on one is visible through the other); __hash__ of '
           'ConfigurableReference (equal references of different spelling hash differently; Gin never uses '
           'them as keys)')
ASSUMPTIONS = [
    'a name that is not a sequence of identifiers separated by single periods is not a "dotted name": inserting '
    'or registering it must raise ValueError (documented contract of SelectorMap.__setitem__ / gin.constant / '
    'gin.configurable); a query string containing the terminal marker or empty components matches nothing and '
    'must be reported unknown, not crash',
    'ONE finalize hook naming one parameter under two spellings may either raise the conflict error or bind one '
    'of the two values; TWO hooks must raise ValueError',
    'an unknown name under skip_unknown=True may be skipped silently (C15); an ambiguous one must still raise',
]
