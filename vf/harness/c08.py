"""C08 - names resolve by unique dotted suffix, identically through every API."""
import gin
from gin import selector_map
from vf import rt
from vf import world
from vf.spec.selmap import spec_matching

VOC = ['a', 'b.a', 'a.b.a', 'b.b.a', 'a.b', 'b.a.b', 'b', 'a.a', 'a.a.b', 'b.b']
T = '$'


def canonical_tree(names):
  """Representation invariant, built independently of SelectorMap: trie of the
  reversed components, '$' -> complete selector at terminals, no empty subtrees."""
  tree = {}
  for n in names:
    node = tree
    for c in reversed(n.split('.')):
      node = node.setdefault(c, {})
    node[T] = n
  return tree


def build(names, values):
  m = selector_map.SelectorMap()
  m._selector_tree = canonical_tree(names)
  m._selector_map = {n: values[n] for n in names}
  return m


def suffixes(n):
  parts = n.split('.')
  return ['.'.join(parts[i:]) for i in range(len(parts))]


def queries(nvoc):
  qs = []
  for n in VOC[:nvoc]:
    for s in suffixes(n):
      if s not in qs:
        qs.append(s)
  qs.extend(['c', 'a.c', 'c.a'])
  return qs


def check_map(m, names, values, nvoc):
  """Every public observation of `m` equals the reference for the name set.

  The observation battery only handles concrete strings (values are compared by
  identity first), so it runs natively; the operation under test runs traced.
  """
  with rt.native():
    return _check_map(m, names, values, nvoc)


def _same(got, want):
  return got is want or rt.same('value', got, want)


def _check_map(m, names, values, nvoc):
  if m._selector_tree != canonical_tree(names):
    return False
  if set(m._selector_map) != set(names) or len(m) != len(names):
    return False
  items = dict(m.items())
  if set(items) != set(names) or not all(_same(items[n], values[n]) for n in names):
    return False
  for q in queries(nvoc):
    want = spec_matching(names, q)
    if sorted(m.matching_selectors(q)) != want:
      return False
    if (q in m) != (q in names):
      return False
    if not _same(m.get(q, 'dflt'), values[q] if q in names else 'dflt'):
      return False
    got_all = m.get_all_matches(q)
    if len(got_all) != len(want):
      return False
    try:
      got = m.get_match(q, 'none')
      if len(want) > 1:
        return False
      if len(want) == 1:
        if not _same(got, values[want[0]]):
          return False
      elif got != 'none':
        return False
    except KeyError:
      if len(want) <= 1:
        return False
  for n in names:
    ms = m.minimal_selector(n)
    sf = suffixes(n)
    if ms not in sf:
      return False
    if spec_matching(names, ms) != [n] or m.matching_selectors(ms) != [n]:
      return False
    for shorter in sf[sf.index(ms) + 1:]:
      if spec_matching(names, shorter) == [n]:
        return False
  for q in ('c', 'a.c'):
    if q not in names:
      try:
        m.minimal_selector(q)
        return False
      except KeyError:
        pass
  return True


def c08_step(nvoc: int, op: int, arg: int,
             s0: bool, s1: bool, s2: bool, s3: bool, s4: bool, s5: bool, s6: bool,
             s7: bool, s8: bool, s9: bool,
             v0: int, v1: int, v2: int, v3: int, v4: int, v5: int, v6: int,
             v7: int, v8: int, v9: int, vn: int) -> bool:
  """
  pre: 0 <= op < 6 and 0 <= arg < nvoc
  """
  op = rt.pick(op, 6)
  arg = rt.pick(arg, nvoc)
  bits = [s0, s1, s2, s3, s4, s5, s6, s7, s8, s9]
  vals = [v0, v1, v2, v3, v4, v5, v6, v7, v8, v9]
  names = []
  for i in range(nvoc):
    if rt.flag(bits[i]):
      names.append(VOC[i])
  values = {VOC[i]: vals[i] for i in range(10)}
  target = VOC[arg]
  if op == 5 and arg != 0:
    rt.discard()
  rt.sig(('step', tuple(names), op, target), nontrivial=len(names) >= 2)
  m = build(names, values)
  if not check_map(m, names, values, nvoc):     # the pre-state itself is consistent
    return False
  new_values = dict(values)
  new_values[target] = vn
  if op == 0:                                   # insert / overwrite
    m[target] = vn
    after = names if target in names else names + [target]
    return check_map(m, after, new_values, nvoc)
  if op == 1:                                   # pop
    if target not in names:
      try:
        m.pop(target)
        return False
      except KeyError:
        return check_map(m, names, values, nvoc)
    got = m.pop(target)
    if not _same(got, values[target]):
      return False
    return check_map(m, [n for n in names if n != target], values, nvoc)
  if op == 2:                                   # copy, then insert into the copy
    c = m.copy()
    if not check_map(c, names, values, nvoc):
      return False
    c[target] = vn
    after = names if target in names else names + [target]
    return check_map(c, after, new_values, nvoc) and check_map(m, names, values, nvoc)
  if op == 3:                                   # copy, then pop from the copy
    c = m.copy()
    if target in names:
      c.pop(target)
      return (check_map(c, [n for n in names if n != target], values, nvoc) and
              check_map(m, names, values, nvoc))
    return check_map(c, names, values, nvoc)
  if op == 4:                                   # copy, then insert into the ORIGINAL
    c = m.copy()
    m[target] = vn
    after = names if target in names else names + [target]
    return check_map(m, after, new_values, nvoc) and check_map(c, names, values, nvoc)
  c = m.copy()                                  # clear the original, copy keeps all
  m.clear()
  return check_map(m, [], values, nvoc) and check_map(c, names, values, nvoc)


SPELL = ['x.m.fam', 'vw.x.m.fam', ('', 'x.m.fam'), ('', 'vw.x.m.fam'), 'fam', 'm.fam',
         'nosuch', 'y.m.fam']
KIND = ['xm', 'xm', 'xm', 'xm', 'ambiguous', 'ambiguous', 'unknown', 'ym']


def _key(sp, scope):
  s = SPELL[sp]
  if isinstance(s, tuple):
    return (scope, s[1], 'p')
  return (scope + '/' if scope else '') + s + '.p'


def c08_api(sp1: int, sp2: int, sp3: int, scoped: bool, v1: int, v2: int) -> bool:
  """
  pre: 0 <= sp1 < 8 and 0 <= sp2 < 8 and 0 <= sp3 < 8
  """
  world.fresh()
  sp1, sp2, sp3 = rt.pick(sp1, 8), rt.pick(sp2, 8), rt.pick(sp3, 8)
  scope = 's' if rt.flag(scoped) else ''
  rt.sig(('api', sp1, sp2, sp3, scope), nontrivial=KIND[sp1] == 'xm' and KIND[sp2] in ('xm', 'ym'))
  state = {}                                     # reference: complete name -> value
  for sp, v in ((sp1, v1), (sp2, v2)):
    exc = None
    try:
      gin.bind_parameter(_key(sp, scope), v)
    except Exception as e:
      exc = e
    if KIND[sp] in ('ambiguous', 'unknown'):
      if exc is None or not isinstance(exc, (ValueError, KeyError)):
        return False
    else:
      if exc is not None:
        return False
      state[KIND[sp]] = v
  # query through a third spelling
  k3 = _key(sp3, scope)
  if isinstance(k3, tuple):
    k3 = (k3[0] + '/' if k3[0] else '') + k3[1] + '.p'
  try:
    got = gin.query_parameter(k3)
    if KIND[sp3] not in state or not rt.same('q', got, state[KIND[sp3]]):
      return False
  except (ValueError, KeyError):
    if KIND[sp3] in state:
      return False
  # get_bindings by selector spelling and by object agree with the reference
  sel = SPELL[sp3] if isinstance(SPELL[sp3], str) else SPELL[sp3][1]
  try:
    gb = gin.get_bindings((scope + '/' if scope else '') + sel)
    if KIND[sp3] not in ('xm', 'ym'):
      return False
    want = {'p': state[KIND[sp3]]} if KIND[sp3] in state else {}
    if gb != want:
      return False
  except (ValueError, KeyError):
    if KIND[sp3] in ('xm', 'ym'):
      return False
  # the configurable itself receives the value under the scope
  del world.LOG[:]
  if scope:
    with gin.config_scope(scope):
      world.fam_xm()
      world.fam_ym()
  else:
    world.fam_xm()
    world.fam_ym()
  rx, ry = world.LOG[0][1][0], world.LOG[1][1][0]
  return (rt.same('xm', rx, state.get('xm', 0)) and rt.same('ym', ry, state.get('ym', 0)))


# every spelling of a macro reference / definition is one key for the finalize hooks too
from vf.harness.c05 import c05_prefix as c08_refkey  # noqa: E402  (same harness, claimed under C08 as well)


def _names(nvoc):
  return {('s%d' % i): False for i in range(nvoc, 10)}


HARNESSES = {
    'c08_step': dict(
        fn='c08_step',
        anchors=['gin.selector_map:__setitem__', 'gin.selector_map:pop', 'gin.selector_map:copy',
                 'gin.selector_map:matching_selectors', 'gin.selector_map:minimal_selector',
                 'gin.selector_map:get_match'],
        smoke=[dict(nvoc=7, op=2, arg=1, s0=True, s1=False, s2=True, s3=True, s4=False, s5=False,
                    s6=True, s7=False, s8=False, s9=False, v0=0, v1=1, v2=2, v3=3, v4=4, v5=5,
                    v6=6, v7=7, v8=8, v9=9, vn=10),
               dict(nvoc=7, op=0, arg=4, s0=False, s1=False, s2=False, s3=False, s4=False, s5=False,
                    s6=False, s7=False, s8=False, s9=False, v0=0, v1=1, v2=2, v3=3, v4=4, v5=5,
                    v6=6, v7=7, v8=8, v9=9, vn=10),
               dict(nvoc=7, op=1, arg=3, s0=True, s1=True, s2=True, s3=True, s4=False, s5=False,
                    s6=False, s7=False, s8=False, s9=False, v0=0, v1=1, v2=2, v3=3, v4=4, v5=5,
                    v6=6, v7=7, v8=8, v9=9, vn=10)],
        tiers={'quick': dict(split=dict(op=list(range(6)), s0=[False, True], s1=[False, True]),
                             fixed=dict(nvoc=7, s7=False, s8=False, s9=False), budget_s=100),
               'thorough': dict(split=dict(op=list(range(6)), arg=list(range(10)),
                                           s0=[False, True], s1=[False, True]),
                                fixed=dict(nvoc=10), budget_s=900)},
        bounds='arbitrary subset of a 7-name (quick) / 10-name (thorough) vocabulary over components {a,b}, '
               'depth<=3, with names that are suffixes of other names; one operation (insert/overwrite, pop, '
               'copy+mutate copy, copy+mutate original, clear) with arbitrary argument; all queries over the '
               'vocabulary, its suffixes and 3 foreign names; stored values: all ints. Inductive step: the '
               'post-state is again the canonical trie, so histories of any length are covered.'),
    'c08_refkey': dict(
        fn='c08_refkey',
        anchors=['gin.config:validate_macros_hook', 'gin.config:validate_reference'],
        smoke=[dict(d0=True, d1=True, d2=False, d3=False, u0=True, u1=True, u2=False, u3=False, spell=1,
                    bindspell=1, late=False, v0=1, v1=2, v2=3, v3=4)],
        tiers={'quick': dict(split=dict(spell=[0, 1, 2], bindspell=[0, 1, 2]), fixed=dict(d3=False, u3=False, d2=False, u2=False),
                             budget_s=100),
               'thorough': dict(split=dict(spell=[0, 1, 2], bindspell=[0, 1, 2]), fixed=dict(d3=False, u3=False), budget_s=300)},
        bounds='finalize (built-in hooks) over 3 spellings of a macro reference x 3 spellings of its definition x '
               'definitions before/after the uses, names m and m/x'),
    'c08_api': dict(
        fn='c08_api',
        anchors=['gin.config:parse', 'gin.config:bind_parameter', 'gin.config:query_parameter',
                 'gin.config:get_bindings'],
        smoke=[dict(sp1=0, sp2=1, sp3=2, scoped=True, v1=5, v2=6)],
        tiers={'quick': dict(split=dict(sp1=list(range(8))), budget_s=100),
               'thorough': dict(split=dict(sp1=list(range(8)), sp2=list(range(8))), budget_s=300)},
        bounds='two binds and one query over 8 spellings (4 unambiguous spellings of one parameter as string '
               'and tuple keys, 2 ambiguous, 1 unknown, 1 sibling), scoped or not; values: all ints'),
}
