"""C20 - clear_config returns the configuration to its pristine state."""
import gin
from gin import config as gc
from vf import rt
from vf import world

CONST_SETS = [
    [],
    [('a.K', False), ('b.L', False)],
    [('b.a.K', True), ('a.K', True)],          # interactive mode: a name that is a suffix of an older one
    [('a.K', True), ('b.a.K', True), ('K', True)],
    [('x.y.Z', False), ('y.Z', True), ('Z', True), ('w.Z', False)],
    [('t.MUST_REQ', False), ('u.K', False)],       # a user constant whose VALUE is the REQUIRED sentinel
    [('gin.REQUIRED', True), ('t.K', False)],      # gin.REQUIRED itself overwritten in interactive mode
]
NCS = len(CONST_SETS)


def c20_step(b: bool, imp: bool, op: bool, fin: bool, sing: bool, failp: bool, failb: bool,
             consts: int, clear_constants: bool, v0: int, v1: int) -> bool:
  """
  pre: 0 <= consts < 7
  """
  world.fresh()
  with rt.native():
    base_cfg = gin.config_str()
    base_op = gin.operative_config_str()
  b, imp, op, fin = rt.flag(b), rt.flag(imp), rt.flag(op), rt.flag(fin)
  sing, failp, failb = rt.flag(sing), rt.flag(failp), rt.flag(failb)
  consts = rt.pick(consts, NCS)
  clear_constants = rt.flag(clear_constants)
  rt.sig(('clear', b, imp, op, fin, sing, failp, failb, consts, clear_constants),
         nontrivial=b or imp or op or fin or sing or consts > 0)
  defined = {}
  for name, interactive in CONST_SETS[consts]:
    obj = gin.REQUIRED if name.endswith('_REQ') else object()
    if interactive:
      with gin.config.interactive_mode():
        gin.constant(name, obj)
    else:
      gin.constant(name, obj)
    defined[name] = obj
  if b:
    gin.bind_parameter('vw.dflt.a', v0)
    gin.bind_parameter('s/vw.dflt.b', v1)
  if imp:
    with rt.native():
      gin.parse_config('import os\nvw.cons.p = @vw.src()\n')
  if failp:
    try:
      with rt.native():
        gin.parse_config('vw.src.v = 1\nvw.nosuch.x = 2\n')
      return False
    except ValueError:
      pass
  if failb:
    try:
      gin.bind_parameter('vw.dflt.zzz', v1)
      return False
    except ValueError:
      pass
  first = object()
  if sing:
    if gin.config.singleton_value('key', lambda: first) is not first:
      return False
  if op:
    world.dflt()
    with gin.config_scope('s'):
      world.dflt()
  if fin:
    gin.finalize()
    if b:
      # calls and queries under a scope while the configuration is locked
      with gin.config_scope('s'):
        world.dflt()
      gin.get_bindings('s/vw.dflt')
  del world.LOG[:]
  # ---------------------------------------------------------------------------
  try:
    gin.clear_config(clear_constants=clear_constants)
  except Exception:
    return False
  # ---------------------------------------------------------------------------
  if gin.config_is_locked():
    return False
  with rt.native():
    if gin.config_str() != base_cfg or gin.operative_config_str() != base_op:
      return False
    if gc._CONFIG or gc._IMPORTS or gc._OPERATIVE_CONFIG or gc._SINGLETONS:
      return False
  for key in ('vw.dflt.a', 's/vw.dflt.b', 'vw.cons.p', 'vw.src.v'):
    try:
      gin.query_parameter(key)
      return False
    except ValueError:
      pass
  with gin.config_scope('s'):
    world.dflt()
  world.cons()
  if world.LOG[0][1] != (world.DA, world.DB) or world.LOG[1][1] != (None, None):
    return False
  second = object()
  if gin.config.singleton_value('key', lambda: second) is not second:
    return False
  # constants
  if clear_constants or 'gin.REQUIRED' not in defined:
    if gin.query_parameter('gin.REQUIRED') is not gin.REQUIRED:
      return rt.no('gin.REQUIRED must be the sentinel')
  for name, obj in defined.items():
    if name == 'gin.REQUIRED' and clear_constants:
      continue
    try:
      got = gin.query_parameter(name)
      if clear_constants or got is not obj:
        return False
    except ValueError:
      if not clear_constants:
        return False
  with rt.native():
    names = set(n for n, _ in gc._CONSTANTS.items())
  want = {'gin.REQUIRED'} if clear_constants else {'gin.REQUIRED'} | set(defined)
  if names != want:
    return False
  # registrations remain and new bindings work, also once the configuration is locked again
  gin.bind_parameter('vw.dflt.a', v1)
  gin.bind_parameter('s/vw.dflt.b', v1)
  del world.LOG[:]
  gin.get_configurable('vw.dflt')()
  if not rt.same('a', world.LOG[0][1][0], v1):
    return False
  gin.finalize()
  del world.LOG[:]
  with gin.config_scope('s'):
    world.dflt()
  if not (rt.same('a locked', world.LOG[0][1][0], v1) and rt.same('b locked', world.LOG[0][1][1], v1)):
    return rt.no('a call under scope s after clear + finalize does not see the new bindings')
  got = gin.get_bindings('s/vw.dflt')
  return (set(got) == {'a', 'b'} and rt.same('ga', got['a'], v1) and rt.same('gb', got['b'], v1)) or rt.no('get_bindings after clear')


HARNESSES = {
    'c20_step': dict(
        fn='c20_step',
        anchors=['gin.config:clear_config', 'gin.selector_map:clear', 'gin.config:constant'],
        smoke=[dict(b=True, imp=True, op=True, fin=True, sing=True, failp=True, failb=True, consts=1,
                    clear_constants=False, v0=1, v1=2),
               dict(b=True, imp=False, op=False, fin=False, sing=False, failp=False, failb=False,
                    consts=4, clear_constants=True, v0=1, v1=2)],
        tiers={'quick': dict(split=dict(consts=list(range(7)), b=[False, True], fin=[False, True]),
                             budget_s=100),
               'thorough': dict(split=dict(consts=list(range(7)), b=[False, True], fin=[False, True],
                                           imp=[False, True]), budget_s=300)},
        bounds='pre-state = any combination of {bindings, parsed import + reference, operative record, '
               'finalized, used singleton, failed parse, failed bind} x 7 constant sets (incl. interactive-mode '
               'definitions whose names are suffixes of older ones, a constant whose value is the REQUIRED sentinel, gin.REQUIRED overwritten) x clear_constants; bound values: all ints'),
}
