"""C20 - clear_config returns the configuration to its pristine state."""
import copy
import enum
import os
import sys

sys.path.insert(0, os.path.join(os.path.dirname(os.path.dirname(os.path.dirname(
    os.path.abspath(__file__)))), 'fixtures'))

import gin
from gin import config as gc
from vf import rt
from vf import world


class Color20(enum.Enum):
  RED = 1
  BLUE = 2


CONST_SETS = [
    [],
    [('a.K', False), ('b.L', False)],
    [('b.a.K', True), ('a.K', True)],          # interactive mode: a name that is a suffix of an older one
    [('a.K', True), ('b.a.K', True), ('K', True)],
    [('x.y.Z', False), ('y.Z', True), ('Z', True), ('w.Z', False)],
    [('t.MUST_REQ', False), ('u.K', False)],       # a user constant whose VALUE is the REQUIRED sentinel
    [('gin.REQUIRED', True), ('t.K', False)],      # gin.REQUIRED itself overwritten in interactive mode
    [('gin.MAX', False), ('u.STEPS', False)],      # a user constant under Gin's own module name
    [('@enum', False), ('z.RED', False)],          # constants_from_enum: vw20e.Color20.RED / .BLUE
]
NCS = len(CONST_SETS)


def _define(idx, objs=None):
  """Defines constant set `idx`; returns {name: object} in definition order.

  `objs` (name -> object) lets two runs define the very same objects."""
  defined = {}
  for name, interactive in CONST_SETS[idx]:
    if name == '@enum':
      gin.constants_from_enum(Color20, module='vw20e')
      for member in Color20.__members__.values():
        defined['vw20e.Color20.' + member.name] = member
      continue
    if objs is not None and name in objs:
      obj = objs[name]
    else:
      obj = gin.REQUIRED if name.endswith('_REQ') else object()
    if interactive:
      with gin.config.interactive_mode():
        gin.constant(name, obj)
    else:
      gin.constant(name, obj)
    defined[name] = obj
  return defined


def c20_step(b: bool, imp: bool, op: bool, fin: bool, sing: bool, failp: bool, failb: bool,
             consts: int, clear_constants: bool, v0: int, v1: int) -> bool:
  """
  pre: 0 <= consts < 9
  """
  world.fresh()
  with rt.native():
    base_cfg = gin.config_str()
    base_op = gin.operative_config_str()
  b, imp, op, fin = rt.flag(b), rt.flag(imp), rt.flag(op), rt.flag(fin)
  sing, failp, failb = rt.flag(sing), rt.flag(failp), rt.flag(failb)
  consts = rt.pick(consts, NCS)
  clear_constants = rt.flag(clear_constants)
  rt.sig(('clear', b, imp, op, fin, sing, failp, failb, consts, clear_constants),
         nontrivial=b or imp or op or fin or sing or consts > 0)
  defined = _define(consts)
  if b:
    gin.bind_parameter('vw.dflt.a', v0)
    gin.bind_parameter('s/vw.dflt.b', v1)
  if imp:
    with rt.native():
      gin.parse_config('import os\nvw.cons.p = @vw.src()\n')
  if failp:
    try:
      with rt.native():
        gin.parse_config('vw.src.v = 1\nvw.nosuch.x = 2\n')
      return False
    except ValueError:
      pass
  if failb:
    try:
      gin.bind_parameter('vw.dflt.zzz', v1)
      return False
    except ValueError:
      pass
  first = object()
  if sing:
    if gin.config.singleton_value('key', lambda: first) is not first:
      return False
  if op:
    world.dflt()
    with gin.config_scope('s'):
      world.dflt()
  if fin:
    gin.finalize()
    if b:
      # calls and queries under a scope while the configuration is locked
      with gin.config_scope('s'):
        world.dflt()
      gin.get_bindings('s/vw.dflt')
  del world.LOG[:]
  # ---------------------------------------------------------------------------
  try:
    gin.clear_config(clear_constants=clear_constants)
  except Exception:
    return False
  # ---------------------------------------------------------------------------
  if gin.config_is_locked():
    return False
  with rt.native():
    if gin.config_str() != base_cfg or gin.operative_config_str() != base_op:
      return False
    if gc._CONFIG or gc._IMPORTS or gc._OPERATIVE_CONFIG or gc._SINGLETONS:
      return False
  for key in ('vw.dflt.a', 's/vw.dflt.b', 'vw.cons.p', 'vw.src.v'):
    try:
      gin.query_parameter(key)
      return False
    except ValueError:
      pass
  with gin.config_scope('s'):
    world.dflt()
  world.cons()
  if world.LOG[0][1] != (world.DA, world.DB) or world.LOG[1][1] != (None, None):
    return False
  second = object()
  if gin.config.singleton_value('key', lambda: second) is not second:
    return False
  # constants
  if clear_constants or 'gin.REQUIRED' not in defined:
    if gin.query_parameter('gin.REQUIRED') is not gin.REQUIRED:
      return rt.no('gin.REQUIRED must be the sentinel')
  for name, obj in defined.items():
    if name == 'gin.REQUIRED' and clear_constants:
      continue
    try:
      got = gin.query_parameter(name)
      if clear_constants or got is not obj:
        return False
    except ValueError:
      if not clear_constants:
        return False
  with rt.native():
    names = set(n for n, _ in gc._CONSTANTS.items())
  want = {'gin.REQUIRED'} if clear_constants else {'gin.REQUIRED'} | set(defined)
  if names != want:
    return False
  # registrations remain and new bindings work, also once the configuration is locked again
  gin.bind_parameter('vw.dflt.a', v1)
  gin.bind_parameter('s/vw.dflt.b', v1)
  del world.LOG[:]
  gin.get_configurable('vw.dflt')()
  if not rt.same('a', world.LOG[0][1][0], v1):
    return False
  gin.finalize()
  del world.LOG[:]
  with gin.config_scope('s'):
    world.dflt()
  if not (rt.same('a locked', world.LOG[0][1][0], v1) and rt.same('b locked', world.LOG[0][1][1], v1)):
    return rt.no('a call under scope s after clear + finalize does not see the new bindings')
  got = gin.get_bindings('s/vw.dflt')
  return (set(got) == {'a', 'b'} and rt.same('ga', got['a'], v1) and rt.same('gb', got['b'], v1)) or rt.no('get_bindings after clear')


# =====================================================================================================
# c20_life: a second lifetime after the clear, compared with the same lifetime after world.fresh()
# =====================================================================================================
import vf20x.mod as _fx   # fixture module, registered only through dynamic registration

if 'vw20.clearer' in gc._REGISTRY:
  clearer = gc._REGISTRY['vw20.clearer'].wrapper
else:
  @gin.configurable('clearer', module='vw20')
  def clearer(cc=False):
    """a configurable whose BODY clears the configuration"""
    gin.clear_config(clear_constants=cc)
    return gin.config_is_locked()

_DYN = ('from __gin__ import dynamic_registration\nimport vf20x.mod\n'
        'vf20x.mod.fn.x = 1\nvf20x.mod.consumer.p = @vf20x.mod.fn()\n')

# Registrations are process-wide and are never undone: make the ones a dynamic-registration parse would add
# right away, so that every run (first path of a process or not, run under test or reference run) sees the
# same registry.
if 'vf20x.mod.fn' not in gc._REGISTRY:
  world.fresh()
  gin.parse_config(_DYN)
  world.fresh()


def _try(out, f):
  """Runs one API step; only the KIND of outcome is recorded (messages embed addresses and config strings)."""
  try:
    r = f()
  except Exception as e:  # pylint: disable=broad-except
    out.append(('exc', type(e).__name__))
    return None
  out.append(('ok',))
  return r


_LABELS = []   # (object, label) of the current lifetime


def _val(v):
  """Observed values in a form that can be compared across processes."""
  if v is None or isinstance(v, (bool, int, str, float)):
    return v
  if v is gin.REQUIRED:
    return ('gin.REQUIRED sentinel',)
  if isinstance(v, enum.Enum):
    return ('enum', v.name)
  if isinstance(v, (gc.ConfigurableReference, gc._UnknownConfigurableReference)):
    return ('ref', type(v).__name__, repr(v) if isinstance(v, gc.ConfigurableReference) else v.selector)
  if isinstance(v, dict):
    return {k: _val(x) for k, x in v.items()}
  if isinstance(v, (list, tuple)):
    return type(v)(_val(x) for x in v)
  for obj, label in _LABELS:
    if v is obj:
      return label
  return ('object of type', type(v).__name__)


def _scoped(scopes, f):
  if not scopes:
    return f()
  with gin.config_scope(scopes[0]):
    return _scoped(scopes[1:], f)


# ---- histories before the clear ---------------------------------------------------------------------
_T1 = ('import os\nM = 3\ns/M = 4\nvw.dflt.a = %M\nvw.dflt.b = 2\ns/vw.dflt.b = %s/M\n'
       'vw.cons.p = @vw.src()\nvw.src.v = 7\ns/t/vw.dflt.a = 13\nvw.Kinit.a = 14\nvw.Kmeth.meth.a = 15\n')


def _pre_parsed(held, out):
  """text with locations: import, macros (plain and scoped), reference; everything evaluated at least once"""
  _try(out, lambda: gin.parse_config(_T1))
  _try(out, world.dflt)
  _try(out, lambda: _scoped(['s'], world.dflt))
  _try(out, lambda: _scoped(['s', 't'], world.dflt))
  _try(out, world.cons)
  _try(out, world.Kinit)
  _try(out, lambda: world.Kmeth().meth())
  _try(out, lambda: gin.config.singleton_value('key', object))
  # objects obtained now, used after the clear
  held['f'] = _try(out, lambda: gin.get_configurable('s/vw.dflt'))
  held['kcls'] = _try(out, lambda: gin.get_configurable('s/vw.Kreg'))
  held['ref'] = _try(out, lambda: gin.query_parameter('vw.cons.p'))
  with gin.config_scope('s') as sc:
    held['sc'] = sc


def _pre_locked(held, out):
  """the same, finalized, then calls and queries under several scopes / flags while locked"""
  _pre_parsed(held, out)
  _try(out, gin.finalize)
  _try(out, lambda: _scoped(['s'], world.dflt))
  _try(out, lambda: _scoped(['s', 't'], world.dflt))
  _try(out, lambda: _scoped(['s'], world.Kinit))
  _try(out, lambda: gin.get_bindings('s/vw.dflt'))
  _try(out, lambda: gin.get_bindings('s/vw.dflt', inherit_scopes=False))
  _try(out, lambda: gin.get_bindings('s/t/vw.dflt'))
  _try(out, lambda: gin.get_bindings('s/t/vw.dflt', inherit_scopes=False))
  _try(out, lambda: gin.get_bindings('vw.cons', resolve_references=False))
  _try(out, lambda: gin.get_bindings('vw.Kmeth.meth'))
  _try(out, lambda: gin.get_configurable('s/vw.dflt')())
  _try(out, lambda: gin.get_configurable('s/t/vw.dflt')())


def _pre_dynamic(held, out):
  _try(out, lambda: gin.parse_config(_DYN))
  _try(out, lambda: gin.get_configurable('vf20x.mod.consumer')())


def _pre_from_import(held, out):
  _try(out, lambda: gin.parse_config('from os import path\nvw.dflt.a = 1\n'))
  _try(out, world.dflt)


def _parse_fail(text, **kw):
  def pre(held, out):
    _try(out, lambda: gin.parse_config(text, **kw))
    _try(out, world.dflt)
  return pre


def _pre_locked_failures(held, out):
  _try(out, lambda: gin.bind_parameter('vw.dflt.a', 1))
  _try(out, gin.finalize)
  _try(out, lambda: gin.bind_parameter('vw.dflt.b', 2))                 # RuntimeError
  _try(out, lambda: gin.parse_config('import os\nvw.dflt.a = 5\n'))    # fails at the first binding
  _try(out, gin.finalize)                                              # second finalize
  _try(out, world.dflt)


def _pre_unknown_ref(held, out):
  _try(out, lambda: gin.parse_config('import nosuch_mod_20\nvw.cons.p = @nosuch()\nvw.dflt.a = 1\n',
                                     skip_unknown=True))
  _try(out, gin.finalize)                                              # find_unknown_references_hook raises
  _try(out, world.dflt)


def _pre_required(held, out):
  _try(out, lambda: gin.parse_config('vw.dflt.a = %gin.REQUIRED\nvw.dflt.b = 1\n'))
  _try(out, gin.finalize)                                              # find_missing_overrides_hook raises


def _pre_hooks(held, out):
  """the hooks themselves are registrations (see _registrations)"""
  _try(out, lambda: gin.bind_parameter('vw.dflt.a', 1))
  _try(out, gin.finalize)
  _try(out, lambda: _scoped(['s'], world.dflt))


def _pre_singleton_ref(held, out):
  _try(out, lambda: gin.parse_config('vw.cons.p = @k/gin.singleton()\n'
                                     'k/gin.singleton.constructor = @vw.mkobj\n'))
  _try(out, world.cons)
  _try(out, world.cons)


def _pre_unlock_rebind(held, out):
  _try(out, lambda: gin.bind_parameter('vw.dflt.a', 1))
  _try(out, gin.finalize)

  def rebind():
    with gin.unlock_config():
      gin.bind_parameter('vw.dflt.a', 5)
      gin.bind_parameter('s/vw.dflt.b', 6)
  _try(out, rebind)
  _try(out, lambda: _scoped(['s'], world.dflt))


_FILES = {'top.gin': 'import os\nvw.dflt.a = 1\ninclude "sub.gin"\nvw.dflt.b = 3\n',
          'sub.gin': 'vw.src.v = 2\ninclude "missing.gin"\n'}


def _pre_include(held, out):
  _try(out, lambda: gin.parse_config_file('top.gin'))
  _try(out, world.dflt)


def _pre_printer_fails(held, out):
  # imports recorded by two successful parses that the printer cannot re-process together (a dynamic-registration
  # text and a legacy text importing a gin module): config_str() / operative_config_str() fail - a failed
  # operation inside the parse-context machinery - before the clear
  _try(out, lambda: gin.parse_config(_DYN))
  _try(out, lambda: gin.parse_config('import gin.config\nvw.dflt.a = 1\n'))
  _try(out, world.dflt)
  _try(out, gin.config_str)
  _try(out, gin.operative_config_str)
  _try(out, lambda: gin.query_parameter('vw.dflt.a'))


PRES = [
    ('nothing', lambda held, out: None),
    ('parsed text, macros, reference, all evaluated; objects held', _pre_parsed),
    ('same + finalize + scoped calls/queries while locked', _pre_locked),
    ('dynamic registration', _pre_dynamic),
    ('from os import path', _pre_from_import),
    ('parse fails after an import', _parse_fail('import os\nvw.dflt.a = 1\nvw.nosuch.x = 2\n')),
    ('parse fails: syntax error mid-value', _parse_fail('vw.dflt.a = 1\nvw.dflt.b = [1,\n')),
    ('parse fails: denylisted parameter', _parse_fail('vw.dflt.a = 1\nvw.deny_b.b = 1\n')),
    ('parse fails: ambiguous selector', _parse_fail('vw.dflt.a = 1\nfam.p = 1\n')),
    ('parse fails inside a block', _parse_fail('vw.dflt.a = 1\nvw.dflt:\n  b = 2\n  zzz = 3\n')),
    ('failed operations while locked', _pre_locked_failures),
    ('unknown reference + unknown import skipped, finalize fails', _pre_unknown_ref),
    ('%gin.REQUIRED never overridden, finalize fails', _pre_required),
    ('two hooks with conflicting keys, finalize fails', _pre_hooks),
    ('a hook that adds a binding, finalize', _pre_hooks),
    ('singleton created through a reference', _pre_singleton_ref),
    ('unlock_config rebinding after finalize', _pre_unlock_rebind),
    ('nested include fails halfway (in-memory files)', _pre_include),
    ('config_str() fails on the recorded imports (dynamic registration + import gin.config)', _pre_printer_fails),
]
NPRE = len(PRES)
P_CONFLICT, P_ADDHOOK, P_INCLUDE = 13, 14, 17


def _registrations(pre):
  """Things a fresh process with the same registrations has as well (clear_config must not touch them)."""
  if pre == P_CONFLICT:
    gin.config.register_finalize_hook(lambda cfg: {'vw.dflt.b': 1})
    gin.config.register_finalize_hook(lambda cfg: {'dflt.b': 2})
  elif pre == P_ADDHOOK:
    gin.config.register_finalize_hook(lambda cfg: {'s/vw.dflt.b': 9})
  elif pre == P_INCLUDE:
    world.use_mem_fs(_FILES)


# ---- ways of clearing --------------------------------------------------------------------------------
HOWS = ['plain', 'twice in a row', 'inside unlock_config()', 'inside a configurable body under scope s',
        "while config_scope('s') is open", 'while interactive mode is on',
        'clear, rebuild, clear (clear_constants differs)']
NHOW = len(HOWS)
H_UNLOCK, H_REBUILD = 2, 6


def _do_clear(how, cc, out):
  """Returns False when a clear raised or (how=2) the configuration was locked right after the clear."""
  try:
    if how == 0:
      gin.clear_config(clear_constants=cc)
    elif how == 1:
      gin.clear_config(clear_constants=cc)
      gin.clear_config(clear_constants=cc)
    elif how == 2:
      with gin.unlock_config():
        gin.clear_config(clear_constants=cc)
        if gin.config_is_locked():
          return False
    elif how == 3:
      with gin.config_scope('s'):
        if clearer(cc):
          return False
    elif how == 4:
      with gin.config_scope('s'):
        gin.clear_config(clear_constants=cc)
    elif how == 5:
      with gin.config.interactive_mode():
        gin.clear_config(clear_constants=cc)
    else:
      gin.clear_config(clear_constants=not cc)
      if gin.config_is_locked():
        return False
      _try(out, lambda: gin.parse_config('import os\nM = 1\nvw.dflt.a = %M\ns/vw.dflt.b = 21\n'))
      _try(out, lambda: _scoped(['s'], world.dflt))
      _try(out, lambda: gin.config.singleton_value('key', object))
      _try(out, gin.finalize)
      _try(out, lambda: _scoped(['s'], world.dflt))
      gin.clear_config(clear_constants=cc)
  except Exception:  # pylint: disable=broad-except
    return False
  return True


# ---- observations ------------------------------------------------------------------------------------
_GB = [('vw.dflt', {}), ('s/vw.dflt', {}), ('s/vw.dflt', dict(inherit_scopes=False)), ('s/t/vw.dflt', {}),
       ('s/t/vw.dflt', dict(inherit_scopes=False)), ('vw.cons', dict(resolve_references=False)),
       ('vw.cons', {}), ('vw.Kinit', {}), ('s/vw.Kinit', {}), ('vw.Kmeth.meth', {}), ('s/vw.src', {}),
       ('vf20x.mod.fn', {}), ('vf20x.mod.consumer', dict(resolve_references=False))]
_QUERIES = ['vw.dflt.a', 'vw.dflt.b', 's/vw.dflt.b', 's/t/vw.dflt.a', 'vw.cons.p', 'vw.src.v', 's/vw.src.v',
            'M/gin.macro.value', 's/M/gin.macro.value', 'N/gin.macro.value', 'vw.Kinit.a',
            'vw.Kmeth.meth.a', 'vf20x.mod.fn.x', 'vf20x.mod.consumer.p', 'k/gin.singleton.constructor']


def _observe(names):
  o = [('locked', gin.config_is_locked())]
  for prov in (False, True):
    for fn in (gin.config_str, gin.operative_config_str):
      try:
        o.append((fn.__name__, prov, fn(show_provenance=prov)))
      except Exception as e:  # pylint: disable=broad-except
        # (a macro used while unbound leaves an empty operative record that the printer cannot handle - in a
        #  fresh process just the same)
        o.append((fn.__name__, prov, 'exc', type(e).__name__))
  for sel, kw in _GB:
    try:
      o.append(('get_bindings', sel, sorted(kw), _val(gin.get_bindings(sel, **kw))))
    except Exception as e:  # pylint: disable=broad-except
      o.append(('get_bindings', sel, sorted(kw), 'exc', type(e).__name__))
  for key in _QUERIES + ['gin.REQUIRED'] + list(names):
    try:
      o.append(('query', key, _val(gin.query_parameter(key))))
    except Exception as e:  # pylint: disable=broad-except
      o.append(('query', key, 'exc', type(e).__name__))
  o.append(('constants', sorted(n for n, _ in gc._CONSTANTS.items())))
  o.append(('stores', len(gc._CONFIG), len(gc._IMPORTS), len(gc._OPERATIVE_CONFIG), len(gc._SINGLETONS)))
  o.append(('parse contexts', len(gc._PARSE_CONTEXTS)))
  o.append(('scope', gin.current_scope()))
  return o


# ---- second lifetimes --------------------------------------------------------------------------------
_T2 = ('import math\nN = 5\nvw.dflt.a = %N\ns/vw.dflt.b = 6\ns/t/vw.dflt.a = 8\nvw.cons.p = @s/vw.src()\n'
       's/vw.src.v = 9\nvw.Kinit.a = 11\nvw.Kmeth.meth.a = 12\n')


def _calls(held, out):
  m1, m2 = object(), object()
  _try(out, world.dflt)
  _try(out, lambda: _scoped(['s'], world.dflt))
  _try(out, lambda: _scoped(['s', 't'], world.dflt))
  _try(out, world.cons)
  _try(out, world.Kinit)
  _try(out, lambda: world.Kmeth().meth())
  # objects obtained BEFORE the clear (run under test) or just now (reference run)
  _try(out, held.get('f') or gin.get_configurable('s/vw.dflt'))
  kcls = held.get('kcls') or gin.get_configurable('s/vw.Kreg')
  _try(out, kcls)
  ref = held.get('ref') or gin.config.parse_value('@vw.src()')
  out.append(('held reference', _try(out, lambda: copy.deepcopy(ref))))
  _try(out, lambda: _scoped([held.get('sc') or ['s']], world.dflt))
  out.append(('singleton key', _try(out, lambda: gin.config.singleton_value('key', lambda: m1)) is m1))
  out.append(('singleton k', _try(out, lambda: gin.config.singleton_value('k', lambda: m2)) is m2))


def _h2_full(held, names, new_objs, out):
  _try(out, lambda: gin.parse_config(_T2))
  _calls(held, out)
  _try(out, gin.finalize)
  _calls(held, out)
  _try(out, lambda: gin.get_configurable('s/t/vw.dflt')())


def _h2_api(held, names, new_objs, out):
  _try(out, lambda: gin.bind_parameter('vw.dflt.a', 1))
  _try(out, lambda: gin.bind_parameter('s/t/vw.dflt.b', 2))
  _try(out, lambda: gin.bind_parameter('vw.src.v', 4))
  _calls(held, out)


def _h2_defaults(held, names, new_objs, out):
  _calls(held, out)
  _try(out, gin.finalize)
  _calls(held, out)


def _h2_static(held, names, new_objs, out):
  """the module registered through dynamic registration is used WITHOUT it, then with another alias"""
  _try(out, lambda: gin.parse_config('vf20x.mod.fn.x = 2\nvf20x.mod.consumer.p = @vf20x.mod.fn()\n'))
  _try(out, lambda: gin.get_configurable('vf20x.mod.consumer')())
  _try(out, lambda: gin.parse_config('from __gin__ import dynamic_registration\nimport vf20x.mod as zz\n'
                                     'zz.fn.y = 3\n'))
  _try(out, lambda: gin.get_configurable('vf20x.mod.consumer')())


def _h2_constants(held, names, new_objs, out):
  """use every constant defined before the clear, by full and by shortest name, then define it again"""
  for name in names:
    last = name.rsplit('.', 1)[-1]
    _try(out, lambda: gin.parse_config('vw.dflt.a = %' + name + '\nvw.dflt.b = 0\n'))
    out.append(('use', name, _try(out, world.dflt)))
    _try(out, lambda: gin.parse_config('vw.dflt.a = 0\nvw.dflt.b = %' + last + '\n'))
    out.append(('use', last, _try(out, world.dflt)))
  for name in names:
    _try(out, lambda: gin.constant(name, new_objs[name]))
    out.append(('again', name, _try(out, lambda: gin.query_parameter(name))))
  for name in names:
    last = name.rsplit('.', 1)[-1]
    _try(out, lambda: gin.parse_config(last + ' = 3\nvw.dflt.a = 0\nvw.dflt.b = %' + last + '\n'))
    out.append(('macro', last, _try(out, world.dflt)))
  _try(out, lambda: gin.parse_config('vw.dflt.a = %M\nvw.dflt.b = 0\n'))
  out.append(('macro M', _try(out, world.dflt)))
  _try(out, lambda: gin.parse_config('vw.dflt.a = 0\nvw.dflt.b = %s/M\n'))
  out.append(('macro s/M', _try(out, world.dflt)))
  _try(out, lambda: gin.parse_config('vw.dflt.b = 0\n'))
  _try(out, gin.finalize)


H2_PLAIN = [('text: import, macro, scoped reference, class and method targets; calls; finalize', _h2_full),
            ('bind by API, call (provenance of defaults)', _h2_api),
            ('nothing bound: calls, finalize (hooks), calls', _h2_defaults),
            ('dynamically registered module used statically, then under another alias', _h2_static)]
NH2 = len(H2_PLAIN) + NCS - 1          # + one 'use the constants' lifetime per non-empty constant set


def _names_of(cset):
  names = []
  for name, _ in CONST_SETS[cset]:
    if name == '@enum':
      names.extend('vw20e.Color20.' + m for m in Color20.__members__)
    else:
      names.append(name)
  return names


def _cset_of(h2):
  return h2 - len(H2_PLAIN) + 1 if h2 >= len(H2_PLAIN) else 1


def _objects(cset):
  """The constant values of one lifetime, labelled so that two PROCESSES can be compared."""
  del _LABELS[:]
  objs = {n: (gin.REQUIRED if n.endswith('_REQ') else object()) for n in _names_of(cset)}
  new_objs = {n: object() for n in _names_of(cset)}
  _LABELS.extend((o, ('constant', n)) for n, o in objs.items() if o is not gin.REQUIRED)
  _LABELS.extend((o, ('redefined', n)) for n, o in new_objs.items())
  return objs, new_objs


def _second_life(held, h2, names, new_objs):
  del world.LOG[:], world.SRC_CALLS[:], _fx.CALLS[:]
  o1 = _observe(names)
  out = []
  fn = H2_PLAIN[h2][1] if h2 < len(H2_PLAIN) else _h2_constants
  fn(held, names, new_objs, out)
  o2 = _observe(names)
  return [o1, _val(out), o2, _val(list(world.LOG)), _val(list(world.SRC_CALLS)), _val(list(_fx.CALLS))]


def _base_strings():
  return (gin.config_str(), gin.operative_config_str(), gin.config_str(show_provenance=True),
          gin.operative_config_str(show_provenance=True))


def _life_after_clear(pre, how, h2, cc):
  """History `pre`, clear `how`, absolute checks, then the second lifetime.  Returns its observation or False."""
  world.fresh()
  base = _base_strings()
  _registrations(pre)
  cset = _cset_of(h2)
  objs, new_objs = _objects(cset)
  cleared = cc or how == H_REBUILD
  held, junk = {}, []
  defined = _define(cset, objs)
  PRES[pre][1](held, junk)
  was_locked = gin.config_is_locked()
  if not _do_clear(how, cc, junk):
    return rt.no('clear_config raised / left the configuration locked')
  # ---- absolute part of the oracle ----
  if gin.config_is_locked() and not (how == H_UNLOCK and was_locked):
    # (clear_config inside unlock_config() of a locked configuration: C12 restores the lock on exit, C20 says
    #  unlocked - either is accepted, the reference is chosen according to what is seen)
    return rt.no('locked after the clear')
  if gc._INTERACTIVE_MODE:
    raise rt.HarnessError('interactive mode left on')
  if gc._CONFIG or gc._IMPORTS or gc._OPERATIVE_CONFIG or gc._SINGLETONS:
    return rt.no('a store is not empty')
  if _base_strings() != base:
    return rt.no('config strings are not those taken before the history')
  names = set(n for n, _ in gc._CONSTANTS.items())
  if names != ({'gin.REQUIRED'} if cleared else {'gin.REQUIRED'} | set(defined)):
    return rt.no('constants: %r' % (sorted(names),))
  for name, obj in defined.items():
    if not cleared and gc._CONSTANTS[name] is not obj:
      return rt.no('constant changed: ' + name)
  if cleared and gc._CONSTANTS['gin.REQUIRED'] is not gin.REQUIRED:
    return rt.no('gin.REQUIRED must be the sentinel')
  for key in _QUERIES:
    try:
      gin.query_parameter(key)
      return rt.no('still bound: ' + key)
    except Exception:  # pylint: disable=broad-except
      pass
  return _second_life(held, h2, _names_of(cset), new_objs)


def _life_fresh(regclass, h2, cleared, lock):
  """The second lifetime alone, in a process that has done nothing else (see _references)."""
  world.fresh()
  _registrations(regclass)
  cset = _cset_of(h2)
  objs, new_objs = _objects(cset)
  if not cleared:
    _define(cset, objs)            # surviving constants: defined the same way
  if lock:
    gc._set_config_is_locked(True)
  return _second_life({}, h2, _names_of(cset), new_objs)


_REFS = {}


def _references(regclass):
  """{(h2, cleared, lock): observation} computed by a FRESH interpreter with the same registrations.

  One child process per registration class and per checking process; the child has never run a history or a
  clear, so nothing that a defective clear_config (or a store world.fresh() does not know) leaves behind can
  reach the reference."""
  if regclass not in _REFS:
    import base64
    import pickle
    import subprocess
    env = dict(os.environ, VERIF_NO_CROSSHAIR='1', PYTHONDONTWRITEBYTECODE='1')
    p = subprocess.run([sys.executable, '-m', 'vf.harness.c20', '--references', str(regclass)],
                       capture_output=True, env=env, timeout=600)
    i = p.stdout.rfind(b'@@REF@@')
    if i < 0:
      raise rt.HarnessError('reference process failed: ' + p.stderr.decode(errors='replace')[-600:])
    _REFS[regclass] = pickle.loads(base64.b64decode(p.stdout[i + 7:].strip()))
  return _REFS[regclass]


def _child_main(regclass):
  import base64
  import pickle
  refs = {}
  for h2 in range(NH2):
    for cleared in (False, True):
      for lock in (False, True):
        try:
          refs[h2, cleared, lock] = _life_fresh(regclass, h2, cleared, lock)
        except Exception as e:  # pylint: disable=broad-except
          refs[h2, cleared, lock] = ('reference lifetime raised', type(e).__name__)
  sys.stdout.write('@@REF@@' + base64.b64encode(pickle.dumps(refs)).decode() + '\n')


def _explain(a, b):
  if os.environ.get('VERIF_EXPLAIN') and not (rt.HAVE_CH and rt._is_tracing()):
    for i, (x, y) in enumerate(zip(a, b)):
      if x != y:
        if isinstance(x, list) and isinstance(y, list):
          for u, v in zip(x, y):
            if u != v:
              sys.stderr.write('DIFF part %d:\n  after clear:   %r\n  fresh process: %r\n' % (i, u, v))
              break
          else:
            sys.stderr.write('DIFF part %d: lengths %d / %d\n' % (i, len(x), len(y)))
        else:
          sys.stderr.write('DIFF part %d:\n  after clear:   %r\n  fresh process: %r\n' % (i, x, y))
        break


def c20_life(pre: int, how: int, h2: int, clear_constants: bool) -> bool:
  """
  pre: 0 <= pre < 19
  pre: 0 <= how < 7
  pre: 0 <= h2 < 12
  """
  pre, how, h2 = rt.pick(pre, NPRE), rt.pick(how, NHOW), rt.pick(h2, NH2)
  cc = rt.flag(clear_constants)
  rt.sig(('life', pre, how, h2, cc), nontrivial=pre > 0)
  with rt.native():
    refs = _references(pre if pre in (P_CONFLICT, P_ADDHOOK, P_INCLUDE) else 0)
    try:
      got = _life_after_clear(pre, how, h2, cc)
      if got is False:
        return False
      want = refs[h2, cc or how == H_REBUILD, got[0][0][1]]
      if got != want:
        _explain(got, want)
        return rt.no('the lifetime after the clear differs from the same lifetime in a fresh process')
    finally:
      world.fresh()
  return True



HARNESSES = {
    'c20_step': dict(
        fn='c20_step',
        anchors=['gin.config:clear_config', 'gin.selector_map:clear', 'gin.config:constant'],
        smoke=[dict(b=True, imp=True, op=True, fin=True, sing=True, failp=True, failb=True, consts=1,
                    clear_constants=False, v0=1, v1=2),
               dict(b=True, imp=False, op=False, fin=False, sing=False, failp=False, failb=False,
                    consts=4, clear_constants=True, v0=1, v1=2),
               dict(b=True, imp=False, op=True, fin=True, sing=False, failp=False, failb=False,
                    consts=7, clear_constants=True, v0=1, v1=2),
               dict(b=False, imp=True, op=True, fin=False, sing=True, failp=False, failb=False,
                    consts=8, clear_constants=False, v0=1, v1=2)],
        tiers={'quick': dict(split=dict(consts=list(range(NCS)), b=[False, True], fin=[False, True]),
                             budget_s=100),
               'thorough': dict(split=dict(consts=list(range(NCS)), b=[False, True], fin=[False, True],
                                           imp=[False, True]), budget_s=300)},
        bounds='pre-state = any combination of {bindings, parsed import + reference, operative record, '
               'finalized, used singleton, failed parse, failed bind} x 9 constant sets (incl. interactive-mode '
               'definitions whose names are suffixes of older ones, a constant whose value is the REQUIRED sentinel, '
               'gin.REQUIRED overwritten, a user constant under gin., constants_from_enum) x clear_constants; '
               'bound values: all ints'),
    'c20_life': dict(
        fn='c20_life',
        anchors=['gin.config:clear_config', 'gin.selector_map:clear', 'gin.config:constant',
                 'gin.config:parse_config', 'gin.config:finalize', 'gin.config:unlock_config'],
        smoke=[dict(pre=i, how=i % NHOW, h2=i % NH2, clear_constants=bool(i % 2)) for i in range(NPRE)] +
              [dict(pre=2, how=2, h2=0, clear_constants=False), dict(pre=1, how=6, h2=11, clear_constants=True)],
        tiers={'quick': dict(split=dict(pre=list(range(NPRE))), budget_s=150),
               # the choice space is finite and already exhausted by the quick tier: same space, larger budget
               'thorough': dict(split=dict(pre=list(range(NPRE))), budget_s=600)},
        bounds='18 histories before the clear (%s) x 7 ways of clearing (%s) x clear_constants x 12 second '
               'lifetimes (%s; use + re-definition of each of the 8 non-empty constant sets by full and by shortest '
               'name); every step concrete; each lifetime is compared with the same lifetime run after '
               'fresh interpreter process with the same hooks / file readers / surviving constants'
               % ('; '.join(p[0] for p in PRES), '; '.join(HOWS), '; '.join(h[0] for h in H2_PLAIN))),
}

SOLVER_ROLE = ('c20_step decides data (the bound values are unbounded solver integers through bind, clear, re-bind, '
               'lock, call); c20_life certifies coverage: once the F-choices (history, way of clearing, second '
               'lifetime) are made every step is concrete text / API calls run natively, and the solver certifies '
               'that the choice space was covered completely')
OUTSIDE = ('clear_config() called from inside a finalize hook; clear_config racing other threads (C18); '
           'config files on the real file system; registrations made between the clear and the comparison')
ASSUMPTIONS = ['c20_life: "a fresh process with the same registrations" is a child interpreter that imports the same '
               'modules, registers the same finalize hooks / file readers (they count as registrations), defines the '
               'surviving constants the same way and then runs only the second lifetime; values are compared by '
               'label (constant name, enum member, sentinel), outcomes of steps by exception class; one child per '
               'registration class computes all its reference lifetimes one after the other (world.fresh() between '
               'them); between paths the checking process itself is reset with world.fresh()',
               'clear_config() inside `with unlock_config():` on a locked configuration: the lock state seen after '
               'the block is accepted either way (C12 demands the entry state, C20 an unlocked configuration); '
               'right after the clear, inside the block, the configuration must be unlocked',
               'fixture package /verif/fixtures/vf20x (registered once at import of the harness module)']


if __name__ == '__main__' and sys.argv[1:2] == ['--references']:
  _child_main(int(sys.argv[2]))
