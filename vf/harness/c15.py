"""C15 - skip_unknown drops exactly the statements that target unknown names."""
import gin
from gin import config as gc
from vf import rt
from vf import world

# kind -> (text lines, unknown configurable targeted (or None), unknown references inside,
#          entries applied when not skipped: [(scope, selector, param, canonical value)])
U = lambda sel, ev: ('UNK', sel, ev)
KINDS = [
    (['vw.dflt.a = %vwc.V0'], None, [], [('', 'vw.dflt', 'a', ('REF', 'vwc.V0/gin.constant', True))]),
    (['vw.unk1.x = 1'], 'vw.unk1', [], []),
    (['vw.unk2:', '  x = 1', '  y = [2]'], 'vw.unk2', [], []),
    (['vw.cons.p = @unkref()'], None, ['unkref'], [('', 'vw.cons', 'p', U('unkref', True))]),
    (["vw.cons.q = [1, {'k': @sc/unkref2}]"], None, ['unkref2'],
     [('', 'vw.cons', 'q', [1, {'k': U('unkref2', False)}])]),
    (['mac = @unkref()'], None, ['unkref'], [('mac', 'gin.macro', 'value', U('unkref', True))]),
    (['import no_such_module_xyz'], 'IMPORT', [], []),
    (['vw.src:', '  v = 3'], None, [], [('', 'vw.src', 'v', 3)]),
    (['vw.unk1.y = @unkref()'], 'vw.unk1', ['unkref'], []),
    # references with a scope two levels deep: known ones stay references, unknown ones placeholders
    (['vw.lit.p = @a/b/vw.src()'], None, [], [('', 'vw.lit', 'p', ('REF', 'a/b/vw.src', True))]),
    (['vw.lit.q = (@a/b/unkref,)'], None, ['unkref'], [('', 'vw.lit', 'q', (U('unkref', False),))]),
]
NK = len(KINDS)
SKIPS = [False, True, ['vw.unk1', 'vw.unk2', 'unkref', 'unkref2'], ['vw.unk1'],
         ('vw.unk1', 'vw.unk2', 'unkref', 'unkref2'), {'vw.unk2', 'unkref'}, [],
         {'vw.unk1', 'vw.unk2', 'unkref', 'unkref2'}]
NS = len(SKIPS)


def canon(v):
  if isinstance(v, gc._UnknownConfigurableReference):
    return ('UNK', v.selector, v.evaluate)
  if isinstance(v, gc.ConfigurableReference):
    return ('REF', v.scoped_selector, v.evaluate)
  if isinstance(v, list):
    return [canon(x) for x in v]
  if isinstance(v, tuple):
    return tuple(canon(x) for x in v)
  if isinstance(v, dict):
    return {k: canon(x) for k, x in v.items()}
  return v


def covered(name, skip):
  if isinstance(skip, bool):
    return skip
  return name in skip


def c15_skip(n: int, k0: int, k1: int, k2: int, k3: int, skip: int, v0: int) -> bool:
  """
  pre: 1 <= n <= 4 and 0 <= k0 < 11 and 0 <= k1 < 11 and 0 <= k2 < 11 and 0 <= k3 < 11 and 0 <= skip < 8
  """
  world.fresh()
  ks = [rt.pick(k, NK) for k in (k0, k1, k2, k3)[:n]]
  skip = rt.pick(skip, NS)
  sk = SKIPS[skip]
  gin.constant('vwc.V0', v0)
  # ---- reference: delete the skipped statements, stop at the first uncovered unknown ----
  want = {}
  error = None
  for k in ks:
    lines, target, refs, entries = KINDS[k]
    bad_ref = [r for r in refs if not covered(r, sk)]
    if bad_ref:
      error = ValueError           # an unknown reference not covered is an error anywhere
      break
    if target == 'IMPORT':
      if not sk:
        error = ImportError
        break
      continue
    if target is not None:
      if covered(target, sk):
        continue                   # the whole binding / block is dropped
      error = ValueError
      break
    for scope, sel, param, val in entries:
      want.setdefault((scope, sel), {})[param] = val
  rt.sig(('skip', tuple(ks), skip), nontrivial=any(KINDS[k][1] or KINDS[k][2] for k in ks))
  with rt.native():
    text = '\n'.join('\n'.join(KINDS[k][0]) for k in ks) + '\n'
    exc = None
    try:
      gin.parse_config(text, skip_unknown=sk if not isinstance(sk, (list, tuple, set)) else type(sk)(sk))
    except Exception as e:
      exc = e
    got = {key: {p: canon(v) for p, v in d.items()} for key, d in gc._CONFIG.items()}
    if error is not None:
      if not isinstance(exc, error):
        return rt.no('uncovered unknown must raise %s, got %r' % (error.__name__, exc))
    elif exc is not None:
      return rt.no('unexpected %r' % (exc,))
    if got != want:
      return rt.no('bindings %r != %r' % (got, want))
    if error is not None:
      return True
    has_placeholder = any(KINDS[k][2] for k in ks if KINDS[k][1] is None)
  # ---- known bindings are really applied (value for all ints) -----------------------------
  if 0 in ks:
    world.dflt()
    if not rt.same('known binding applied', world.LOG[-1][1][0], v0):
      return False
  with rt.native():
    # ---- placeholders raise when used and at finalize ----------------------------------------
    if 3 in ks:
      try:
        world.cons()
        return rt.no('consumer of a placeholder must raise')
      except ValueError as e:
        if 'No configurable matching' not in str(e):
          return rt.no('message')
      # ...but not when the caller supplies the parameter
      if 4 not in ks:
        try:
          world.cons(p=1)
        except ValueError:
          return rt.no('caller-supplied parameter still evaluates the placeholder')
    try:
      gin.finalize()
      if has_placeholder:
        return rt.no('finalize must reject placeholders')
    except ValueError as e:
      if not has_placeholder or 'No configurable matching' not in str(e):
        return rt.no('finalize raised %r' % (e,))
    return True


HARNESSES = {
    'c15_skip': dict(
        fn='c15_skip',
        anchors=['gin.config:_should_skip', 'gin.config:configurable_reference', 'gin.config:parse_config',
                 'gin.config:find_unknown_references_hook'],
        smoke=[dict(n=4, k0=0, k1=2, k2=3, k3=6, skip=1, v0=5),
               dict(n=3, k0=7, k1=8, k2=4, k3=0, skip=3, v0=5),
               dict(n=2, k0=5, k1=1, k2=0, k3=0, skip=5, v0=5)],
        tiers={'quick': dict(split=dict(k0=list(range(NK)), skip=list(range(NS))), fixed=dict(n=3, k3=0),
                             budget_s=100),
               'thorough': dict(split=dict(k0=list(range(NK)), k1=list(range(NK)), skip=list(range(NS))),
                                fixed=dict(n=4), budget_s=600)},
        bounds='3 (quick) / 4 (thorough) statements from 11 kinds (known binding, unknown binding, unknown block, known '
               'binding with a top-level / nested+scoped unknown reference, macro holding an unknown reference, import '
               'of a missing module, known block, unknown binding holding an unknown reference, known and unknown references under a two-level scope) x 8 forms of skip_unknown '
               '(False, True, list/tuple/set covering everything, list and set covering part, empty list); static '
               'registration'),
}
OUTSIDE = 'more than 4 statements; skip lists other than the 8/4 forms listed'
ASSUMPTIONS = ['stored placeholders are observed through the private gin.config._CONFIG and compared by (selector, evaluate)',
               'interpretation: an unknown reference not covered by the list is an error wherever it occurs, also inside a statement that is itself skipped']


# ---- dynamic registration: 'known' = resolvable through the file's own imports ----------------
import os as _os
import sys as _sys
_sys.path.insert(0, _os.path.join(_os.path.dirname(_os.path.dirname(_os.path.dirname(
    _os.path.abspath(__file__)))), 'fixtures'))
import vfx.alpha.mod as _A

DR = 'from __gin__ import dynamic_registration\nimport vfx.alpha.mod as am\n'
DKINDS = [
    # (line, unknown name targeted / referenced or None, entries applied)
    ('am.fn.x = %vwc.V0', None, None, ('fn', 'x')),
    ('am.nosuch.x = 1', 'am.nosuch', None, None),
    ('zz.fn.x = 1', 'zz.fn', None, None),
    ('am.consumer.p = @am.Cls()', None, None, ('consumer', 'p')),
    ('am.consumer.q = @am.nosuch()', None, 'am.nosuch', ('consumer', 'q')),
    ('am.Cls.x = 5', None, None, ('Cls', 'x')),
    # `qm` is an alias only an EARLIER parse imported (its members are registered as vfx.alpha.qm.*):
    # in this file it is provided by no import, hence unknown
    ('qm.fn.y = 1', 'qm.fn', None, None),
    ('am.consumer.q = @qm.Cls()', None, 'qm.Cls', ('consumer', 'q')),
]
DSKIPS = [False, True, ['am.nosuch', 'zz.fn', 'qm.fn', 'qm.Cls'], ['zz.fn']]


def c15_dynamic(n: int, k0: int, k1: int, k2: int, skip: int, pre: bool, v0: int) -> bool:
  """
  pre: 1 <= n <= 3 and 0 <= k0 < 8 and 0 <= k1 < 8 and 0 <= k2 < 8 and 0 <= skip < 4
  """
  from vf.harness import c19
  world.fresh()
  c19.cleanup_vfx()
  ks = [rt.pick(k, 8) for k in (k0, k1, k2)[:n]]
  skip = rt.pick(skip, 4)
  pre = rt.flag(pre)
  sk = DSKIPS[skip]
  gin.constant('vwc.V0', v0)
  rt.sig(('dynamic', tuple(ks), skip, pre), nontrivial=True)
  try:
    with rt.native():
      if pre:
        # an earlier, unrelated parse already registered everything: must make no difference
        gin.parse_config(DR.replace(' as am', ' as qm') + 'qm.fn.y = 1\nqm.Cls.x = 0\nqm.consumer.q = 0\n')
        gc._CONFIG.clear(); gc._CONFIG_PROVENANCE.clear()
      want, error = [], None
      for k in ks:
        line, target, ref, entry = DKINDS[k]
        if ref is not None and not covered(ref, sk):
          error = (NameError, AttributeError, ValueError)
          break
        if target is not None:
          if covered(target, sk):
            continue
          error = (NameError, AttributeError, ValueError)
          break
        want.append(entry)
      text = DR + '\n'.join(DKINDS[k][0] for k in ks) + '\n'
      exc = None
      try:
        gin.parse_config(text, skip_unknown=sk)
      except Exception as e:
        exc = e
      if error is not None:
        if not isinstance(exc, error):
          return rt.no('uncovered unknown must raise, got %r' % (exc,))
      elif exc is not None:
        return rt.no('unexpected %r' % (exc,))
      got = sorted((sel.split('.')[-1], p) for (sc, sel), d in gc._CONFIG.items() for p in d)
      if got != sorted(set(want)):
        return rt.no('bindings applied %r, expected %r (skip_unknown=%r, pre-registered=%r)' %
                     (got, sorted(set(want)), sk, pre))
    if error is None and 0 in ks:
      del _A.CALLS[:]
      gin.get_configurable(_A.fn)()
      return rt.same('importable configurable configured', _A.CALLS[-1][1], v0)
    return True
  finally:
    c19.cleanup_vfx()


HARNESSES['c15_dynamic'] = dict(
    fn='c15_dynamic',
    anchors=['gin.config:_should_skip', 'gin.config:_resolve_selector'],
    smoke=[dict(n=3, k0=0, k1=1, k2=3, skip=1, pre=False, v0=4),
           dict(n=2, k0=5, k1=4, k2=0, skip=2, pre=True, v0=4)],
    tiers={'quick': dict(split=dict(k0=list(range(8)), skip=[0, 1, 2, 3]), fixed=dict(n=3), budget_s=100),
           'thorough': dict(split=dict(k0=list(range(8)), skip=[0, 1, 2, 3], pre=[False, True]),
                            fixed=dict(n=3), budget_s=300)},
    bounds='dynamic registration against the fixture package: 3 statements from 8 kinds (importable and not yet '
           'registered function / class / reference, missing attribute, name not imported, reference to a missing '
           'attribute, a binding / reference through an alias that only an earlier parse imported) x 4 forms of skip_unknown x registry pre-populated by an earlier parse or not')


# ---- a name that becomes known half-way through one parse (its import comes after its first mention) ----
def _forget_late():
  import sys
  for sel in list(gc._REGISTRY._selector_map):
    if sel.startswith('vwlate.'):
      obj = gc._REGISTRY[sel].wrapped
      gc._REGISTRY.pop(sel)
      gc._INVERSE_REGISTRY.pop(obj, None)
  sys.modules.pop('vfx.late', None)


LATE_SKIPS = [False, True, ['vwlate.late_fn'], ('vwlate.late_fn',), {'vwlate.late_fn'}, ['other']]


def c15_late(skip: int, before: int, after: int, dyn: bool, v0: int) -> bool:
  """
  pre: 0 <= skip < 6 and 0 <= before < 3 and 0 <= after < 3
  """
  world.fresh()
  skip = rt.pick(skip, 6)
  before = rt.pick(before, 3)     # mention before the import: none / binding / reference
  after = rt.pick(after, 3)       # mention after the import: none / binding / reference
  dyn = rt.flag(dyn)
  if dyn:
    rt.discard()                  # (the dynamic variant is c15_dynamic's business)
  sk = LATE_SKIPS[skip]
  rt.sig(('late', skip, before, after), nontrivial=before != 0 and after != 0)
  gin.constant('vwc.V0', v0)
  with rt.native():
    _forget_late()
    try:
      lines = []
      if before == 1:
        lines.append('vwlate.late_fn.x = 1')
      elif before == 2:
        lines.append('vw.cons.p = @vwlate.late_fn()')
      lines.append('import vfx.late')
      if after == 1:
        lines.append('vwlate.late_fn.x = %vwc.V0')
      elif after == 2:
        lines.append('vw.cons.q = @vwlate.late_fn()')
      exc = None
      try:
        gin.parse_config('\n'.join(lines) + '\n', skip_unknown=sk)
      except Exception as e:
        exc = e
      cov = covered('vwlate.late_fn', sk)
      if before and not cov:
        # the first mention is an uncovered unknown: error, nothing after it applied
        if not isinstance(exc, ValueError):
          return rt.no('uncovered unknown before its import must raise, got %r' % (exc,))
        return not gc._CONFIG or rt.no('statements after the error were applied')
      if exc is not None:
        return rt.no('unexpected %r' % (exc,))
      got = {key: {p: canon(v) for p, v in d.items()} for key, d in gc._CONFIG.items()}
      want = {}
      if before == 2:
        want.setdefault(('', 'vw.cons'), {})['p'] = U('vwlate.late_fn', True)
      if after == 1:
        want[('', 'vwlate.late_fn')] = {'x': ('REF', 'vwc.V0/gin.constant', True)}
      elif after == 2:
        want.setdefault(('', 'vw.cons'), {})['q'] = ('REF', 'vwlate.late_fn', True)
      if got != want:
        return rt.no('bindings %r, expected %r (skip_unknown=%r)' % (got, want, sk))
      return True
    finally:
      _forget_late()


HARNESSES['c15_late'] = dict(
    fn='c15_late',
    anchors=['gin.config:_should_skip', 'gin.config:process_import'],
    smoke=[dict(skip=1, before=1, after=1, dyn=False, v0=4), dict(skip=2, before=2, after=2, dyn=False, v0=4)],
    tiers={'quick': dict(split=dict(skip=list(range(6))), fixed=dict(dyn=False), budget_s=60),
           'thorough': dict(split=dict(skip=list(range(6)), before=[0, 1, 2]), fixed=dict(dyn=False), budget_s=60)},
    bounds='one parse in which a configurable is mentioned (binding / reference) BEFORE the import statement that '
           'registers it and again after it, x 6 forms of skip_unknown')
