"""C15 - skip_unknown drops exactly the statements that target unknown names."""
import gin
from gin import config as gc
from vf import rt
from vf import world

# kind -> (text lines, unknown configurable targeted (or None), unknown references inside,
#          entries applied when not skipped: [(scope, selector, param, canonical value)])
U = lambda sel, ev: ('UNK', sel, ev)
KINDS = [
    (['vw.dflt.a = %vwc.V0'], None, [], [('', 'vw.dflt', 'a', ('REF', 'vwc.V0/gin.constant', True))]),
    (['vw.unk1.x = 1'], 'vw.unk1', [], []),
    (['vw.unk2:', '  x = 1', '  y = [2]'], 'vw.unk2', [], []),
    (['vw.cons.p = @unkref()'], None, ['unkref'], [('', 'vw.cons', 'p', U('unkref', True))]),
    (["vw.cons.q = [1, {'k': @sc/unkref2}]"], None, ['unkref2'],
     [('', 'vw.cons', 'q', [1, {'k': U('unkref2', False)}])]),
    (['mac = @unkref()'], None, ['unkref'], [('mac', 'gin.macro', 'value', U('unkref', True))]),
    (['import no_such_module_xyz'], 'IMPORT', [], []),
    (['vw.src:', '  v = 3'], None, [], [('', 'vw.src', 'v', 3)]),
    (['vw.unk1.y = @unkref()'], 'vw.unk1', ['unkref'], []),
    # references with a scope two levels deep: known ones stay references, unknown ones placeholders
    (['vw.lit.p = @a/b/vw.src()'], None, [], [('', 'vw.lit', 'p', ('REF', 'a/b/vw.src', True))]),
    (['vw.lit.q = (@a/b/unkref,)'], None, ['unkref'], [('', 'vw.lit', 'q', (U('unkref', False),))]),
]
NK = len(KINDS)
SKIPS = [False, True, ['vw.unk1', 'vw.unk2', 'unkref', 'unkref2'], ['vw.unk1'],
         ('vw.unk1', 'vw.unk2', 'unkref', 'unkref2'), {'vw.unk2', 'unkref'}, [],
         {'vw.unk1', 'vw.unk2', 'unkref', 'unkref2'}]
NS = len(SKIPS)


def canon(v):
  if isinstance(v, gc._UnknownConfigurableReference):
    return ('UNK', v.selector, v.evaluate)
  if isinstance(v, gc.ConfigurableReference):
    return ('REF', v.scoped_selector, v.evaluate)
  if isinstance(v, list):
    return [canon(x) for x in v]
  if isinstance(v, tuple):
    return tuple(canon(x) for x in v)
  if isinstance(v, dict):
    return {k: canon(x) for k, x in v.items()}
  return v


def covered(name, skip):
  if isinstance(skip, bool):
    return skip
  return name in skip


def c15_skip(n: int, k0: int, k1: int, k2: int, k3: int, skip: int, v0: int) -> bool:
  """
  pre: 1 <= n <= 4 and 0 <= k0 < 11 and 0 <= k1 < 11 and 0 <= k2 < 11 and 0 <= k3 < 11 and 0 <= skip < 8
  """
  world.fresh()
  ks = [rt.pick(k, NK) for k in (k0, k1, k2, k3)[:n]]
  skip = rt.pick(skip, NS)
  sk = SKIPS[skip]
  gin.constant('vwc.V0', v0)
  # ---- reference: delete the skipped statements, stop at the first uncovered unknown ----
  want = {}
  error = None
  for k in ks:
    lines, target, refs, entries = KINDS[k]
    bad_ref = [r for r in refs if not covered(r, sk)]
    if bad_ref:
      error = ValueError           # an unknown reference not covered is an error anywhere
      break
    if target == 'IMPORT':
      if not sk:
        error = ImportError
        break
      continue
    if target is not None:
      if covered(target, sk):
        continue                   # the whole binding / block is dropped
      error = ValueError
      break
    for scope, sel, param, val in entries:
      want.setdefault((scope, sel), {})[param] = val
  rt.sig(('skip', tuple(ks), skip), nontrivial=any(KINDS[k][1] or KINDS[k][2] for k in ks))
  with rt.native():
    text = '\n'.join('\n'.join(KINDS[k][0]) for k in ks) + '\n'
    exc = None
    try:
      gin.parse_config(text, skip_unknown=sk if not isinstance(sk, (list, tuple, set)) else type(sk)(sk))
    except Exception as e:
      exc = e
    got = {key: {p: canon(v) for p, v in d.items()} for key, d in gc._CONFIG.items()}
    if error is not None:
      if not isinstance(exc, error):
        return rt.no('uncovered unknown must raise %s, got %r' % (error.__name__, exc))
    elif exc is not None:
      return rt.no('unexpected %r' % (exc,))
    if got != want:
      return rt.no('bindings %r != %r' % (got, want))
    if error is not None:
      return True
    has_placeholder = any(KINDS[k][2] for k in ks if KINDS[k][1] is None)
  # ---- known bindings are really applied (value for all ints) -----------------------------
  if 0 in ks:
    world.dflt()
    if not rt.same('known binding applied', world.LOG[-1][1][0], v0):
      return False
  with rt.native():
    # ---- placeholders raise when used and at finalize ----------------------------------------
    if 3 in ks:
      try:
        world.cons()
        return rt.no('consumer of a placeholder must raise')
      except ValueError as e:
        if 'No configurable matching' not in str(e):
          return rt.no('message')
      # ...but not when the caller supplies the parameter
      if 4 not in ks:
        try:
          world.cons(p=1)
        except ValueError:
          return rt.no('caller-supplied parameter still evaluates the placeholder')
    try:
      gin.finalize()
      if has_placeholder:
        return rt.no('finalize must reject placeholders')
    except ValueError as e:
      if not has_placeholder or 'No configurable matching' not in str(e):
        return rt.no('finalize raised %r' % (e,))
    return True


HARNESSES = {
    'c15_skip': dict(
        fn='c15_skip',
        anchors=['gin.config:_should_skip', 'gin.config:configurable_reference', 'gin.config:parse_config',
                 'gin.config:find_unknown_references_hook'],
        smoke=[dict(n=4, k0=0, k1=2, k2=3, k3=6, skip=1, v0=5),
               dict(n=3, k0=7, k1=8, k2=4, k3=0, skip=3, v0=5),
               dict(n=2, k0=5, k1=1, k2=0, k3=0, skip=5, v0=5)],
        tiers={'quick': dict(split=dict(k0=list(range(NK)), skip=list(range(NS))), fixed=dict(n=3, k3=0),
                             budget_s=100),
               'thorough': dict(split=dict(k0=list(range(NK)), k1=list(range(NK)), skip=list(range(NS))),
                                fixed=dict(n=4), budget_s=600)},
        bounds='3 (quick) / 4 (thorough) statements from 11 kinds (known binding, unknown binding, unknown block, known '
               'binding with a top-level / nested+scoped unknown reference, macro holding an unknown reference, import '
               'of a missing module, known block, unknown binding holding an unknown reference, known and unknown references under a two-level scope) x 8 forms of skip_unknown '
               '(False, True, list/tuple/set covering everything, list and set covering part, empty list); static '
               'registration'),
}
OUTSIDE = ('more than 4 statements (c15_skip) / 3 statements (c15_wide, c15_dynamic*) / 2 statements (c15_files); skip lists other than the 8 / 10 / 4 / 7 forms listed; a list entry spelled differently from the text (partial selector, scoped spelling): the statement does not say whether that counts as listed; invalid forms of skip_unknown (None, int, str: outside the quantifier); gin.config_str() while placeholders are stored; a module whose ImportError carries no name; a name that becomes known after the parse (re-parse, later registration); use of a name before its own import under dynamic registration')
ASSUMPTIONS = ['stored placeholders are observed through the private gin.config._CONFIG and compared by (selector, evaluate)',
               'interpretation: an unknown reference not covered by the list is an error wherever it occurs, also inside a statement that is itself skipped',
               'interpretation: a name that matches two configurables (ambiguous) and a known configurable with a parameter that cannot be bound are not "unknown": the statement stays in the reduced text, so the parse fails under every form of skip_unknown (any exception class accepted)',
               'interpretation: for `import m` where m exists but its own import of a dependency fails, "import of a missing module" can be read both ways: under a truthy skip_unknown both "skipped" and "ImportError" are accepted (never another exception); under a falsy one ImportError is demanded',
               'interpretation: get_bindings(resolve_references=True) counts as use (must raise, or hand the placeholder back intact); query_parameter and get_bindings(resolve_references=False) must hand the placeholder back (raising the same error is accepted); a scoped binding is used only by calls under its scope',
               'files are served from the in-memory reader of vf.world (absolute paths /c15/*.gin)']



# ==== wide vocabulary: the same reference model over more kinds of statement, more forms of the list, ====
# ==== more ways of USING a stored placeholder and more ways of handing the text to gin ===================
import os as _os
import sys as _sys
_FIX = _os.path.join(_os.path.dirname(_os.path.dirname(_os.path.dirname(_os.path.abspath(__file__)))), 'fixtures')
if _FIX not in _sys.path:
  _sys.path.insert(0, _FIX)

ERR = 'ERR'   # the statement names a KNOWN (or ambiguous) configurable but cannot be applied: an error under
              # every form of skip_unknown (it is not 'unknown', so it is never deleted from the text)
DEP = 'DEP'   # import of a module that exists but itself imports a missing one
WKINDS = [row + ({},) for row in KINDS] + [
    # 11-12: placeholders as dict KEYS (evaluated at top level of the dict / unevaluated, scoped, nested)
    (['vw.cons.q = {@unkref(): 1}'], None, ['unkref'], [('', 'vw.cons', 'q', {U('unkref', True): 1})], {}),
    (['vw.lit.p = [{@sc/unkref2: [2]}]'], None, ['unkref2'],
     [('', 'vw.lit', 'p', [{U('unkref2', False): [2]}])], {}),
    # 13: macro -> placeholder, dereferenced by a consumer
    (['mac2 = @unkref()', 'vw.cons.p = %mac2'], None, ['unkref'],
     [('mac2', 'gin.macro', 'value', U('unkref', True)), ('', 'vw.cons', 'p', ('REF', 'mac2/gin.macro', True))], {}),
    # 14: top-level UNevaluated placeholder
    (['vw.cons.p = @unkref'], None, ['unkref'], [('', 'vw.cons', 'p', U('unkref', False))], {}),
    # 15: placeholder in a scoped binding
    (['sc/vw.cons.p = @unkref()'], None, ['unkref'], [('sc', 'vw.cons', 'p', U('unkref', True))], {}),
    # 16-18: scoped unknown targets (binding, block) and a scoped macro holding a placeholder
    (['a/b/vw.unk1.x = 1'], 'vw.unk1', [], [], {}),
    (['a/vw.unk2:', '  x = 1', "  y = 'two'"], 'vw.unk2', [], [], {}),
    (['sc/mac = @unkref()'], None, ['unkref'], [('sc/mac', 'gin.macro', 'value', U('unkref', True))], {}),
    # 19-21: blocks that hold references (known block + unknown refs; unknown block + unknown / known refs)
    (['vw.cons:', '  p = @unkref()', '  q = [@unkref2]'], None, ['unkref', 'unkref2'],
     [('', 'vw.cons', 'p', U('unkref', True)), ('', 'vw.cons', 'q', [U('unkref2', False)])], {}),
    (['vw.unk2:', '  x = @unkref()'], 'vw.unk2', ['unkref'], [], {}),
    (['vw.unk2:', '  x = @vw.src()', '  y = %vwc.V0'], 'vw.unk2', [], [], {}),
    # 22-25: near-miss names (known last component under a wrong prefix, unknown method of a known class)
    (['zz.dflt.a = 1'], 'zz.dflt', [], [], {}),
    (['vw.zz.dflt.a = 1'], 'vw.zz.dflt', [], [], {}),
    (['vw.Kmeth.nosuch.a = 1'], 'vw.Kmeth.nosuch', [], [], {}),
    (['vw.lit.q = @zz.dflt()'], None, ['zz.dflt'], [('', 'vw.lit', 'q', U('zz.dflt', True))], {}),
    # 26-27: an AMBIGUOUS name (two configurables match) is not unknown: never skipped, always an error
    (['fam.p = 1'], None, [], [], {ERR: 1}),
    (['vw.lit.p = @fam()'], None, [], [], {ERR: 1}),
    # 28-30: known target, parameter that cannot be bound: an error, never a skip
    (['vw.dflt.nosuch = 1'], None, [], [], {ERR: 1}),
    (['vw.deny_b.b = 1'], None, [], [], {ERR: 1}),
    (['vw.allow_a.b = 1'], None, [], [], {ERR: 1}),
    # 31: (control for 28-30) the bindable parameter of the allow-listed probe
    (['vw.allow_a.a = 2'], None, [], [('', 'vw.allow_a', 'a', 2)], {}),
    # 32: import of an existing module whose own import of a dependency fails (ImportError.name = dependency)
    (['import c15fx_dep'], 'IMPORT', [], [], {DEP: 1}),
]
NW = len(WKINDS)
NEWK = list(range(NK, NW))
ALLN = ['vw.unk1', 'vw.unk2', 'unkref', 'unkref2', 'zz.dflt', 'vw.zz.dflt', 'vw.Kmeth.nosuch']
WSKIPS = [False, True, list(ALLN), ['vw.unk1'], tuple(ALLN), {'vw.unk2', 'unkref'}, [], set(ALLN),
          # KNOWN names in the list (must change nothing for them) next to two unknown ones
          ['vw.dflt', 'vw.cons', 'vw.lit', 'vw.src', 'fam', 'vw.deny_b', 'vw.allow_a', 'vw.unk1', 'unkref'],
          # references only
          ('unkref', 'unkref2', 'zz.dflt')]
NWS = len(WSKIPS)
assert (NW, NWS) == (33, 10)     # the literal bounds in the `pre:` line of c15_wide


def canonk(v):
  """canon() that also canonicalises dict keys (a placeholder can be a key)."""
  if isinstance(v, (gc._UnknownConfigurableReference, gc.ConfigurableReference)):
    return canon(v)
  if isinstance(v, list):
    return [canonk(x) for x in v]
  if isinstance(v, tuple):
    return tuple(canonk(x) for x in v)
  if isinstance(v, dict):
    return {canonk(k): canonk(x) for k, x in v.items()}
  return v


def _is_unk(v):
  return isinstance(v, tuple) and len(v) == 3 and v[0] == 'UNK'


def _stored(v):
  """Does the canonical value hold a placeholder (anywhere, keys included)?"""
  if _is_unk(v):
    return True
  if isinstance(v, (list, tuple)):
    return any(_stored(x) for x in v)
  if isinstance(v, dict):
    return any(_stored(x) for x in v) or any(_stored(x) for x in v.values())
  return False


def _reach(v, want):
  """Does USING the canonical value reach a placeholder (directly or through a macro)?"""
  if _is_unk(v):
    return True
  if isinstance(v, tuple) and len(v) == 3 and v[0] == 'REF':
    if v[1].endswith('/gin.macro'):
      return _reach(want.get((v[1][:-len('/gin.macro')], 'gin.macro'), {}).get('value'), want)
    return False
  if isinstance(v, (list, tuple)):
    return any(_reach(x, want) for x in v)
  if isinstance(v, dict):
    return any(_reach(x, want) for x in v) or any(_reach(x, want) for x in v.values())
  return False


def _reference(rows, sk, dep_skipped):
  """The statement's model: delete what is skipped, stop at the first error. -> (bindings, error class)"""
  want = {}
  for lines, target, refs, entries, fl in rows:
    if fl.get(ERR):
      return want, Exception       # not unknown, not appliable: some error, whatever the form
    if [r for r in refs if not covered(r, sk)]:
      return want, ValueError      # an unknown reference not covered is an error anywhere
    if target == 'IMPORT':
      if not sk or (fl.get(DEP) and not dep_skipped):
        return want, ImportError
      continue
    if target is not None:
      if covered(target, sk):
        continue                   # the whole binding / block is dropped
      return want, ValueError
    for scope, sel, param, val in entries:
      want.setdefault((scope, sel), {})[param] = val
  return want, None


def _ncm(fn):
  """-> ('raised', None) for the 'no configurable matching' ValueError, ('ok', result), ('other', exception)"""
  try:
    r = fn()
  except ValueError as e:
    if 'No configurable matching' in str(e):
      return 'raised', None
    return 'other', e
  except Exception as e:
    return 'other', e
  return 'ok', r


def _scoped_cons():
  with gin.config_scope('sc'):
    return world.cons()


def _use_checks(want):
  """Every way of USING a stored placeholder raises the error; everything that does not use one works."""
  for sel, fn in (('vw.cons', world.cons), ('vw.lit', world.lit)):
    top = want.get(('', sel), {})
    hit = sorted(p for p in top if _reach(top[p], want))
    st, r = _ncm(fn)
    if st == 'other':
      return rt.no('%s(): unexpected %r' % (sel, r))
    if hit and st != 'raised':
      return rt.no('consumer of a placeholder must raise (%s, parameters %r)' % (sel, hit))
    if not hit and st == 'raised':
      return rt.no('%s() raised though none of its values holds a placeholder' % sel)
    if len(hit) == 1:
      # ...but not when the caller supplies the parameter
      st, r = _ncm(lambda: fn(**{hit[0]: 1}))
      if st != 'ok':
        return rt.no('caller-supplied parameter still evaluates the placeholder (%s.%s): %r' % (sel, hit[0], r))
    # introspection never drops a placeholder and never turns it into something else: it is handed back as it
    # is, or (where references are resolved) the error is raised
    for p in sorted(top):
      if _is_unk(top[p]):
        st, r = _ncm(lambda: gin.query_parameter(sel + '.' + p))
        if st == 'other' or (st == 'ok' and canonk(r) != top[p]):
          return rt.no('query_parameter(%s.%s) -> %s %r' % (sel, p, st, r))
        st, r = _ncm(lambda: gin.get_bindings(sel, resolve_references=False))
        if st == 'other' or (st == 'ok' and (p not in r or canonk(r[p]) != top[p])):
          return rt.no('get_bindings(%s, resolve_references=False) -> %s %r' % (sel, st, r))
    if top:
      st, r = _ncm(lambda: gin.get_bindings(sel))
      if st == 'other':
        return rt.no('get_bindings(%s) -> %r' % (sel, r))
      if st == 'raised' and not hit:
        return rt.no('get_bindings(%s) raised though no value holds a placeholder' % sel)
      if st == 'ok':
        if set(r) != set(top):
          return rt.no('get_bindings(%s) parameters %r != %r' % (sel, sorted(r), sorted(top)))
        for p in hit:
          if not _stored(canonk(r[p])):
            return rt.no('get_bindings(%s): the placeholder in %s was dropped or resolved: %r' % (sel, p, r[p]))
  # a placeholder in a SCOPED binding: used inside the scope, not outside (outside was checked above)
  sc = want.get(('sc', 'vw.cons'))
  if sc:
    merged = dict(want.get(('', 'vw.cons'), {}))
    merged.update(sc)
    hit = [p for p in merged if _reach(merged[p], want)]
    st, r = _ncm(_scoped_cons)
    if st == 'other' or (hit and st != 'raised') or (not hit and st == 'raised'):
      return rt.no('vw.cons() under scope sc: %s %r, placeholders in %r' % (st, r, hit))
  return True


MAIN, CHILD = '/c15/main.gin', '/c15/child.gin'


def c15_wide(n: int, k0: int, k1: int, k2: int, skip: int, via: int, v0: int) -> bool:
  """
  pre: 1 <= n <= 3 and 0 <= k0 < 33 and 0 <= k1 < 33 and 0 <= k2 < 33 and 0 <= skip < 10 and 0 <= via < 5
  """
  world.fresh()
  ks = [rt.pick(k, NW) for k in (k0, k1, k2)[:n]]
  skip = rt.pick(skip, NWS)
  via = rt.pick(via, 5)
  sk = WSKIPS[skip]
  gin.constant('vwc.V0', v0)
  rows = [WKINDS[k] for k in ks]
  rt.sig(('wide', tuple(ks), skip, via), nontrivial=any(r[1] or r[2] or r[4] for r in rows))
  with rt.native():
    # acceptable outcomes: the model's; for a module that exists but whose own import fails the statement
    # ('import of a missing module') can be read both ways, so 'skipped' and 'ImportError' are both accepted
    outs = [_reference(rows, sk, True)]
    if sk and any(r[4].get(DEP) for r in rows):
      outs.append(_reference(rows, sk, False))
    skarg = sk if isinstance(sk, bool) else type(sk)(sk)
    text = lambda rs: ''.join('\n'.join(r[0]) + '\n' for r in rs)
    exc = None
    try:
      if via == 0:
        gin.parse_config(text(rows), skip_unknown=skarg)
      elif via == 1:       # the same text as a file
        world.use_mem_fs({MAIN: text(rows)})
        gin.parse_config_file(MAIN, skip_unknown=skarg)
      elif via == 2:       # ... as an included file (skip_unknown travels with the include)
        world.use_mem_fs({CHILD: text(rows)})
        gin.parse_config("include '%s'\n" % CHILD, skip_unknown=skarg)
      else:                # ... as a file followed by a list of binding strings; 4: with the automatic finalize
        world.use_mem_fs({MAIN: text(rows[:-1])})
        gin.parse_config_files_and_bindings([MAIN], list(rows[-1][0]), finalize_config=(via == 4),
                                            skip_unknown=skarg)
    except Exception as e:
      exc = e
    got = {key: {p: canonk(v) for p, v in d.items()} for key, d in gc._CONFIG.items()}
    verdict = None
    for want, error in outs:
      held = any(_stored(v) for d in want.values() for v in d.values())
      auto = via == 4 and error is None and held      # the automatic finalize must reject the placeholders
      if error is not None:
        ok = isinstance(exc, error)
      elif auto:
        ok = isinstance(exc, ValueError) and 'No configurable matching' in str(exc)
      else:
        ok = exc is None
      if ok and got == want:
        verdict = (want, error, held, auto)
        break
    if verdict is None:
      want, error = outs[0]
      if got != want:
        return rt.no('bindings %r != %r (exception %r)' % (got, want, exc))
      return rt.no('expected %s, got %r' % (error.__name__ if error else 'no error / the finalize error', exc))
    want, error, held, auto = verdict
    if error is not None:
      return True
  # ---- known bindings are really applied (value for all ints) -----------------------------
  if 0 in ks:
    world.dflt()
    if not rt.same('known binding applied', world.LOG[-1][1][0], v0):
      return False
  with rt.native():
    if ('', 'vw.allow_a') in want:
      world.allow_a()
      if world.LOG[-1][1][0] != 2:
        return rt.no('known binding (allow-listed parameter) not applied')
    # ---- the imports of missing modules are deleted too: the configuration can be printed, and no import
    #      statement of a module that does not exist is part of it (round e seed C15-e) --------------------
    try:
      printed = gin.config_str()
    except Exception as e:   # noqa
      return rt.no('the configuration left by a skip_unknown parse cannot be printed: %r' % (e,))
    for line in printed.split('\n'):
      if line.startswith(('import ', 'from ')) and ('no_such' in line or 'c15fx_dep' in line):
        return rt.no('the import of a missing module is still part of the configuration: %r' % line)
    # ---- placeholders raise when used ... ----------------------------------------------------
    r = _use_checks(want)
    if r is not True:
      return r
    # ---- ... and at finalize ------------------------------------------------------------------
    if via == 4:
      if not auto and not gin.config_is_locked():
        return rt.no('finalize_config=True did not finalize')
      return True
    try:
      gin.finalize()
      if held:
        return rt.no('finalize must reject placeholders')
    except ValueError as e:
      if not held or 'No configurable matching' not in str(e):
        return rt.no('finalize raised %r' % (e,))
    return True


REPK = [0, 2, 13, 6]      # the statement that goes last / into the bindings list in the file-level partitions
HARNESSES['c15_wide'] = dict(
    fn='c15_wide',
    anchors=['gin.config:_should_skip', 'gin.config:configurable_reference', 'gin.config:parse_config',
             'gin.config:find_unknown_references_hook', 'gin.config:_iterate_flattened_values',
             'gin.config:get_bindings', 'gin.config:query_parameter', 'gin.config:__deepcopy__',
             'gin.config:_print_unknown_import_message', 'gin.selector_map:matching_selectors'],
    smoke=[dict(n=3, k0=11, k1=12, k2=0, skip=1, via=0, v0=5),
           dict(n=3, k0=13, k1=16, k2=17, skip=2, via=0, v0=5),
           dict(n=3, k0=14, k1=15, k2=18, skip=9, via=0, v0=5),
           dict(n=3, k0=19, k1=20, k2=21, skip=7, via=0, v0=5),
           dict(n=3, k0=22, k1=23, k2=24, skip=4, via=0, v0=5),
           dict(n=3, k0=25, k1=31, k2=32, skip=1, via=0, v0=5),
           dict(n=2, k0=0, k1=26, k2=0, skip=1, via=0, v0=5),
           dict(n=2, k0=31, k1=27, k2=0, skip=2, via=0, v0=5),
           dict(n=2, k0=0, k1=28, k2=0, skip=8, via=0, v0=5),
           dict(n=2, k0=1, k1=29, k2=0, skip=8, via=0, v0=5),
           dict(n=2, k0=3, k1=30, k2=0, skip=1, via=0, v0=5)],
    tiers={'quick': dict(split=dict(k0=list(range(NW))), fixed=dict(n=2, k2=0, via=0), budget_s=200),
           'thorough': dict(split=dict(k0=NEWK, k1=[0, 1, 3, 6, 8, 13, 15, 19, 20, 26, 28, 32]),
                            fixed=dict(n=3, via=0), budget_s=600)},
    bounds='2 (quick) / 3 (thorough: first from the 22 new kinds, second from 12 representatives) statements from 33 '
           'kinds = the 11 of c15_skip + placeholders as dict keys (evaluated / unevaluated, scoped, nested), macro '
           'holding a placeholder and dereferenced by a consumer, top-level unevaluated placeholder, placeholder in a '
           'scoped binding, scoped unknown binding / block, scoped macro holding a placeholder, known block holding '
           'unknown references, unknown block holding unknown / known references, near-miss names (known last '
           'component under a wrong prefix, unknown method of a known class, as target and as reference), ambiguous '
           'name as target and as reference, known target with a missing / deny-listed / not allow-listed parameter, '
           'import of an existing module whose own import fails  x  10 forms of skip_unknown (the 8 of c15_skip + a '
           'list naming KNOWN configurables next to unknown ones + a tuple of references only); after a successful '
           'parse: call of both consumers with and without the parameter supplied, call under the binding\'s scope, '
           'query_parameter, get_bindings with and without resolution, finalize')
HARNESSES['c15_files'] = dict(
    fn='c15_wide',
    anchors=['gin.config:parse_config_file', 'gin.config:parse_config_files_and_bindings',
             'gin.config:_should_skip', 'gin.config:finalize'],
    smoke=[dict(n=2, k0=3, k1=1, k2=0, skip=2, via=1, v0=5),
           dict(n=2, k0=6, k1=2, k2=0, skip=4, via=2, v0=5),
           dict(n=2, k0=1, k1=13, k2=0, skip=5, via=3, v0=5),
           dict(n=2, k0=5, k1=0, k2=0, skip=1, via=4, v0=5),
           dict(n=2, k0=16, k1=0, k2=0, skip=7, via=4, v0=5)],
    tiers={'quick': dict(split=dict(via=[1, 2, 3, 4], skip=[1, 2, 4, 5, 8], k1=REPK), fixed=dict(n=2, k2=0),
                         budget_s=100),
           'thorough': dict(split=dict(via=[1, 2, 3, 4], k1=list(range(NW))), fixed=dict(n=2, k2=0),
                            budget_s=300)},
    bounds='the text of c15_wide handed over as a file (parse_config_file), as an included file (include statement: '
           'skip_unknown travels with it), and as a file plus a list of binding strings '
           '(parse_config_files_and_bindings without / with the automatic finalize, which must reject placeholders): '
           '2 statements, first from all 33 kinds, last from 4 (quick) / 33 (thorough), x True, list, tuple, set, '
           'list naming known configurables (quick) / all 10 forms (thorough)')


# ---- dynamic registration: 'known' = resolvable through the file's own imports ----------------
import vfx.alpha.mod as _A

DR = 'from __gin__ import dynamic_registration\nimport vfx.alpha.mod as am\n'
MISSING = 'MISSING'    # the row starts with the import of a missing module
DKINDS = [
    # (text, unknown name targeted or None, unknown name referenced or None,
    #  entries applied [(last component of the configurable, parameter, canonical value)], flags)
    ('am.fn.x = %vwc.V0', None, None, [('fn', 'x', ('REF', 'vwc.V0/gin.constant', True))], {}),
    ('am.nosuch.x = 1', 'am.nosuch', None, [], {}),
    ('zz.fn.x = 1', 'zz.fn', None, [], {}),
    ('am.consumer.p = @am.Cls()', None, None, [('consumer', 'p', ('REF', 'am.Cls', True))], {}),
    ('am.consumer.q = @am.nosuch()', None, 'am.nosuch', [('consumer', 'q', U('am.nosuch', True))], {}),
    ('am.Cls.x = 5', None, None, [('Cls', 'x', 5)], {}),
    # `qm` is an alias only an EARLIER parse imported (its members are registered as vfx.alpha.qm.*):
    # in this file it is provided by no import, hence unknown
    ('qm.fn.y = 1', 'qm.fn', None, [], {}),
    ('am.consumer.q = @qm.Cls()', None, 'qm.Cls', [('consumer', 'q', U('qm.Cls', True))], {}),
    # --- kinds 8.. are only reached by c15_dynamic_wide ---
    # block form on a missing attribute / on an importable class
    ('am.nosuch:\n  x = 1\n  y = [2]', 'am.nosuch', None, [], {}),
    ('am.Cls:\n  x = 6', None, None, [('Cls', 'x', 6)], {}),
    # missing attribute one level further down (a method that a known class does not have)
    ('am.Cls.nometh.m = 1', 'am.Cls.nometh', None, [], {}),
    # known block holding a known unevaluated reference and a nested unevaluated placeholder
    ('am.consumer:\n  p = @am.Cls\n  q = [@am.nosuch]', None, 'am.nosuch',
     [('consumer', 'p', ('REF', 'am.Cls', False)), ('consumer', 'q', [U('am.nosuch', False)])], {}),
    # placeholder as a dict key
    ('am.consumer.q = {@am.nosuch(): 1}', None, 'am.nosuch', [('consumer', 'q', {U('am.nosuch', True): 1})], {}),
    # a missing module under dynamic registration: the alias it would have bound stays unknown
    ('import c15fx_no_such_mod as nm\nnm.fn.x = 1', 'nm.fn', None, [], {MISSING: 1}),
    ('import c15fx_no_such_mod as nm\nam.consumer.p = @nm.Cls()', None, 'nm.Cls',
     [('consumer', 'p', U('nm.Cls', True))], {MISSING: 1}),
]
ND = len(DKINDS)
DALL = ['am.nosuch', 'zz.fn', 'qm.fn', 'qm.Cls', 'am.Cls.nometh', 'nm.fn', 'nm.Cls']
DSKIPS = [False, True, ['am.nosuch', 'zz.fn', 'qm.fn', 'qm.Cls'], ['zz.fn'],
          # forms 4.. are only reached by c15_dynamic_wide
          tuple(DALL), {'am.nosuch', 'nm.fn'}, set(DALL)]
NDS = len(DSKIPS)
assert (ND, NDS) == (15, 7)      # the literal bounds in the `pre:` line of c15_dynamic_wide


def _dyn_body(ks, skip, pre, v0):
  from vf.harness import c19
  sk = DSKIPS[skip]
  gin.constant('vwc.V0', v0)
  rt.sig(('dynamic', tuple(ks), skip, pre), nontrivial=True)
  try:
    with rt.native():
      if pre:
        # an earlier, unrelated parse already registered everything: must make no difference
        gin.parse_config(DR.replace(' as am', ' as qm') + 'qm.fn.y = 1\nqm.Cls.x = 0\nqm.consumer.q = 0\n')
        gc._CONFIG.clear(); gc._CONFIG_PROVENANCE.clear()
      want, error = {}, None
      for k in ks:
        line, target, ref, entries, fl = DKINDS[k]
        if fl.get(MISSING) and not sk:
          error = (ImportError,)
          break
        if ref is not None and not covered(ref, sk):
          error = (NameError, AttributeError, ValueError)
          break
        if target is not None:
          if covered(target, sk):
            continue
          error = (NameError, AttributeError, ValueError)
          break
        for name, param, val in entries:
          want[(name, param)] = val
      text = DR + '\n'.join(DKINDS[k][0] for k in ks) + '\n'
      exc = None
      try:
        gin.parse_config(text, skip_unknown=sk if isinstance(sk, bool) else type(sk)(sk))
      except Exception as e:
        exc = e
      if error is not None:
        if not isinstance(exc, error):
          return rt.no('uncovered unknown must raise, got %r' % (exc,))
      elif exc is not None:
        return rt.no('unexpected %r' % (exc,))
      # bindings applied, with their values: a placeholder is told apart from a reference
      got = {(sel.split('.')[-1], p): canonk(v) for (sc, sel), d in gc._CONFIG.items() for p, v in d.items()}
      if sorted(got) != sorted(want):
        return rt.no('bindings applied %r, expected %r (skip_unknown=%r, pre-registered=%r)' %
                     (sorted(got), sorted(want), sk, pre))
      if got != want:
        return rt.no('values bound %r, expected %r (skip_unknown=%r, pre-registered=%r)' % (got, want, sk, pre))
      if error is None:
        # placeholders raise when used and at finalize; references to importable names work
        cb = {p: v for (name, p), v in want.items() if name == 'consumer'}
        if cb:
          del _A.CALLS[:]
          st, r = _ncm(lambda: gin.get_configurable(_A.consumer)())
          hit = any(_stored(v) for v in cb.values())
          if st == 'other' or (hit and st != 'raised') or (not hit and st != 'ok'):
            return rt.no('consumer(): %s %r with bindings %r' % (st, r, cb))
          if st == 'ok' and cb.get('p') == ('REF', 'am.Cls', True) and not isinstance(r[0], _A.Cls):
            return rt.no('evaluated reference to an importable class gave %r' % (r,))
        held = any(_stored(v) for v in want.values())
        st, r = _ncm(gin.finalize)
        if st == 'other' or (held and st != 'raised') or (not held and st != 'ok'):
          return rt.no('finalize: %s %r, placeholders stored: %r' % (st, r, held))
    if error is None and 0 in ks:
      del _A.CALLS[:]
      gin.get_configurable(_A.fn)()
      return rt.same('importable configurable configured', _A.CALLS[-1][1], v0)
    return True
  finally:
    c19.cleanup_vfx()


def c15_dynamic(n: int, k0: int, k1: int, k2: int, skip: int, pre: bool, v0: int) -> bool:
  """
  pre: 1 <= n <= 3 and 0 <= k0 < 8 and 0 <= k1 < 8 and 0 <= k2 < 8 and 0 <= skip < 4
  """
  from vf.harness import c19
  world.fresh()
  c19.cleanup_vfx()
  ks = [rt.pick(k, 8) for k in (k0, k1, k2)[:n]]
  skip = rt.pick(skip, 4)
  pre = rt.flag(pre)
  return _dyn_body(ks, skip, pre, v0)


def c15_dynamic_wide(n: int, k0: int, k1: int, k2: int, skip: int, pre: bool, v0: int) -> bool:
  """
  pre: 1 <= n <= 3 and 0 <= k0 < 15 and 0 <= k1 < 15 and 0 <= k2 < 15 and 0 <= skip < 7
  """
  from vf.harness import c19
  world.fresh()
  c19.cleanup_vfx()
  ks = [rt.pick(k, ND) for k in (k0, k1, k2)[:n]]
  skip = rt.pick(skip, NDS)
  pre = rt.flag(pre)
  return _dyn_body(ks, skip, pre, v0)


HARNESSES['c15_dynamic'] = dict(
    fn='c15_dynamic',
    anchors=['gin.config:_should_skip', 'gin.config:_resolve_selector'],
    smoke=[dict(n=3, k0=0, k1=1, k2=3, skip=1, pre=False, v0=4),
           dict(n=2, k0=5, k1=4, k2=0, skip=2, pre=True, v0=4)],
    tiers={'quick': dict(split=dict(k0=list(range(8)), skip=[0, 1, 2, 3]), fixed=dict(n=3), budget_s=100),
           'thorough': dict(split=dict(k0=list(range(8)), skip=[0, 1, 2, 3], pre=[False, True]),
                            fixed=dict(n=3), budget_s=300)},
    bounds='dynamic registration against the fixture package: 3 statements from 8 kinds (importable and not yet '
           'registered function / class / reference, missing attribute, name not imported, reference to a missing '
           'attribute, a binding / reference through an alias that only an earlier parse imported) x 4 forms of skip_unknown x registry pre-populated by an earlier parse or not; '
           'stored values compared (placeholder vs reference), the consumer is called and finalize() is run')
HARNESSES['c15_dynamic_wide'] = dict(
    fn='c15_dynamic_wide',
    anchors=['gin.config:_should_skip', 'gin.config:_resolve_selector', 'gin.config:find_unknown_references_hook',
             'gin.config:_print_unknown_import_message'],
    smoke=[dict(n=3, k0=8, k1=9, k2=10, skip=4, pre=False, v0=4),
           dict(n=3, k0=11, k1=13, k2=0, skip=6, pre=True, v0=4),
           dict(n=3, k0=3, k1=12, k2=14, skip=1, pre=False, v0=4)],
    tiers={'quick': dict(split=dict(k0=list(range(ND))), fixed=dict(n=2, k2=0), budget_s=200),
           'thorough': dict(split=dict(k0=list(range(ND)), k1=list(range(ND))), fixed=dict(n=3), budget_s=600)},
    bounds='dynamic registration: 2 (quick) / 3 (thorough) statements from 15 kinds = the 8 of c15_dynamic + block on a '
           'missing attribute, block on an importable class, missing method of a known class, known block holding a '
           'known unevaluated reference and a nested placeholder, placeholder as a dict key, import of a missing '
           'module followed by a binding / a reference through the alias it would have bound  x  7 forms of '
           'skip_unknown (the 4 of c15_dynamic + tuple and set covering everything, set covering part) x registry '
           'pre-populated or not; values compared, consumer called, finalize() run')


# ---- a name that becomes known half-way through one parse (its import comes after its first mention) ----
def _forget_late():
  import sys
  for sel in list(gc._REGISTRY._selector_map):
    if sel.startswith('vwlate.'):
      obj = gc._REGISTRY[sel].wrapped
      gc._REGISTRY.pop(sel)
      gc._INVERSE_REGISTRY.pop(obj, None)
  sys.modules.pop('vfx.late', None)


LATE_SKIPS = [False, True, ['vwlate.late_fn'], ('vwlate.late_fn',), {'vwlate.late_fn'}, ['other']]


def c15_late(skip: int, before: int, after: int, dyn: bool, v0: int) -> bool:
  """
  pre: 0 <= skip < 6 and 0 <= before < 3 and 0 <= after < 3
  """
  world.fresh()
  skip = rt.pick(skip, 6)
  before = rt.pick(before, 3)     # mention before the import: none / binding / reference
  after = rt.pick(after, 3)       # mention after the import: none / binding / reference
  dyn = rt.flag(dyn)
  if dyn:
    rt.discard()                  # (the dynamic variant is c15_dynamic's business)
  sk = LATE_SKIPS[skip]
  rt.sig(('late', skip, before, after), nontrivial=before != 0 and after != 0)
  gin.constant('vwc.V0', v0)
  with rt.native():
    _forget_late()
    try:
      lines = []
      if before == 1:
        lines.append('vwlate.late_fn.x = 1')
      elif before == 2:
        lines.append('vw.cons.p = @vwlate.late_fn()')
      lines.append('import vfx.late')
      if after == 1:
        lines.append('vwlate.late_fn.x = %vwc.V0')
      elif after == 2:
        lines.append('vw.cons.q = @vwlate.late_fn()')
      exc = None
      try:
        gin.parse_config('\n'.join(lines) + '\n', skip_unknown=sk)
      except Exception as e:
        exc = e
      cov = covered('vwlate.late_fn', sk)
      if before and not cov:
        # the first mention is an uncovered unknown: error, nothing after it applied
        if not isinstance(exc, ValueError):
          return rt.no('uncovered unknown before its import must raise, got %r' % (exc,))
        return not gc._CONFIG or rt.no('statements after the error were applied')
      if exc is not None:
        return rt.no('unexpected %r' % (exc,))
      got = {key: {p: canon(v) for p, v in d.items()} for key, d in gc._CONFIG.items()}
      want = {}
      if before == 2:
        want.setdefault(('', 'vw.cons'), {})['p'] = U('vwlate.late_fn', True)
      if after == 1:
        want[('', 'vwlate.late_fn')] = {'x': ('REF', 'vwc.V0/gin.constant', True)}
      elif after == 2:
        want.setdefault(('', 'vw.cons'), {})['q'] = ('REF', 'vwlate.late_fn', True)
      if got != want:
        return rt.no('bindings %r, expected %r (skip_unknown=%r)' % (got, want, sk))
      return True
    finally:
      _forget_late()


HARNESSES['c15_late'] = dict(
    fn='c15_late',
    anchors=['gin.config:_should_skip', 'gin.config:process_import'],
    smoke=[dict(skip=1, before=1, after=1, dyn=False, v0=4), dict(skip=2, before=2, after=2, dyn=False, v0=4)],
    tiers={'quick': dict(split=dict(skip=list(range(6))), fixed=dict(dyn=False), budget_s=60),
           'thorough': dict(split=dict(skip=list(range(6)), before=[0, 1, 2]), fixed=dict(dyn=False), budget_s=60)},
    bounds='one parse in which a configurable is mentioned (binding / reference) BEFORE the import statement that '
           'registers it and again after it, x 6 forms of skip_unknown')
