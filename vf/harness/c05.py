"""C05 - macros and constants are late-bound named values."""
import gin
from vf import rt
from vf import world
from vf.spec.selmap import spec_matching

# statement kinds of the macro harness
ORDERS = [
    ('D1', 'U'), ('U', 'D1'), ('D1', 'D2', 'U'), ('D1', 'U', 'D2'), ('U', 'D1', 'D2'),
    ('D2', 'U', 'D1'), ('D1', 'U', 'U2', 'D2'), ('U', 'D2', 'U2', 'D1'), ('U',), ('U', 'U2'),
    ('D1', 'D2'), ('D1', 'D2', 'D1', 'U'),
]
MNAMES = ['m', 'sc/ope', 'deep/er/sc_ope']
USES = {'U': 'vw.cons.p = %{m}', 'U2': "vw.cons.q = [1, {{'k': (%{m},)}}]"}


def c05_macros(order: int, split: int, mname: int, vkind: int, ncalls: int,
               v1: int, v2: int) -> bool:
  """
  pre: 0 <= order < 12 and 0 <= split < 5 and 0 <= mname < 3 and 0 <= vkind < 4 and 1 <= ncalls < 3
  """
  world.fresh()
  order = rt.pick(order, 12)
  split = rt.pick(split, 5)
  mname = rt.pick(mname, 3)
  vkind = rt.pick(vkind, 4)
  ncalls = rt.pick(ncalls, 3)
  seq = ORDERS[order]
  if split > len(seq):
    rt.discard()
  m = MNAMES[mname]
  rt.sig(('macros', seq, split, m, vkind, ncalls), nontrivial='U' in seq and ('D1' in seq or 'D2' in seq))
  gin.constant('vwc.V1', v1)
  gin.constant('vwc.V2', v2)
  if vkind == 2 and ('D1' in seq or 'D2' in seq):
    # (without a definition finalize() fails and its message embeds config_str(),
    # which stringifies every bound value: no S-input may be bound on that path)
    gin.bind_parameter('vw.src.v', v1)
    gin.bind_parameter('two/vw.src.v', v2)
  vals = {'D1': v1, 'D2': v2}

  def define(which):
    if vkind == 0:      # programmatic binding of the macro's value (value stays symbolic)
      gin.bind_parameter((m, 'gin.macro', 'value'), vals[which])
    elif vkind == 1:    # text, value routed through a constant
      with rt.native():
        gin.parse_config('%s = %%vwc.V%s' % (m, which[1]))
    elif vkind == 2:    # macro bound to an evaluated reference
      with rt.native():
        gin.parse_config('%s = @%svw.src()' % (m, 'two/' if which == 'D2' else ''))
    else:               # '%name' binding-key syntax of bind_parameter
      gin.bind_parameter('%' + m, vals[which])

  # statements before `split` go through individual calls, the rest through one text
  last = None
  uses = []
  for i, st in enumerate(seq):
    if st in ('D1', 'D2'):
      define(st)
      last = st
    else:
      with rt.native():
        gin.parse_config(USES[st].format(m=m))
      uses.append(st)
  # ---- finalize: rejects a referenced-but-never-bound macro ----------------
  exc = None
  try:
    gin.finalize()
  except Exception as e:
    exc = e
  if uses and last is None:
    return isinstance(exc, ValueError) and not gin.config_is_locked()
  if exc is not None:
    return False
  if not uses:
    return True
  # ---- every use yields the most recently bound value ------------------------
  for c in range(ncalls):
    del world.LOG[:]
    del world.SRC_CALLS[:]
    world.cons()
    _, args, _, _ = world.LOG[0]
    p, q = args
    want = [vals[last]] if vkind == 2 else vals[last]
    if 'U' in uses:
      if not rt.same('p', p, want):
        return False
    elif p is not None:
      return False
    if 'U2' in uses:
      if not (isinstance(q, list) and q[0] == 1 and rt.same('q', q[1]['k'][0], want)):
        return False
    elif q is not None:
      return False
    if vkind == 2:
      # a macro bound to @src() re-evaluates it at every use: one source call per use
      if len(world.SRC_CALLS) != len(uses):
        return False
      for rec in world.SRC_CALLS:
        if not rt.same('srcv', rec[0], vals[last]):
          return False
  return True


def c05_unevaluated(form: int, defined: bool, use: int, other: int) -> bool:
  """
  pre: 0 <= form < 3 and 0 <= use < 5 and 0 <= other < 3
  """
  world.fresh()
  form = rt.pick(form, 3)
  defined = rt.flag(defined)
  use = rt.pick(use, 5)       # proper %m uses of the SAME macro: none / before / after / both / nested before
  other = rt.pick(other, 3)   # an unrelated, well-formed macro: none / before / after
  rt.sig(('uneval', form, defined, use, other), nontrivial=True)
  with rt.native():
    bad = ['vw.lit.p = @m/gin.macro', 'vw.lit.p = [@m/gin.macro]', "vw.lit.q = {'k': @m/macro}"][form]
    stmts = []
    if other == 1:
      stmts += ['n = 1', 'vw.dflt.a = %n']
    if use in (1, 3):
      stmts.append('vw.cons.p = %m')
    if use == 4:
      stmts.append("vw.cons.q = [1, {'k': (%m, %m)}]")
    stmts.append(bad)
    if use in (2, 3):
      stmts.append('vw.cons.q = %m')
    if other == 2:
      stmts += ['n = 1', 'vw.dflt.a = %n']
    if defined:
      stmts.insert(len(stmts) // 2, 'm = 3')
    for st in stmts:
      gin.parse_config(st)
  try:
    gin.finalize()
    return False
  except ValueError:
    return not gin.config_is_locked()


PNAMES = ['m', 'm/x', 'm/x/y', 'x']           # macro names that are '/'-prefixes of one another
REFS = ['%{n}', '@{n}/macro()', '@{n}/gin.macro()']


def c05_prefix(d0: bool, d1: bool, d2: bool, d3: bool, u0: bool, u1: bool, u2: bool, u3: bool,
               spell: int, bindspell: int, late: bool, v0: int, v1: int, v2: int, v3: int) -> bool:
  """
  pre: 0 <= spell < 3 and 0 <= bindspell < 3
  """
  world.fresh()
  defined = [rt.flag(b) for b in (d0, d1, d2, d3)]
  used = [rt.flag(b) for b in (u0, u1, u2, u3)]
  spell = rt.pick(spell, 3)          # how the uses are spelled
  bindspell = rt.pick(bindspell, 3)  # how the definitions are made
  late = rt.flag(late)               # definitions after the uses
  vals = [v0, v1, v2, v3]
  if any(u and not d for u, d in zip(used, defined)):
    # finalize will fail and its message embeds config_str(): no S-input may be bound then
    vals = [11, 22, 33, 44]
  rt.sig(('prefix', tuple(defined), tuple(used), spell, bindspell, late),
         nontrivial=any(used) and any(defined))
  if not any(used):
    rt.discard()

  def define():
    for i in range(4):
      if defined[i]:
        if bindspell == 0:
          gin.bind_parameter((PNAMES[i], 'gin.macro', 'value'), vals[i])
        elif bindspell == 1:
          gin.bind_parameter(PNAMES[i] + '/macro.value', vals[i])
        else:
          gin.bind_parameter('%' + PNAMES[i], vals[i])

  if not late:
    define()
  with rt.native():
    items = ', '.join("'%d': %s" % (i, REFS[spell].format(n=PNAMES[i])) for i in range(4) if used[i])
    gin.parse_config('vw.cons.p = {%s}' % items)
  if late:
    define()
  exc = None
  try:
    gin.finalize()
  except Exception as e:
    exc = e
  unbound = [i for i in range(4) if used[i] and not defined[i]]
  if unbound:
    # a macro that is referenced but never bound is rejected, whatever ELSE is bound
    return (isinstance(exc, ValueError) and not gin.config_is_locked()) or rt.no(
        'finalize accepted the never-bound macro %s' % PNAMES[unbound[0]])
  if exc is not None:
    with rt.native():
      return rt.no('finalize rejected a fully bound configuration: %r' % (exc,))
  world.cons()
  p = world.LOG[-1][1][0]
  for i in range(4):
    if used[i]:
      if not rt.same('value of ' + PNAMES[i], p[str(i)], vals[i]):
        return False
  return True


FAMILY = ['K', 'a.K', 'b.a.K', 'c.a.K', 'b.L', 'L', 'c.b.L', '1bad', 'a..K']
QUERIES = ['K', 'a.K', 'b.a.K', 'c.a.K', 'L', 'b.L', 'c.b.L', 'x.K', 'Q']


def c05_constants(n: int, d0: int, d1: int, d2: int, d3: int, q: int, with_macro: bool) -> bool:
  """
  pre: 0 <= n <= 4 and 0 <= d0 < 9 and 0 <= d1 < 9 and 0 <= d2 < 9 and 0 <= d3 < 9 and 0 <= q < 9
  """
  world.fresh()
  ds = [d0, d1, d2, d3]
  names = {}
  order = []
  for i in range(n):
    ds[i] = rt.pick(ds[i], 9)
    name = FAMILY[ds[i]]
    order.append(name)
    obj = object()
    exc = None
    try:
      gin.constant(name, obj)
    except Exception as e:
      exc = e
    invalid = name in ('1bad', 'a..K')
    dup = (not invalid) and bool(spec_matching(list(names), name))
    if invalid or dup:
      if not isinstance(exc, ValueError):
        return False
    else:
      if exc is not None:
        return False
      names[name] = obj
  q = rt.pick(q, 9)
  with_macro = rt.flag(with_macro)
  query = QUERIES[q]
  rt.sig(('constants', tuple(order), query, with_macro), nontrivial=len(names) >= 2)
  want = spec_matching(list(names), query)
  if with_macro and '.' in query:
    rt.discard()                                 # `x.y = v` is a binding, not a macro
  if with_macro:
    with rt.native():
      gin.parse_config('%s = 12345' % query)     # a macro of the same name never shadows
  exc = None
  try:
    with rt.native():
      gin.parse_config('vw.cons.p = %%%s' % query)
  except Exception as e:
    exc = e
  if len(want) > 1:
    return isinstance(exc, ValueError)
  if exc is not None:
    return False
  if len(want) == 1:
    world.cons()
    if world.LOG[0][1][0] is not names[want[0]]:
      return False
    # the same lookup through query_parameter
    if gin.query_parameter(query) is not names[want[0]]:
      return False
    try:
      gin.finalize()
    except Exception:
      return False
    return True
  # no constant matches: it is a macro
  if with_macro:
    world.cons()
    return world.LOG[0][1][0] == 12345
  try:
    gin.finalize()
    return False
  except ValueError:
    return True


HARNESSES = {
    'c05_macros': dict(
        fn='c05_macros',
        anchors=['gin.config:macro', 'gin.config:validate_macros_hook', 'gin.config:__deepcopy__'],
        smoke=[dict(order=3, split=0, mname=0, vkind=1, ncalls=2, v1=5, v2=6),
               dict(order=6, split=0, mname=1, vkind=2, ncalls=2, v1=5, v2=6)],
        tiers={'quick': dict(split=dict(order=list(range(12)), vkind=[0, 1, 2, 3]),
                             fixed=dict(split=0), budget_s=100),
               'thorough': dict(split=dict(order=list(range(12)), vkind=[0, 1, 2, 3], mname=[0, 1, 2]),
                                fixed=dict(split=0), budget_s=300)},
        bounds='12 orders of up to two definitions and two uses (top-level and nested in list/dict/tuple) '
               'over separate parse calls; 3 macro names (plain, scope-like, deep scope-like); 4 ways of binding the '
               'macro (tuple key, via constant in text, to @src(), %name key); 1-2 consumer calls; values: all ints'),
    'c05_unevaluated': dict(
        fn='c05_unevaluated', anchors=['gin.config:validate_reference'],
        smoke=[dict(form=0, defined=True, use=1, other=0), dict(form=2, defined=False, use=4, other=2)],
        tiers={'quick': dict(split=dict(use=[0, 1, 2, 3, 4]), budget_s=60),
               'thorough': dict(split=dict(use=[0, 1, 2, 3, 4], form=[0, 1, 2]), budget_s=60)},
        bounds='3 placements of an unevaluated macro reference x bound or not x proper uses of the same macro '
               'before / after / both / nested x an unrelated macro before / after'),
    'c05_prefix': dict(
        fn='c05_prefix',
        anchors=['gin.config:validate_reference', 'gin.config:validate_macros_hook', 'gin.config:macro'],
        smoke=[dict(d0=True, d1=False, d2=False, d3=True, u0=True, u1=True, u2=False, u3=False, spell=0,
                    bindspell=0, late=False, v0=1, v1=2, v2=3, v3=4),
               dict(d0=True, d1=True, d2=True, d3=False, u0=True, u1=True, u2=True, u3=False, spell=1,
                    bindspell=2, late=True, v0=1, v1=2, v2=3, v3=4)],
        tiers={'quick': dict(split=dict(spell=[0, 1, 2], bindspell=[0, 1, 2], late=[False, True]),
                             fixed=dict(d3=False, u3=False), budget_s=100),
               'thorough': dict(split=dict(spell=[0, 1, 2], bindspell=[0, 1, 2], late=[False, True]),
                                budget_s=300)},
        bounds='macro names m, m/x, m/x/y (and x): every subset defined x every non-empty subset used, 3 spellings of '
               'the uses (%name, @name/macro(), @name/gin.macro()), 3 spellings of the definitions (tuple key, '
               '"name/macro.value", "%name"), definitions before or after the uses; values: all ints'),
    'c05_constants': dict(
        fn='c05_constants',
        anchors=['gin.config:constant', 'gin.config:_retrieve_constant', 'gin.config:macro'],
        smoke=[dict(n=3, d0=1, d1=2, d2=3, d3=0, q=1, with_macro=False),
               dict(n=2, d0=2, d1=1, d2=0, d3=0, q=0, with_macro=True)],
        tiers={'quick': dict(split=dict(d0=list(range(9)), q=list(range(9))), fixed=dict(n=3, d3=0),
                             budget_s=100),
               'thorough': dict(split=dict(d0=list(range(9)), d1=list(range(9)), q=list(range(9))),
                                fixed=dict(n=4), budget_s=600)},
        bounds='3 (quick) / 4 (thorough) definitions in every order from a 9-name family (shared suffixes, '
               '2 invalid names), then one of 9 query spellings, with or without a macro of the same name; '
               'identity of the delivered object'),
}
