"""C05 - macros and constants are late-bound named values."""
import contextlib

import gin
from vf import rt
from vf import world
from vf.spec.selmap import spec_matching

# statement kinds of the macro harness
ORDERS = [
    ('D1', 'U'), ('U', 'D1'), ('D1', 'D2', 'U'), ('D1', 'U', 'D2'), ('U', 'D1', 'D2'),
    ('D2', 'U', 'D1'), ('D1', 'U', 'U2', 'D2'), ('U', 'D2', 'U2', 'D1'), ('U',), ('U', 'U2'),
    ('D1', 'D2'), ('D1', 'D2', 'D1', 'U'),
]
MNAMES = ['m', 'sc/ope', 'deep/er/sc_ope']
USES = {'U': 'vw.cons.p = %{m}', 'U2': "vw.cons.q = [1, {{'k': (%{m},)}}]"}

# ways of binding the macro (`vkind`)
#  0 bind_parameter((name, 'gin.macro', 'value'), v)        3 bind_parameter('%name', v)
#  1 text `name = %vwc.Vk`            2 text `name = @vw.src()` (evaluated reference)
#  4 text `name/macro.value = %vwc.Vk`   5 text `name/gin.macro.value = %vwc.Vk`
#  6 text block `name/gin.macro:` + indented `value = %vwc.Vk`
#  7 chain: `name = %c05i` stated FIRST, every definition is `c05i = %vwc.Vk`
#  8 chain through containers: `name = (%c05i, [%c05i])` stated LAST, definitions as in 7
NVKIND = 9
VK_PROG = (0, 3)
INNER = 'c05i'

# ways of delivering the text statements (`split`)
#  0 one parse_config call per statement            1 ONE multi-statement text
#  2 a list of strings                              3 a file (parse_config_file)
#  4 the first statement in an included file, `include` line first in the main file
#  5 the last statement in an included file, `include` line last in the main file
#  6 parse_config_files_and_bindings([f1, f2], bindings=[rest], finalize_config=True)
NSPLIT = 7
# where finalize() is called (`fscope`): 0 no scope, 1 inside config_scope('amb'), 2 inside config_scope(<macro name>)
NFSCOPE = 3


def _deftext(vkind, m, which):
  n = which[1]
  if vkind == 1:
    return '%s = %%vwc.V%s' % (m, n)
  if vkind == 2:
    return '%s = @%svw.src()' % (m, 'two/' if which == 'D2' else '')
  if vkind == 4:
    return '%s/macro.value = %%vwc.V%s' % (m, n)
  if vkind == 5:
    return '%s/gin.macro.value = %%vwc.V%s' % (m, n)
  if vkind == 6:
    return '%s/gin.macro:\n  value = %%vwc.V%s\n' % (m, n)
  if vkind in (7, 8):
    return '%s = %%vwc.V%s' % (INNER, n)
  raise rt.HarnessError('no text form for vkind %r' % (vkind,))


def _want(vkind, v):
  if vkind == 2:
    return [v]
  if vkind == 8:
    return (v, [v])
  return v


def _deliver(stmts, split, fscope, scope_name):
  """Delivers `stmts` (str = Gin text, callable = programmatic definition) and finalizes.

  Returns the exception raised by finalize (or by the combined parse-and-finalize call of split 6)."""
  texts_only = all(isinstance(s, str) for s in stmts)
  if split >= 3 and not texts_only:
    rt.discard()                 # a programmatic definition cannot live in a file
  def scope():
    if fscope == 1:
      return gin.config_scope('amb')
    if fscope == 2:
      return gin.config_scope(scope_name)
    return contextlib.nullcontext()
  if split == 6:
    with rt.native():
      files = {'f1.gin': stmts[0] + '\n', 'f2.gin': (stmts[1] + '\n') if len(stmts) > 1 else '# empty\n'}
      world.use_mem_fs(files)
      try:
        with scope():
          gin.parse_config_files_and_bindings(['f1.gin', 'f2.gin'], bindings=list(stmts[2:]),
                                              finalize_config=True)
      except Exception as e:
        return e
      return None
  if split in (0, 1, 2):
    run = []
    def flush():
      if run:
        with rt.native():
          gin.parse_config('\n'.join(run) if split == 1 else list(run))
        del run[:]
    for s in stmts:
      if isinstance(s, str):
        if split == 0:
          with rt.native():
            gin.parse_config(s)
        else:
          run.append(s)
      else:
        flush()
        s()
    flush()
  else:
    with rt.native():
      if split == 3:
        files = {'main.gin': '\n'.join(stmts) + '\n'}
      elif split == 4:
        files = {'inc.gin': stmts[0] + '\n',
                 'main.gin': "include 'inc.gin'\n" + '\n'.join(stmts[1:]) + '\n'}
      else:
        files = {'inc.gin': stmts[-1] + '\n',
                 'main.gin': '\n'.join(stmts[:-1]) + "\ninclude 'inc.gin'\n"}
      world.use_mem_fs(files)
      gin.parse_config_file('main.gin')
  try:
    with scope():
      gin.finalize()
  except Exception as e:
    return e
  return None


def c05_macros(order: int, split: int, mname: int, vkind: int, ncalls: int, fscope: int,
               v1: int, v2: int) -> bool:
  """
  pre: 0 <= order < 12 and 0 <= split < 7 and 0 <= mname < 3 and 0 <= vkind < 9 and 1 <= ncalls < 3 and 0 <= fscope < 3
  """
  world.fresh()
  order = rt.pick(order, 12)
  split = rt.pick(split, NSPLIT)
  mname = rt.pick(mname, 3)
  vkind = rt.pick(vkind, NVKIND)
  ncalls = rt.pick(ncalls, 3)
  fscope = rt.pick(fscope, NFSCOPE)
  seq = ORDERS[order]
  m = MNAMES[mname]
  rt.sig(('macros', seq, split, m, vkind, ncalls, fscope),
         nontrivial='U' in seq and ('D1' in seq or 'D2' in seq))
  gin.constant('vwc.V1', v1)
  gin.constant('vwc.V2', v2)
  if vkind == 2 and ('D1' in seq or 'D2' in seq):
    # (without a definition finalize() fails and its message embeds config_str(),
    # which stringifies every bound value: no S-input may be bound on that path)
    gin.bind_parameter('vw.src.v', v1)
    gin.bind_parameter('two/vw.src.v', v2)
  vals = {'D1': v1, 'D2': v2}

  def prog(which):
    if vkind == 0:      # programmatic binding of the macro's value (value stays symbolic)
      return lambda: gin.bind_parameter((m, 'gin.macro', 'value'), vals[which])
    return lambda: gin.bind_parameter('%' + m, vals[which])   # '%name' binding-key syntax

  last = None
  uses = []
  stmts = []
  if vkind == 7:
    stmts.append('%s = %%%s' % (m, INNER))
  for st in seq:
    if st in ('D1', 'D2'):
      stmts.append(prog(st) if vkind in VK_PROG else _deftext(vkind, m, st))
      last = st
    else:
      stmts.append(USES[st].format(m=m))
      uses.append(st)
  if vkind == 8:
    stmts.append('%s = (%%%s, [%%%s])' % (m, INNER, INNER))
  # ---- delivery + finalize: rejects a referenced-but-never-bound macro ----------------
  exc = _deliver(stmts, split, fscope, m)
  # (chain kinds: the link `name = %c05i` references c05i even when nothing uses `name`)
  referenced = bool(uses) or vkind in (7, 8)
  if referenced and last is None:
    return (isinstance(exc, ValueError) and not gin.config_is_locked()) or rt.no(
        'finalize accepted a macro that is referenced but never bound (exc=%r)' % (exc,))
  if exc is not None:
    with rt.native():
      return rt.no('fully bound configuration rejected: %r' % (exc,))
  if not uses:
    return True
  # ---- every use yields the most recently bound value ------------------------
  want = _want(vkind, vals[last])
  for c in range(ncalls):
    del world.LOG[:]
    del world.SRC_CALLS[:]
    world.cons()
    _, args, _, _ = world.LOG[0]
    p, q = args
    if 'U' in uses:
      if not rt.same('p', p, want):
        return False
    elif p is not None:
      return False
    if 'U2' in uses:
      if not (isinstance(q, list) and q[0] == 1 and rt.same('q', q[1]['k'][0], want)):
        return False
    elif q is not None:
      return False
    if vkind == 2:
      # a macro bound to @src() re-evaluates it at every use: one source call per use
      if len(world.SRC_CALLS) != len(uses):
        return False
      for rec in world.SRC_CALLS:
        if not rt.same('srcv', rec[0], vals[last]):
          return False
  return True


def _finalize_in(fscope, name='amb'):
  """finalize() at empty scope (0) or inside an active config scope; returns what it raised"""
  try:
    if fscope:
      with gin.config_scope(name):
        gin.finalize()
    else:
      gin.finalize()
  except Exception as e:
    return e
  return None


UNEVAL = ['vw.lit.p = @m/gin.macro', 'vw.lit.p = [@m/gin.macro]', "vw.lit.q = {'k': @m/macro}",
          'vw.lit.q = {@m/macro: 1}', "vw.lit.q = {'k': [{@m/gin.macro: 2}]}"]


def c05_unevaluated(form: int, defined: bool, use: int, other: int, fscope: bool) -> bool:
  """
  pre: 0 <= form < 5 and 0 <= use < 6 and 0 <= other < 3
  """
  world.fresh()
  form = rt.pick(form, 5)     # where the unevaluated reference sits (3, 4: as a dict KEY)
  defined = rt.flag(defined)
  use = rt.pick(use, 6)       # proper %m uses of the SAME macro: none / before / after / both / nested before / dict key before
  other = rt.pick(other, 3)   # an unrelated, well-formed macro: none / before / after
  fscope = rt.flag(fscope)    # finalize() called inside config_scope('amb')
  rt.sig(('uneval', form, defined, use, other, fscope), nontrivial=True)
  with rt.native():
    bad = UNEVAL[form]
    stmts = []
    if other == 1:
      stmts += ['n = 1', 'vw.dflt.a = %n']
    if use in (1, 3):
      stmts.append('vw.cons.p = %m')
    if use == 4:
      stmts.append("vw.cons.q = [1, {'k': (%m, %m)}]")
    if use == 5:
      stmts.append("vw.cons.q = {%m: 1}")
    stmts.append(bad)
    if use in (2, 3):
      stmts.append('vw.cons.q = %m')
    if other == 2:
      stmts += ['n = 1', 'vw.dflt.a = %n']
    if defined:
      stmts.insert(len(stmts) // 2, 'm = 3')
    for st in stmts:
      gin.parse_config(st)
  exc = _finalize_in(fscope)
  if exc is None:
    return rt.no('finalize accepted a macro that is referenced without being evaluated')
  return isinstance(exc, ValueError) and not gin.config_is_locked()


PNAMES = ['m', 'm/x', 'm/x/y', 'x']           # macro names that are '/'-prefixes of one another
REFS = ['%{n}', '@{n}/macro()', '@{n}/gin.macro()']
KEYVALS = [11, 22, 33, 44]                    # concrete, distinct: they become dict keys (hashed)


def c05_prefix(d0: bool, d1: bool, d2: bool, d3: bool, u0: bool, u1: bool, u2: bool, u3: bool,
               spell: int, bindspell: int, late: bool, fscope: bool,
               v0: int, v1: int, v2: int, v3: int) -> bool:
  """
  pre: 0 <= spell < 5 and 0 <= bindspell < 3
  """
  world.fresh()
  defined = [rt.flag(b) for b in (d0, d1, d2, d3)]
  used = [rt.flag(b) for b in (u0, u1, u2, u3)]
  spell = rt.pick(spell, 5)          # how the uses are spelled (3: %name as dict KEY, 4: as key of a nested dict)
  bindspell = rt.pick(bindspell, 3)  # how the definitions are made
  late = rt.flag(late)               # definitions after the uses
  fscope = rt.flag(fscope)           # finalize() called inside config_scope('amb')
  vals = [v0, v1, v2, v3]
  if any(u and not d for u, d in zip(used, defined)) or spell >= 3:
    # finalize will fail and its message embeds config_str(): no S-input may be bound then
    # (and a dict key is hashed, which would realise a symbolic value)
    vals = KEYVALS
  rt.sig(('prefix', tuple(defined), tuple(used), spell, bindspell, late, fscope),
         nontrivial=any(used) and any(defined))
  if not any(used):
    rt.discard()

  def define():
    for i in range(4):
      if defined[i]:
        if bindspell == 0:
          gin.bind_parameter((PNAMES[i], 'gin.macro', 'value'), vals[i])
        elif bindspell == 1:
          gin.bind_parameter(PNAMES[i] + '/macro.value', vals[i])
        else:
          gin.bind_parameter('%' + PNAMES[i], vals[i])

  if not late:
    define()
  with rt.native():
    if spell < 3:
      items = ', '.join("'%d': %s" % (i, REFS[spell].format(n=PNAMES[i])) for i in range(4) if used[i])
      gin.parse_config('vw.cons.p = {%s}' % items)
    else:
      items = ', '.join("%%%s: '%d'" % (PNAMES[i], i) for i in range(4) if used[i])
      gin.parse_config(('vw.cons.p = {%s}' if spell == 3 else "vw.cons.p = {'in': [{%s}]}") % items)
  if late:
    define()
  exc = _finalize_in(fscope)
  unbound = [i for i in range(4) if used[i] and not defined[i]]
  if unbound:
    # a macro that is referenced but never bound is rejected, whatever ELSE is bound
    return (isinstance(exc, ValueError) and not gin.config_is_locked()) or rt.no(
        'finalize accepted the never-bound macro %s' % PNAMES[unbound[0]])
  if exc is not None:
    with rt.native():
      return rt.no('finalize rejected a fully bound configuration: %r' % (exc,))
  world.cons()
  p = world.LOG[-1][1][0]
  if spell >= 3:
    p = rt.realize(p)
    with rt.native():
      if spell == 4:
        if not (isinstance(p, dict) and list(p) == ['in'] and isinstance(p['in'], list) and len(p['in']) == 1):
          return rt.no('shape of the delivered value: %r' % (p,))
        p = p['in'][0]
      wantd = dict((vals[i], str(i)) for i in range(4) if used[i])
      return p == wantd or rt.no('macro as dict key: got %r want %r' % (p, wantd))
  for i in range(4):
    if used[i]:
      if not rt.same('value of ' + PNAMES[i], p[str(i)], vals[i]):
        return False
  return True


# ---- histories that continue after finalize() -------------------------------------------------------
def c05_after(vkind: int, mname: int, first: bool, redef: int, cscope: int, usespell: bool,
              v1: int, v2: int) -> bool:
  """
  pre: 0 <= vkind < 9 and 0 <= mname < 3 and 0 <= redef < 4 and 0 <= cscope < 3
  """
  world.fresh()
  vkind = rt.pick(vkind, NVKIND)
  mname = rt.pick(mname, 3)
  first = rt.flag(first)          # definition before the use
  redef = rt.pick(redef, 4)       # after finalize: 0 nothing, 1 re-definition under unlock_config,
                                  # 2 re-definition attempted while locked, 3 as 1 + the macro queried and re-used
  cscope = rt.pick(cscope, 3)     # consumer called at: empty scope / config_scope('amb') / config_scope(<macro name>)
  usespell = rt.flag(usespell)    # the use is bound programmatically: bind_parameter(.., parse_value('%name'))
  m = MNAMES[mname]
  rt.sig(('after', vkind, m, first, redef, cscope, usespell), nontrivial=True)
  gin.constant('vwc.V1', v1)
  gin.constant('vwc.V2', v2)
  gin.bind_parameter('vw.src.v', v1)
  gin.bind_parameter('two/vw.src.v', v2)
  vals = {'D1': v1, 'D2': v2}

  def define(which):
    if vkind == 0:
      gin.bind_parameter((m, 'gin.macro', 'value'), vals[which])
    elif vkind == 3:
      gin.bind_parameter('%' + m, vals[which])
    else:
      with rt.native():
        gin.parse_config(_deftext(vkind, m, which))

  def use():
    if usespell:
      with rt.native():
        ref = gin.config.parse_value('%' + m)
      gin.bind_parameter('vw.cons.p', ref)
    else:
      with rt.native():
        gin.parse_config('vw.cons.p = %' + m)

  def call(fn, want, what):
    del world.LOG[:]
    del world.SRC_CALLS[:]
    with (gin.config_scope('amb') if cscope == 1 else gin.config_scope(m) if cscope == 2
          else contextlib.nullcontext()):
      fn()
    p = world.LOG[0][1][0]
    if not rt.same(what, p, want):
      return False
    if vkind == 2 and len(world.SRC_CALLS) != 1:
      return rt.no('%s: the evaluated reference ran %d times for one use' % (what, len(world.SRC_CALLS)))
    return True

  with rt.native():
    if vkind == 7:
      gin.parse_config('%s = %%%s' % (m, INNER))
  if first:
    define('D1')
    use()
  else:
    use()
    define('D1')
  with rt.native():
    if vkind == 8:
      gin.parse_config('%s = (%%%s, [%%%s])' % (m, INNER, INNER))
  gin.finalize()
  if not call(world.cons, _want(vkind, v1), 'first call'):
    return False
  if redef == 0:
    return call(world.cons, _want(vkind, v1), 'second call')
  if redef == 2:
    # the statement does not say that a locked config refuses the definition; it does say which value
    # a use yields: the new one if the definition was accepted, the old one if it was refused
    try:
      define('D2')
      refused = False
    except Exception:
      refused = True
    return call(world.cons, _want(vkind, v1 if refused else v2), 'call after a definition made while locked')
  with gin.unlock_config():
    define('D2')
  if not call(world.cons, _want(vkind, v2), 'call after the re-definition under unlock_config'):
    return False
  if redef == 3:
    # the macro observed through the API: what query_parameter('%name') reports, bound to another parameter,
    # yields the most recently bound value as well; both spellings of the key report the same thing
    r = gin.query_parameter('%' + m)
    r2 = gin.query_parameter(m + '/macro.value')
    if not rt.same('two spellings of the query', r, r2):
      return False
    with gin.unlock_config():
      gin.bind_parameter('vw.lit.p', r)
    if not call(world.lit, _want(vkind, v2), 'the queried macro value bound to another parameter'):
      return False
  return True


FAMILY = ['K', 'a.K', 'b.a.K', 'c.a.K', 'b.L', 'L', 'c.b.L', '1bad', 'a..K']
QUERIES = ['K', 'a.K', 'b.a.K', 'c.a.K', 'L', 'b.L', 'c.b.L', 'x.K', 'Q']


def c05_constants(n: int, d0: int, d1: int, d2: int, d3: int, q: int, with_macro: bool) -> bool:
  """
  pre: 0 <= n <= 4 and 0 <= d0 < 9 and 0 <= d1 < 9 and 0 <= d2 < 9 and 0 <= d3 < 9 and 0 <= q < 9
  """
  world.fresh()
  ds = [d0, d1, d2, d3]
  names = {}
  order = []
  for i in range(n):
    ds[i] = rt.pick(ds[i], 9)
    name = FAMILY[ds[i]]
    order.append(name)
    obj = object()
    exc = None
    try:
      gin.constant(name, obj)
    except Exception as e:
      exc = e
    invalid = name in ('1bad', 'a..K')
    dup = (not invalid) and bool(spec_matching(list(names), name))
    if invalid or dup:
      if not isinstance(exc, ValueError):
        return False
    else:
      if exc is not None:
        return False
      names[name] = obj
  q = rt.pick(q, 9)
  with_macro = rt.flag(with_macro)
  query = QUERIES[q]
  rt.sig(('constants', tuple(order), query, with_macro), nontrivial=len(names) >= 2)
  want = spec_matching(list(names), query)
  if with_macro and '.' in query:
    rt.discard()                                 # `x.y = v` is a binding, not a macro
  if with_macro:
    with rt.native():
      gin.parse_config('%s = 12345' % query)     # a macro of the same name never shadows
  exc = None
  try:
    with rt.native():
      gin.parse_config('vw.cons.p = %%%s' % query)
  except Exception as e:
    exc = e
  if len(want) > 1:
    return isinstance(exc, ValueError)
  if exc is not None:
    return False
  if len(want) == 1:
    world.cons()
    if world.LOG[0][1][0] is not names[want[0]]:
      return False
    # the same lookup through query_parameter
    if gin.query_parameter(query) is not names[want[0]]:
      return False
    try:
      gin.finalize()
    except Exception:
      return False
    return True
  # no constant matches: it is a macro
  if with_macro:
    world.cons()
    return world.LOG[0][1][0] == 12345
  try:
    gin.finalize()
    return False
  except ValueError:
    return True


# ---- order between the definition of a constant and the parse of its use ---------------------------
OFAMILY = ['K', 'a.K', 'b.a.K', 'c.a.K', 'b.K', 'L', 'b.L']


def c05_const_order(d0: int, d1: int, npre: int, q: int, with_macro: bool) -> bool:
  """
  pre: 0 <= d0 < 7 and 0 <= d1 < 7 and 0 <= npre <= 2 and 0 <= q < 9
  """
  world.fresh()
  ds = [rt.pick(d0, 7), rt.pick(d1, 7)]
  npre = rt.pick(npre, 3)            # how many of the two constants exist when the use is parsed
  q = rt.pick(q, 9)
  with_macro = rt.flag(with_macro)
  query = QUERIES[q]
  if with_macro and '.' in query:
    rt.discard()                     # `x.y = v` is a binding, not a macro
  rt.sig(('const_order', OFAMILY[ds[0]], OFAMILY[ds[1]], npre, query, with_macro), nontrivial=True)
  names = {}

  def define(i):
    name = OFAMILY[ds[i]]
    obj = object()
    exc = None
    try:
      gin.constant(name, obj)
    except Exception as e:
      exc = e
    if spec_matching(list(names), name):       # duplicate (a name that an existing one already answers to)
      return isinstance(exc, ValueError)
    if exc is not None:
      return False
    names[name] = obj
    return True

  for i in range(npre):
    if not define(i):
      return rt.no('definition %d' % i)
  at_parse = spec_matching(list(names), query)
  exc = None
  try:
    with rt.native():
      gin.parse_config('vw.cons.p = %%%s' % query)
  except Exception as e:
    exc = e
  if len(at_parse) > 1:
    return isinstance(exc, ValueError) or rt.no('ambiguous abbreviation accepted')
  if exc is not None:
    return rt.no('parse of the use raised %r' % (exc,))
  for i in range(npre, 2):
    if not define(i):
      return rt.no('late definition %d' % i)
  if with_macro:
    with rt.native():
      gin.parse_config('%s = 12345' % query)
  at_end = spec_matching(list(names), query)
  # a use parsed NOW obeys the table as it is now
  exc = None
  try:
    with rt.native():
      gin.parse_config('vw.cons.q = %%%s' % query)
  except Exception as e:
    exc = e
  if len(at_end) > 1:
    if not isinstance(exc, ValueError):
      return rt.no('ambiguous abbreviation accepted by the second parse')
  elif exc is not None:
    return rt.no('second parse raised %r' % (exc,))
  # ---- the use parsed earlier
  cexc = None
  got_p = got_q = None
  try:
    world.cons()
    got_p, got_q = world.LOG[0][1]
  except Exception as e:
    cexc = e
  fexc = _finalize_in(0)
  if len(at_parse) == 1:
    # it matched a constant when it was parsed: it yields that very object (if the abbreviation has
    # become ambiguous since, an error is accepted as well - never another object)
    if cexc is not None or fexc is not None:
      return (len(at_end) > 1 and isinstance(cexc or fexc, ValueError)) or rt.no(
          'a use that matched a constant: call %r finalize %r' % (cexc, fexc))
    if got_p is not names[at_parse[0]]:
      return rt.no('a use that matched %s yields another object' % at_parse[0])
    if len(at_end) == 1 and got_q is not names[at_end[0]]:
      return rt.no('second use yields another object')
    return True
  if len(at_end) == 1 and cexc is None and got_p is names[at_end[0]]:
    # no constant matched when the use was parsed, one does now: the statement does not say at which of
    # the two moments a name is matched, so delivering the constant is accepted ...
    return got_q is names[at_end[0]] or rt.no('second use yields another object')
  # ... and so is treating the use as the macro it was when parsed
  if with_macro:
    if cexc is not None or fexc is not None:
      return rt.no('macro use: call %r finalize %r' % (cexc, fexc))
    if got_p != 12345:
      return rt.no('macro use yields %r' % (got_p,))
    if len(at_end) == 1:
      return got_q is names[at_end[0]] or rt.no('a macro of the same name shadows the constant')
    if len(at_end) == 0:
      return got_q == 12345 or rt.no('second macro use yields %r' % (got_q,))
    return True
  return (isinstance(fexc, ValueError) and not gin.config_is_locked()) or rt.no(
      'finalize accepted a never-bound macro (late constant)')


# ---- constants generated from an enum, constants with unusual values --------------------------------
import enum as _enum


class Color(_enum.Enum):
  RED = 1
  BLUE = 2


class Shade(_enum.Enum):
  RED = 1
  DARK = 0


def _fn_const():
  raise AssertionError('a constant that is a function must be delivered, not called')


CVALS = [('vwc.kn', None), ('vwc.kz', 0), ('vwc.ke', ''), ('vwc.kf', False), ('vwc.kl', [1, [2]]),
         ('vwc.kd', {}), ('vwc.kc', _fn_const), ('vwc.kt', Color)]
EQUERIES = ['RED', 'Color.RED', 'vwc.Color.RED', 'Shade.RED', 'BLUE', 'DARK', 'c.Color.RED', 'Color',
            'kn', 'kz', 'ke', 'kf', 'kl', 'kd', 'kc', 'kt', 'vwc.kz']


def c05_enum(two: bool, how: int, q: int, ncalls: int) -> bool:
  """
  pre: 0 <= how < 3 and 0 <= q < 17 and 1 <= ncalls <= 2
  """
  world.fresh()
  two = rt.flag(two)          # a second enum sharing the member name RED
  how = rt.pick(how, 3)       # decorator with module= / decorator called with cls and module / plain constant() calls
  q = rt.pick(q, 17)
  ncalls = rt.pick(ncalls, 3)
  rt.sig(('enum', two, how, q, ncalls), nontrivial=True)
  names = {}
  with rt.native():
    enums = [Color] + ([Shade] if two else [])
    for cls in enums:
      if how == 0:
        if gin.constants_from_enum(module='vwc')(cls) is not cls:
          return rt.no('constants_from_enum does not return the class')
      elif how == 1:
        if gin.constants_from_enum(cls, module='vwc') is not cls:
          return rt.no('constants_from_enum does not return the class')
      else:
        for mem in cls:
          gin.constant('vwc.%s.%s' % (cls.__name__, mem.name), mem)
      for mem in cls:
        names['vwc.%s.%s' % (cls.__name__, mem.name)] = mem
    for n, v in CVALS:
      gin.constant(n, v)
      names[n] = v
    try:
      gin.constants_from_enum(module='vwc')(object)
      return rt.no('constants_from_enum accepted a class that is not an enum')
    except TypeError:
      pass
    query = EQUERIES[q]
    want = spec_matching(list(names), query)
    exc = None
    try:
      gin.parse_config('vw.cons.p = %%%s' % query)
    except Exception as e:
      exc = e
    if len(want) > 1:
      return isinstance(exc, ValueError) or rt.no('ambiguous enum abbreviation accepted')
    if exc is not None:
      return rt.no('parse raised %r' % (exc,))
    if not want:
      return isinstance(_finalize_in(0), ValueError) or rt.no('never-bound macro accepted')
    fexc = _finalize_in(0)
    if fexc is not None:
      return rt.no('finalize raised %r' % (fexc,))
    for c in range(ncalls):
      del world.LOG[:]
      world.cons()
      if world.LOG[0][1][0] is not names[want[0]]:
        return rt.no('%%%s yields %r, not the constant itself' % (query, world.LOG[0][1][0]))
    if gin.query_parameter(query) is not names[want[0]]:
      return rt.no('query_parameter yields another object')
    return True


OUTSIDE = ('a root-scope binding of the macro configurable itself (`macro.value = 7`: the statement does not say whether '
           'a macro that inherits such a value counts as bound); self-referential macros (`m = %m`); dotted macro names '
           '(`%a.b`, definable only through bind_parameter); constants re-defined in interactive mode and constants across '
           'clear_config() (C20); a constant whose value is gin.REQUIRED (C10)')
ASSUMPTIONS = [
    'values that reach a stringifier or a hash are concrete: configurations whose finalize() is expected to fail '
    '(its message embeds config_str()) and macros used as dict keys are bound to fixed ints',
    'c05_const_order: the statement does not say whether a use parsed BEFORE its constant is defined is matched at '
    'parse time or at use time; both outcomes are accepted there (the constant itself, or macro semantics)',
    'c05_after redef=2: whether a locked config refuses a definition is not part of this property; the value demanded '
    'is the new one if the definition was accepted and the old one if it raised',
]

HARNESSES = {
    'c05_macros': dict(
        fn='c05_macros',
        anchors=['gin.config:macro', 'gin.config:validate_macros_hook', 'gin.config:__deepcopy__',
                 'gin.config:parse_config_file', 'gin.config:parse_config_files_and_bindings',
                 'gin.config_parser:_parse_binding_block'],
        smoke=[dict(order=3, split=0, mname=0, vkind=1, ncalls=2, fscope=0, v1=5, v2=6),
               dict(order=6, split=0, mname=1, vkind=2, ncalls=2, fscope=0, v1=5, v2=6),
               dict(order=3, split=1, mname=0, vkind=4, ncalls=1, fscope=0, v1=5, v2=6),
               dict(order=5, split=2, mname=1, vkind=5, ncalls=1, fscope=0, v1=5, v2=6),
               dict(order=7, split=3, mname=2, vkind=6, ncalls=2, fscope=0, v1=5, v2=6),
               dict(order=1, split=4, mname=0, vkind=7, ncalls=1, fscope=0, v1=5, v2=6),
               dict(order=3, split=5, mname=1, vkind=8, ncalls=2, fscope=0, v1=5, v2=6),
               dict(order=4, split=6, mname=0, vkind=1, ncalls=1, fscope=0, v1=5, v2=6),
               dict(order=11, split=1, mname=0, vkind=3, ncalls=1, fscope=0, v1=5, v2=6),
               dict(order=0, split=0, mname=1, vkind=1, ncalls=1, fscope=1, v1=5, v2=6),
               dict(order=2, split=6, mname=2, vkind=6, ncalls=1, fscope=2, v1=5, v2=6)],
        # quick: the delivery modes and the finalize scopes are swept by the two entries below (same function)
        tiers={'quick': dict(split=dict(order=list(range(12))),
                             fixed=dict(split=0, fscope=0), budget_s=150),
               'thorough': dict(split=dict(order=list(range(12)), vkind=list(range(9)), mname=[0, 1, 2]),
                                budget_s=300)},
        bounds='(thorough: the full product; quick: this entry pins one parse call per statement and finalize at empty '
               'scope, c05_macros_delivery sweeps the 6 other deliveries with 2 calls, c05_macros_fscope the 2 scopes '
               'with 1 call) 12 orders of up to two definitions and two uses (top-level and nested in list/dict/tuple); 7 ways of '
               'delivering the statements (one parse call each, ONE multi-statement text, a list of strings, a file, an '
               'include with the first / the last statement in the included file, parse_config_files_and_bindings over '
               'two files plus bindings with its own finalize); 3 macro names (plain, scope-like, deep scope-like); '
               '9 ways of binding the macro (tuple key, %name key, text via a constant, text to @src(), text '
               '`name/macro.value =`, `name/gin.macro.value =`, block form, macro -> macro chain stated first, chain '
               'through a tuple/list stated last); finalize at empty scope, inside config_scope("amb"), inside '
               'config_scope(<macro name>); 1-2 consumer calls; values: all ints'),
    'c05_macros_delivery': dict(
        fn='c05_macros',
        anchors=['gin.config:parse_config_file', 'gin.config:parse_config_files_and_bindings'],
        smoke=[dict(order=7, split=3, mname=2, vkind=6, ncalls=2, fscope=0, v1=5, v2=6),
               dict(order=4, split=6, mname=0, vkind=1, ncalls=2, fscope=0, v1=5, v2=6)],
        tiers={'quick': dict(split=dict(split=[1, 2, 3, 4, 5, 6], mname=[0, 1, 2]),
                             fixed=dict(ncalls=2, fscope=0), budget_s=150)},
        bounds='c05_macros with the statements delivered as ONE multi-statement text / a list of strings / a file / an '
               'include (first or last statement in the included file) / parse_config_files_and_bindings: 12 orders x '
               '9 ways of binding x 3 macro names, 2 consumer calls, finalize at empty scope'),
    'c05_macros_fscope': dict(
        fn='c05_macros',
        anchors=['gin.config:validate_macros_hook', 'gin.config:config_scope'],
        smoke=[dict(order=0, split=0, mname=1, vkind=1, ncalls=1, fscope=1, v1=5, v2=6),
               dict(order=2, split=0, mname=2, vkind=6, ncalls=1, fscope=2, v1=5, v2=6)],
        tiers={'quick': dict(split=dict(fscope=[1, 2], vkind=list(range(9))),
                             fixed=dict(ncalls=1, split=0), budget_s=150)},
        bounds='c05_macros with finalize() called inside config_scope("amb") / config_scope(<macro name>): 12 orders x '
               '9 ways of binding x 3 macro names, one parse call per statement, 1 consumer call'),
    'c05_after': dict(
        fn='c05_after',
        anchors=['gin.config:macro', 'gin.config:unlock_config', 'gin.config:query_parameter',
                 'gin.config:parse_value'],
        smoke=[dict(vkind=1, mname=0, first=True, redef=3, cscope=1, usespell=True, v1=5, v2=6),
               dict(vkind=2, mname=1, first=False, redef=1, cscope=2, usespell=False, v1=5, v2=6),
               dict(vkind=7, mname=2, first=True, redef=2, cscope=0, usespell=False, v1=5, v2=6),
               dict(vkind=8, mname=0, first=False, redef=3, cscope=0, usespell=True, v1=5, v2=6),
               dict(vkind=6, mname=1, first=True, redef=0, cscope=1, usespell=False, v1=5, v2=6)],
        tiers={'quick': dict(split=dict(vkind=list(range(9))), budget_s=150),
               'thorough': dict(split=dict(vkind=list(range(9)), mname=[0, 1, 2]), budget_s=300)},
        bounds='histories that continue after a successful finalize(): 9 ways of binding the macro x 3 macro names x '
               'definition before / after the use x use parsed from text or bound through parse_value x consumer called '
               'at empty scope / inside config_scope("amb") / inside config_scope(<macro name>) x {two calls, '
               're-definition under unlock_config, re-definition attempted while locked, re-definition + '
               'query_parameter("%name") re-bound to another parameter}; values: all ints'),
    'c05_unevaluated': dict(
        fn='c05_unevaluated', anchors=['gin.config:validate_reference'],
        smoke=[dict(form=0, defined=True, use=1, other=0, fscope=False),
               dict(form=2, defined=False, use=4, other=2, fscope=False),
               dict(form=3, defined=True, use=5, other=0, fscope=False),
               dict(form=4, defined=True, use=0, other=1, fscope=False),
               dict(form=1, defined=True, use=2, other=0, fscope=True)],
        tiers={'quick': dict(split=dict(use=[0, 1, 2, 3, 4, 5]), budget_s=60),
               'thorough': dict(split=dict(use=[0, 1, 2, 3, 4, 5], form=[0, 1, 2, 3, 4]), budget_s=60)},
        bounds='5 placements of an unevaluated macro reference (value, in a list, dict value, dict KEY, key of a nested '
               'dict) x bound or not x proper uses of the same macro before / after / both / nested / as a dict key x an '
               'unrelated macro before / after x finalize at empty scope or inside config_scope("amb")'),
    'c05_prefix': dict(
        fn='c05_prefix',
        anchors=['gin.config:validate_reference', 'gin.config:validate_macros_hook', 'gin.config:macro'],
        smoke=[dict(d0=True, d1=False, d2=False, d3=True, u0=True, u1=True, u2=False, u3=False, spell=0,
                    bindspell=0, late=False, fscope=False, v0=1, v1=2, v2=3, v3=4),
               dict(d0=True, d1=True, d2=True, d3=False, u0=True, u1=True, u2=True, u3=False, spell=1,
                    bindspell=2, late=True, fscope=False, v0=1, v1=2, v2=3, v3=4),
               dict(d0=True, d1=True, d2=False, d3=False, u0=True, u1=True, u2=False, u3=False, spell=3,
                    bindspell=1, late=True, fscope=False, v0=1, v1=2, v2=3, v3=4),
               dict(d0=True, d1=True, d2=True, d3=False, u0=False, u1=True, u2=True, u3=False, spell=4,
                    bindspell=0, late=False, fscope=True, v0=1, v1=2, v2=3, v3=4)],
        tiers={'quick': dict(split=dict(spell=[0, 1, 2, 3, 4], bindspell=[0, 1, 2], late=[False, True]),
                             fixed=dict(d3=False, u3=False, fscope=False), budget_s=100),
               'thorough': dict(split=dict(spell=[0, 1, 2, 3, 4], bindspell=[0, 1, 2], late=[False, True]),
                                budget_s=300)},
        bounds='macro names m, m/x, m/x/y (and x): every subset defined x every non-empty subset used, 5 spellings of '
               'the uses (%name, @name/macro(), @name/gin.macro() as dict values; %name as dict KEY and as key of a '
               'nested dict, with fixed distinct ints), 3 spellings of the definitions (tuple key, "name/macro.value", '
               '"%name"), definitions before or after the uses, finalize at empty scope or inside config_scope("amb"); '
               'values: all ints'),
    'c05_prefix_fscope': dict(
        fn='c05_prefix',
        anchors=['gin.config:validate_macros_hook', 'gin.config:config_scope'],
        smoke=[dict(d0=True, d1=True, d2=True, d3=False, u0=False, u1=True, u2=True, u3=False, spell=4,
                    bindspell=0, late=False, fscope=True, v0=1, v1=2, v2=3, v3=4)],
        tiers={'quick': dict(split=dict(spell=[0, 1, 2, 3, 4]),
                             fixed=dict(d3=False, u3=False, fscope=True, bindspell=0, late=False), budget_s=100)},
        bounds='c05_prefix with finalize() called inside config_scope("amb") (quick tier of c05_prefix pins the empty '
               'scope): names m, m/x, m/x/y, every subset defined x every non-empty subset used, 5 spellings of the '
               'uses, definitions by tuple key before the uses'),
    'c05_constants': dict(
        fn='c05_constants',
        anchors=['gin.config:constant', 'gin.config:_retrieve_constant', 'gin.config:macro'],
        smoke=[dict(n=3, d0=1, d1=2, d2=3, d3=0, q=1, with_macro=False),
               dict(n=2, d0=2, d1=1, d2=0, d3=0, q=0, with_macro=True)],
        tiers={'quick': dict(split=dict(d0=list(range(9)), q=list(range(9))), fixed=dict(n=3, d3=0),
                             budget_s=100),
               'thorough': dict(split=dict(d0=list(range(9)), d1=list(range(9)), q=list(range(9))),
                                fixed=dict(n=4), budget_s=600)},
        bounds='3 (quick) / 4 (thorough) definitions in every order from a 9-name family (shared suffixes, '
               '2 invalid names), then one of 9 query spellings, with or without a macro of the same name; '
               'identity of the delivered object'),
    'c05_const_order': dict(
        fn='c05_const_order',
        anchors=['gin.config:constant', 'gin.config:_retrieve_constant', 'gin.config:macro'],
        smoke=[dict(d0=1, d1=4, npre=1, q=0, with_macro=False),
               dict(d0=1, d1=2, npre=0, q=0, with_macro=True),
               dict(d0=5, d1=6, npre=2, q=4, with_macro=False),
               dict(d0=1, d1=0, npre=1, q=1, with_macro=False)],
        tiers={'quick': dict(split=dict(d0=list(range(7))), budget_s=150),
               'thorough': dict(split=dict(d0=list(range(7)), d1=list(range(7))), budget_s=300)},
        bounds='two constants from a 7-name family with shared suffixes, 0 / 1 / 2 of them defined BEFORE the use is '
               'parsed and the rest after it, 9 query spellings, with or without a macro of the same name defined last; '
               'the use parsed early keeps yielding the object it matched, a second use parsed at the end obeys the '
               'final table'),
    'c05_enum': dict(
        fn='c05_enum',
        anchors=['gin.config:constants_from_enum', 'gin.config:_retrieve_constant'],
        smoke=[dict(two=False, how=0, q=0, ncalls=2), dict(two=True, how=1, q=0, ncalls=1),
               dict(two=True, how=2, q=3, ncalls=1), dict(two=False, how=0, q=12, ncalls=2),
               dict(two=False, how=1, q=14, ncalls=1), dict(two=True, how=0, q=7, ncalls=1)],
        tiers={'quick': dict(split=dict(how=[0, 1, 2]), budget_s=100),
               'thorough': dict(split=dict(how=[0, 1, 2], two=[False, True]), budget_s=100)},
        bounds='constants generated by constants_from_enum (decorator with module=, direct call, or plain constant() '
               'calls) for one enum or two enums sharing a member name, plus constants whose values are None, 0, "", '
               'False, a nested list, {}, a function and a class; 17 query spellings (member, Class.member, full name, '
               'ambiguous member, unknown prefix, class name alone, the odd values); identity over 1-2 calls and '
               'through query_parameter; a non-enum class is a TypeError'),
}
