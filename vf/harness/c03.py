"""C03 - statements are recovered exactly, whatever the layout of the config text.

The layout model below turns (statement kinds, layout features) into text; the
real tokenizer and the real parser run on it natively (everything is concrete
once the F-choices are made), and the statement stream / resulting config must
equal the canonical one.  The solver's share here is the certificate that the
bounded F-space was covered completely (DESIGN.md section 3, last table row).
"""
import itertools
import re

import gin
from gin import config_parser
from vf import rt
from vf import world


class Delegate(config_parser.ParserDelegate):

  def configurable_reference(self, scoped_configurable_name, evaluate):
    return ('ref', scoped_configurable_name, evaluate)

  def macro(self, macro_name):
    return ('macro', macro_name)


# kind -> (canonical statements, renderer pieces)
#   binding: ('B', scope, selector, arg, value_text, value)
KINDS = [
    ('B', '', 'vw.dflt', 'a', '1', 1),
    ('B', 's1/s2', 'vw.dflt', 'b', "[1, 'two', (3,)]", [1, 'two', (3,)]),
    ('B', '', 'mac', '', "'x'", 'x'),                               # macro definition
    ('B', 'sc', 'mac', '', "{'k': [1, 2]}", {'k': [1, 2]}),          # scope-like macro
    ('I', 'os.path', False, None),
    ('I', 'os.path', False, 'osp'),
    ('I', 'os.path', True, None),
    ('I', 'os.path', True, 'p2'),
    ('N', 'inc.gin'),
    ('K', 's', 'vw.cons', [('p', '[1, 2]', [1, 2]), ('q', '%mac', ('macro', 'mac'))]),
    ('B', '', 'vw.cons', 'p', '@s/vw.src()', ('ref', 's/vw.src', True)),
    ('B', 'a', 'cons', 'q', '[@vw.src, %sc/mac]', [('ref', 'vw.src', False), ('macro', 'sc/mac')]),
    ('K', '', 'dflt', [('a', '-5', -5)]),
    # configurables whose (legal) names are statement keywords
    ('B', '', 'include', 'x', '1', 1),
    ('B', 's', 'import', 'x', "'v'", 'v'),
    ('K', '', 'include', [('x', '[2]', [2])]),
]
NK = len(KINDS)

# layout features: (blank lines before, comment line before, trailing comment,
#                   '=' spacing, value layout, block form, comment after block header,
#                   blank/comment lines inside the block)
DEFAULT = (0, 0, 0, 0, 0, 0, 0, 0)
RANGES = (3, 2, 2, 3, 3, 2, 2, 2)


def feature_sets():
  out = [DEFAULT]
  idx = range(len(RANGES))
  for i in idx:
    for v in range(1, RANGES[i]):
      f = list(DEFAULT); f[i] = v; out.append(tuple(f))
  for i, j in itertools.combinations(idx, 2):
    for v in range(1, RANGES[i]):
      for w in range(1, RANGES[j]):
        f = list(DEFAULT); f[i] = v; f[j] = w; out.append(tuple(f))
  return out


FEATS = feature_sets()
NF = len(FEATS)
EQ = [' = ', '=', '   =  ']


def split_value(text, mode, indent):
  """mode 0: as is; 1: broken after every bracket/comma inside brackets (only
  possible when the value is bracketed); 2: backslash continuation after '='."""
  if mode == 1 and text[0] in '[({':
    out = ''
    depth = 0
    for ch in text:
      out += ch
      if ch in '[({':
        depth += 1
      if ch in '])}':
        depth -= 1
      if depth > 0 and ch in '[({,':
        out += '  # why not\n' + indent + '    '
    return out
  return text


def render(kind, feat, indent):
  """Returns (lines, [(statement, line offset of its first token)])."""
  k = KINDS[kind]
  blank, cbefore, trailing, eq, vmode, block, chead, cinner = FEATS[feat]
  lines = [''] * blank
  if cbefore:
    lines.append(indent + '# a comment line')
  tail = '  # trailing' if trailing else ''
  stmts = []

  def binding_lines(key, vtext, ind):
    vtext = split_value(vtext, vmode, ind)
    if vmode == 2:
      first = ind + key + EQ[eq].rstrip() + ' \\'
      rest = ind + '      ' + vtext + tail
      return (first + '\n' + rest).split('\n')
    return (ind + key + EQ[eq] + vtext + tail).split('\n')

  if k[0] == 'B':
    _, scope, sel, arg, vtext, val = k
    if block and arg:
      lines.append(indent + (scope + '/' if scope else '') + sel + ':' +
                   ('  # header comment' if chead else ''))
      stmts.append((('block', scope, sel), len(lines) - 1))
      if cinner:
        lines.extend(['', indent + '  # inner comment'])
      bl = binding_lines(arg, vtext, indent + '  ')
      stmts.append((('bind', scope, sel, arg, val), len(lines)))
      lines.extend(bl)
    else:
      key = (scope + '/' if scope else '') + sel + ('.' + arg if arg else '')
      bl = binding_lines(key, vtext, indent)
      stmts.append((('bind', scope, sel, arg, val), len(lines)))
      lines.extend(bl)
  elif k[0] == 'I':
    _, module, is_from, alias = k
    if is_from:
      pkg, name = module.rsplit('.', 1)
      text = 'from %s import %s' % (pkg, name)
    else:
      text = 'import %s' % module
    if eq == 2:
      text = text.replace(' ', '   ')
    if alias:
      text += ' as ' + alias
    stmts.append((('import', module, is_from, alias), len(lines)))
    lines.append(indent + text + tail)
  elif k[0] == 'N':
    stmts.append((('include', k[1]), len(lines)))
    if vmode == 2:
      lines.append(indent + 'include \\')
      lines.append(indent + "    '%s'" % k[1] + tail)
    else:
      lines.append(indent + "include '%s'" % k[1] + tail)
  else:
    _, scope, sel, members = k
    lines.append(indent + (scope + '/' if scope else '') + sel + ':' +
                 ('  # header comment' if chead else ''))
    stmts.append((('block', scope, sel), len(lines) - 1))
    for n, (arg, vtext, val) in enumerate(members):
      if cinner:
        lines.extend(['', indent + '      # inner comment'] if n else [indent + '  # inner comment'])
      stmts.append((('bind', scope, sel, arg, val), len(lines)))
      lines.extend(binding_lines(arg, vtext, indent + '  '))
  return lines, stmts


def canon(st):
  if isinstance(st, config_parser.BindingStatement):
    return ('bind', st.scope, st.selector, st.arg_name, st.value)
  if isinstance(st, config_parser.BlockDeclaration):
    return ('block', st.scope, st.selector)
  if isinstance(st, config_parser.ImportStatement):
    return ('import', st.module, st.is_from, st.alias)
  if isinstance(st, config_parser.IncludeStatement):
    return ('include', st.filename)
  return ('?', st)


K2_QUICK = [0, 9, 4]   # neighbours used by the quick tier: flat binding, block, import


def c03_layout(nk2: int, nf2: int, k1: int, f1: int, k2: int, f2: int, k3: int, f3: int, n: int,
               swap: bool, indent_all: bool, final_nl: bool) -> bool:
  """
  pre: 0 <= k1 < 16 and 0 <= k2 < nk2 and 0 <= k3 < 16 and 1 <= n <= 3
  pre: 0 <= f1 < 64 and 0 <= f2 < nf2 and 0 <= f3 < 64
  """
  k2 = rt.pick(k2, nk2)
  if nk2 == 3:
    k2 = K2_QUICK[k2]
  ks = [rt.pick(k1, NK), k2, rt.pick(k3, NK)][:n]
  fs = [rt.pick(f1, NF), rt.pick(f2, nf2), rt.pick(f3, NF)][:n]
  indent_all, final_nl, swap = rt.flag(indent_all), rt.flag(final_nl), rt.flag(swap)
  if swap:
    ks[0], ks[1] = ks[1], ks[0]
    fs[0], fs[1] = fs[1], fs[0]
  with rt.native():
    world.fresh()
    indent = '  ' if indent_all else ''
    lines, expected = [], []
    for k, f in zip(ks, fs):
      ls, sts = render(k, f, indent)
      for st, off in sts:
        expected.append((st, len(lines) + off + 1))
      lines.extend(ls)
    text = '\n'.join(lines) + ('\n' if final_nl else '')
    rt.sig(('layout', tuple(ks), tuple(fs), indent_all, final_nl),
           nontrivial=any(f != 0 for f in fs) or indent_all or not final_nl)
    # ---- statement stream of the real parser ---------------------------------------
    got = []
    for st in config_parser.ConfigParser(text, Delegate()):
      got.append((canon(st), st.location.line_num))
    if got != expected:
      if __import__('os').environ.get('VERIF_EXPLAIN'):
        print('TEXT', repr(text)); print('GOT', got); print('EXP', expected)
      return False
    # ---- same configuration as the canonical flat layout ------------------------------
    def load(t):
      world.fresh()
      world.use_mem_fs({'inc.gin': 'vw.src2.v = 77\n'})
      gin.parse_config(t)
      # the configuration: every binding line of the config string plus the set of
      # recorded imports (which import *line* survives de-duplication when one module
      # is imported under two aliases is the serialiser's business, i.e. C06's)
      body = [l for l in gin.config_str().split('\n')
              if not l.startswith(('import ', 'from '))]
      imports = sorted((i.module, i.is_from, i.alias or '') for i in gin.config._IMPORTS)
      return body, imports
    canon_lines = []
    for k in ks:
      canon_lines.extend(render(k, 0, '')[0])
    a = load(text)
    b = load('\n'.join(canon_lines) + '\n')
    return a == b


SEL_TOK = ['a', 'b1', '/', '.', '_c']
NTOK = 4   # '_c' only widens the vocabulary without adding parser behaviour
CONTEXTS = ['binding key', 'block header', '@ value', '% value', 'import', 'from import']
_ID = r'[A-Za-z_]\w*'
RE_KEY = re.compile(r'^(%s/)*%s(\.%s)*$' % (_ID, _ID, _ID))
RE_REF = re.compile(r'^(%s(\.%s)*/)*%s(\.%s)*$' % (_ID, _ID, _ID, _ID))
RE_MOD = re.compile(r'^%s(\.%s)*$' % (_ID, _ID))


def c03_selectors(ngap: int, ctx: int, n: int, t0: int, t1: int, t2: int, t3: int, t4: int,
                  g1: int, g2: int, g3: int, g4: int) -> bool:
  """
  pre: 0 <= ctx < 6 and 1 <= n <= 5
  pre: 0 <= t0 < 4 and 0 <= t1 < 4 and 0 <= t2 < 4 and 0 <= t3 < 4 and 0 <= t4 < 4
  pre: 0 <= g1 < ngap and 0 <= g2 < ngap and 0 <= g3 < ngap and 0 <= g4 < ngap
  """
  ctx = rt.pick(ctx, 6)
  toks = [rt.pick(t, 4) for t in (t0, t1, t2, t3, t4)[:n]]
  gaps = [0] + [rt.pick(g, ngap) for g in (g1, g2, g3, g4)[:n - 1]]
  with rt.native():
    world.fresh()
    gap_txt = ['', ' ', '\t', '\\\n']        # nothing / space / TAB / backslash-newline continuation
    sel = ''.join(gap_txt[g] + SEL_TOK[t] for g, t in zip(gaps, toks))
    joined = ''.join(SEL_TOK[t] for t in toks)
    tight = all(g == 0 for g in gaps)
    rt.sig(('selector', ctx, tuple(toks), tuple(gaps)), nontrivial=n >= 2)
    if ctx == 0:
      text = sel + ' = 1\n'
      ok = tight and bool(RE_KEY.match(joined))
    elif ctx == 1:
      text = sel + ':\n  p = 1\n'
      ok = tight and bool(RE_KEY.match(joined))
    elif ctx == 2:
      text = 'x.p = [1, @' + sel + ', 2]\n'
      ok = tight and bool(RE_REF.match(joined))
    elif ctx == 3:
      text = 'x.p = %' + sel + '\n'
      ok = tight and bool(RE_REF.match(joined))
    elif ctx == 4:
      text = 'import ' + sel + '\n'
      ok = tight and bool(RE_MOD.match(joined))
    else:
      text = 'from ' + sel + ' import zz\n'
      ok = tight and bool(RE_MOD.match(joined))
    # two adjacent NAME tokens with a gap are two tokens for Python too; without a
    # gap they are ONE identifier: the reference works on the text, as a reader does
    try:
      got = [canon(st) for st in config_parser.ConfigParser(text, Delegate())]
    except SyntaxError:
      got = None
    except Exception:
      return False
    special = joined in ('import', 'from', 'include') or (ctx == 0 and False)
    if not ok:
      if got is None:
        return True
      # 'a b' style texts are not selectors at all; the parser must not have
      # produced a statement that names a repaired selector
      return False
    if got is None:
      return False
    scope, _, rest = joined.rpartition('/')
    if ctx == 0:
      s2, _, arg = rest.rpartition('.')
      want = [('bind', scope, s2 if s2 else arg, arg if s2 else '', 1)]
    elif ctx == 1:
      want = [('block', scope, rest), ('bind', scope, rest, 'p', 1)]
    elif ctx == 2:
      want = [('bind', '', 'x', 'p', [1, ('ref', joined, False), 2])]
    elif ctx == 3:
      want = [('bind', '', 'x', 'p', ('macro', joined))]
    elif ctx == 4:
      want = [('import', joined, False, None)]
    else:
      want = [('import', joined + '.zz', True, None)]
    return got == want


HARNESSES = {
    'c03_layout': dict(
        fn='c03_layout',
        anchors=['gin.config_parser:parse_statement', 'gin.config_parser:_parse_binding_block',
                 'gin.config_parser:_parse_import', 'gin.config_parser:_parse_selector',
                 'gin.config:parse_config'],
        smoke=[dict(nk2=13, nf2=64, k1=1, f1=5, k2=9, f2=20, k3=6, f3=33, n=3, swap=False,
                    indent_all=False, final_nl=True),
               dict(nk2=13, nf2=64, k1=8, f1=8, k2=12, f2=12, k3=0, f3=0, n=2, swap=True,
                    indent_all=True, final_nl=False)],
        tiers={'quick': dict(split=dict(k1=list(range(NK)), indent_all=[False, True]),
                             fixed=dict(n=2, k3=0, f3=0, nk2=3, nf2=1), budget_s=100),
               'thorough': dict(split=dict(k1=list(range(NK)), k2=list(range(NK)),
                                           indent_all=[False, True]),
                                fixed=dict(n=2, k3=0, f3=0, nk2=16, nf2=3), budget_s=900)},
        bounds='2 statements in either order: one from 16 kinds with every combination of at most two of 8 layout features, the other from 3 kinds in default layout (quick) / 13 kinds x {default, 1 or 2 blank lines before} (thorough); kinds: (flat/scoped bindings, macro definitions, 4 import '
               'forms, include, blocks, reference/macro values, configurables named `include` / `import` in flat and block form); per statement every combination of at most two of 8 '
               'layout features (blank lines, comment line, trailing comment, 3 spacings of =, value broken inside '
               'brackets with comments, backslash continuation, flat vs block, header comment, blank/comment lines '
               'inside the block); whole text indented or not; final newline or not'),
    'c03_selectors': dict(
        fn='c03_selectors',
        anchors=['gin.config_parser:_parse_selector', 'gin.config_parser:parse_binding_key'],
        smoke=[dict(ngap=3, ctx=0, n=5, t0=0, t1=2, t2=1, t3=3, t4=0, g1=0, g2=0, g3=0, g4=0),
               dict(ngap=3, ctx=2, n=3, t0=0, t1=2, t2=1, t3=0, t4=0, g1=1, g2=0, g3=0, g4=0)],
        tiers={'quick': dict(split=dict(ctx=list(range(6)), t0=list(range(4))), fixed=dict(n=4, ngap=2, t4=0, g4=0),
                             budget_s=100),
               'thorough': dict(split=dict(ctx=list(range(6)), t0=list(range(4)), t1=list(range(4))),
                                fixed=dict(n=5, ngap=2), budget_s=900)},
        bounds='selector = 4 (quick) / 5 (thorough) tokens over {a, b1, /, .} with a gap of none / one space '
               'before each, in 6 contexts (binding key, block header, @ value, % value, import, from-import)'),
    'c03_selectors_ws': dict(
        fn='c03_selectors',
        anchors=['gin.config_parser:_parse_selector'],
        smoke=[dict(ngap=4, ctx=0, n=3, t0=0, t1=2, t2=1, t3=0, t4=0, g1=0, g2=2, g3=0, g4=0),
               dict(ngap=4, ctx=2, n=3, t0=0, t1=2, t2=1, t3=0, t4=0, g1=3, g2=0, g3=0, g4=0)],
        tiers={'quick': dict(split=dict(ctx=list(range(6)), t0=list(range(4))),
                             fixed=dict(n=3, ngap=4, t3=0, t4=0, g3=0, g4=0), budget_s=100),
               'thorough': dict(split=dict(ctx=list(range(6)), t0=list(range(4)), t1=list(range(4))),
                                fixed=dict(n=4, ngap=4, t4=0, g4=0), budget_s=900)},
        bounds='selector = 3 (quick) / 4 (thorough) tokens with a gap of none / space / TAB / backslash-newline '
               'continuation before each, in the same 6 contexts'),
}
RULE = 'one case per distinct (statement kinds, layout features) / (context, tokens, gaps) tuple; non-trivial: some non-default layout feature / at least two tokens'
SOLVER_ROLE = ('certifies coverage: once the F-choices are made everything is concrete text, which the real tokenizer and parser '
               'process natively; the solver contributes the proof (CONFIRMED) that the bounded choice space was covered completely')
OUTSIDE = 'tabs for indentation, CRLF line ends, form feeds; more than 2 statements per text in the layout harness; more than two non-default layout features per statement'
