"""C03 - statements are recovered exactly, whatever the layout of the config text.

The layout model below turns (statement kinds, layout features) into text; the
real tokenizer and the real parser run on it natively (everything is concrete
once the F-choices are made), and the statement stream / resulting config must
equal the canonical one.  The solver's share here is the certificate that the
bounded F-space was covered completely (DESIGN.md section 3, last table row).
"""
import itertools
import re

import gin
from gin import config_parser
from vf import rt
from vf import world


class Delegate(config_parser.ParserDelegate):

  def configurable_reference(self, scoped_configurable_name, evaluate):
    return ('ref', scoped_configurable_name, evaluate)

  def macro(self, macro_name):
    return ('macro', macro_name)


# kind -> (canonical statements, renderer pieces)
#   binding: ('B', scope, selector, arg, value_text, value)
KINDS = [
    ('B', '', 'vw.dflt', 'a', '1', 1),
    ('B', 's1/s2', 'vw.dflt', 'b', "[1, 'two', (3,)]", [1, 'two', (3,)]),
    ('B', '', 'mac', '', "'x'", 'x'),                               # macro definition
    ('B', 'sc', 'mac', '', "{'k': [1, 2]}", {'k': [1, 2]}),          # scope-like macro
    ('I', 'os.path', False, None),
    ('I', 'os.path', False, 'osp'),
    ('I', 'os.path', True, None),
    ('I', 'os.path', True, 'p2'),
    ('N', 'inc.gin'),
    ('K', 's', 'vw.cons', [('p', '[1, 2]', [1, 2]), ('q', '%mac', ('macro', 'mac'))]),
    ('B', '', 'vw.cons', 'p', '@s/vw.src()', ('ref', 's/vw.src', True)),
    ('B', 'a', 'cons', 'q', '[@vw.src, %sc/mac]', [('ref', 'vw.src', False), ('macro', 'sc/mac')]),
    ('K', '', 'dflt', [('a', '-5', -5)]),
    # configurables whose (legal) names are statement keywords
    ('B', '', 'include', 'x', '1', 1),
    ('B', 's', 'import', 'x', "'v'", 'v'),
    ('K', '', 'include', [('x', '[2]', [2])]),
]
NK = len(KINDS)

# layout features: (blank lines before, comment line before, trailing comment,
#                   '=' spacing, value layout, block form, comment after block header,
#                   blank/comment lines inside the block)
DEFAULT = (0, 0, 0, 0, 0, 0, 0, 0)
RANGES = (3, 2, 2, 3, 3, 2, 2, 2)


def feature_sets():
  out = [DEFAULT]
  idx = range(len(RANGES))
  for i in idx:
    for v in range(1, RANGES[i]):
      f = list(DEFAULT); f[i] = v; out.append(tuple(f))
  for i, j in itertools.combinations(idx, 2):
    for v in range(1, RANGES[i]):
      for w in range(1, RANGES[j]):
        f = list(DEFAULT); f[i] = v; f[j] = w; out.append(tuple(f))
  return out


FEATS = feature_sets()
NF = len(FEATS)
EQ = [' = ', '=', '   =  ']


def split_value(text, mode, indent):
  """mode 0: as is; 1: broken after every bracket/comma inside brackets (only
  possible when the value is bracketed); 2: backslash continuation after '='."""
  if mode == 1 and text[0] in '[({':
    out = ''
    depth = 0
    for ch in text:
      out += ch
      if ch in '[({':
        depth += 1
      if ch in '])}':
        depth -= 1
      if depth > 0 and ch in '[({,':
        out += '  # why not\n' + indent + '    '
    return out
  return text


def render(kind, feat, indent):
  """Returns (lines, [(statement, line offset of its first token)])."""
  k = KINDS[kind]
  blank, cbefore, trailing, eq, vmode, block, chead, cinner = FEATS[feat]
  lines = [''] * blank
  if cbefore:
    lines.append(indent + '# a comment line')
  tail = '  # trailing' if trailing else ''
  stmts = []

  def binding_lines(key, vtext, ind):
    vtext = split_value(vtext, vmode, ind)
    if vmode == 2:
      first = ind + key + EQ[eq].rstrip() + ' \\'
      rest = ind + '      ' + vtext + tail
      return (first + '\n' + rest).split('\n')
    return (ind + key + EQ[eq] + vtext + tail).split('\n')

  if k[0] == 'B':
    _, scope, sel, arg, vtext, val = k
    if block and arg:
      lines.append(indent + (scope + '/' if scope else '') + sel + ':' +
                   ('  # header comment' if chead else ''))
      stmts.append((('block', scope, sel), len(lines) - 1))
      if cinner:
        lines.extend(['', indent + '  # inner comment'])
      bl = binding_lines(arg, vtext, indent + '  ')
      stmts.append((('bind', scope, sel, arg, val), len(lines)))
      lines.extend(bl)
    else:
      key = (scope + '/' if scope else '') + sel + ('.' + arg if arg else '')
      bl = binding_lines(key, vtext, indent)
      stmts.append((('bind', scope, sel, arg, val), len(lines)))
      lines.extend(bl)
  elif k[0] == 'I':
    _, module, is_from, alias = k
    if is_from:
      pkg, name = module.rsplit('.', 1)
      text = 'from %s import %s' % (pkg, name)
    else:
      text = 'import %s' % module
    if eq == 2:
      text = text.replace(' ', '   ')
    if alias:
      text += ' as ' + alias
    stmts.append((('import', module, is_from, alias), len(lines)))
    lines.append(indent + text + tail)
  elif k[0] == 'N':
    stmts.append((('include', k[1]), len(lines)))
    if vmode == 2:
      lines.append(indent + 'include \\')
      lines.append(indent + "    '%s'" % k[1] + tail)
    else:
      lines.append(indent + "include '%s'" % k[1] + tail)
  else:
    _, scope, sel, members = k
    lines.append(indent + (scope + '/' if scope else '') + sel + ':' +
                 ('  # header comment' if chead else ''))
    stmts.append((('block', scope, sel), len(lines) - 1))
    for n, (arg, vtext, val) in enumerate(members):
      if cinner:
        lines.extend(['', indent + '      # inner comment'] if n else [indent + '  # inner comment'])
      stmts.append((('bind', scope, sel, arg, val), len(lines)))
      lines.extend(binding_lines(arg, vtext, indent + '  '))
  return lines, stmts


def canon(st):
  if isinstance(st, config_parser.BindingStatement):
    return ('bind', st.scope, st.selector, st.arg_name, st.value)
  if isinstance(st, config_parser.BlockDeclaration):
    return ('block', st.scope, st.selector)
  if isinstance(st, config_parser.ImportStatement):
    return ('import', st.module, st.is_from, st.alias)
  if isinstance(st, config_parser.IncludeStatement):
    return ('include', st.filename)
  return ('?', st)


K2_QUICK = [0, 9, 4]   # neighbours used by the quick tier: flat binding, block, import


def c03_layout(nk2: int, nf2: int, k1: int, f1: int, k2: int, f2: int, k3: int, f3: int, n: int,
               swap: bool, indent_all: bool, final_nl: bool) -> bool:
  """
  pre: 0 <= k1 < 16 and 0 <= k2 < nk2 and 0 <= k3 < 16 and 1 <= n <= 3
  pre: 0 <= f1 < 64 and 0 <= f2 < nf2 and 0 <= f3 < 64
  """
  k2 = rt.pick(k2, nk2)
  if nk2 == 3:
    k2 = K2_QUICK[k2]
  ks = [rt.pick(k1, NK), k2, rt.pick(k3, NK)][:n]
  fs = [rt.pick(f1, NF), rt.pick(f2, nf2), rt.pick(f3, NF)][:n]
  indent_all, final_nl, swap = rt.flag(indent_all), rt.flag(final_nl), rt.flag(swap)
  if swap:
    ks[0], ks[1] = ks[1], ks[0]
    fs[0], fs[1] = fs[1], fs[0]
  with rt.native():
    world.fresh()
    indent = '  ' if indent_all else ''
    lines, expected = [], []
    for k, f in zip(ks, fs):
      ls, sts = render(k, f, indent)
      for st, off in sts:
        expected.append((st, len(lines) + off + 1))
      lines.extend(ls)
    text = '\n'.join(lines) + ('\n' if final_nl else '')
    rt.sig(('layout', tuple(ks), tuple(fs), indent_all, final_nl),
           nontrivial=any(f != 0 for f in fs) or indent_all or not final_nl)
    # ---- statement stream of the real parser ---------------------------------------
    got = []
    for st in config_parser.ConfigParser(text, Delegate()):
      got.append((canon(st), st.location.line_num))
    if got != expected:
      if __import__('os').environ.get('VERIF_EXPLAIN'):
        print('TEXT', repr(text)); print('GOT', got); print('EXP', expected)
      return False
    # ---- same configuration as the canonical flat layout ------------------------------
    def load(t):
      world.fresh()
      world.use_mem_fs({'inc.gin': 'vw.src2.v = 77\n'})
      gin.parse_config(t)
      # the configuration: every binding line of the config string plus the set of
      # recorded imports (which import *line* survives de-duplication when one module
      # is imported under two aliases is the serialiser's business, i.e. C06's)
      body = [l for l in gin.config_str().split('\n')
              if not l.startswith(('import ', 'from '))]
      imports = sorted((i.module, i.is_from, i.alias or '') for i in gin.config._IMPORTS)
      return body, imports
    canon_lines = []
    for k in ks:
      canon_lines.extend(render(k, 0, '')[0])
    a = load(text)
    b = load('\n'.join(canon_lines) + '\n')
    return a == b


SEL_TOK = ['a', 'b1', '/', '.', '_c']
NTOK = 4   # '_c' only widens the vocabulary without adding parser behaviour
CONTEXTS = ['binding key', 'block header', '@ value', '% value', 'import', 'from import',
            'evaluated @ value after non-ASCII text on the line']
_ID = r'[A-Za-z_]\w*'
RE_KEY = re.compile(r'^(%s/)*%s(\.%s)*$' % (_ID, _ID, _ID))
RE_REF = re.compile(r'^(%s(\.%s)*/)*%s(\.%s)*$' % (_ID, _ID, _ID, _ID))
RE_MOD = re.compile(r'^%s(\.%s)*$' % (_ID, _ID))


def c03_selectors(ngap: int, ctx: int, n: int, t0: int, t1: int, t2: int, t3: int, t4: int,
                  g1: int, g2: int, g3: int, g4: int) -> bool:
  """
  pre: 0 <= ctx < 7 and 1 <= n <= 5
  pre: 0 <= t0 < 4 and 0 <= t1 < 4 and 0 <= t2 < 4 and 0 <= t3 < 4 and 0 <= t4 < 4
  pre: 0 <= g1 < ngap and 0 <= g2 < ngap and 0 <= g3 < ngap and 0 <= g4 < ngap
  """
  ctx = rt.pick(ctx, 7)
  toks = [rt.pick(t, 4) for t in (t0, t1, t2, t3, t4)[:n]]
  gaps = [0] + [rt.pick(g, ngap) for g in (g1, g2, g3, g4)[:n - 1]]
  with rt.native():
    world.fresh()
    gap_txt = ['', ' ', '\t', '\\\n']        # nothing / space / TAB / backslash-newline continuation
    sel = ''.join(gap_txt[g] + SEL_TOK[t] for g, t in zip(gaps, toks))
    joined = ''.join(SEL_TOK[t] for t in toks)
    tight = all(g == 0 for g in gaps)
    rt.sig(('selector', ctx, tuple(toks), tuple(gaps)), nontrivial=n >= 2)
    if ctx == 0:
      text = sel + ' = 1\n'
      ok = tight and bool(RE_KEY.match(joined))
    elif ctx == 1:
      text = sel + ':\n  p = 1\n'
      ok = tight and bool(RE_KEY.match(joined))
    elif ctx == 2:
      text = 'x.p = [1, @' + sel + ', 2]\n'
      ok = tight and bool(RE_REF.match(joined))
    elif ctx == 3:
      text = 'x.p = %' + sel + '\n'
      ok = tight and bool(RE_REF.match(joined))
    elif ctx == 4:
      text = 'import ' + sel + '\n'
      ok = tight and bool(RE_MOD.match(joined))
    elif ctx == 6:
      text = "x.p = ['\u00e9\u65e5', @" + sel + '(), 2]\n'
      ok = tight and bool(RE_REF.match(joined))
    else:
      text = 'from ' + sel + ' import zz\n'
      ok = tight and bool(RE_MOD.match(joined))
    # two adjacent NAME tokens with a gap are two tokens for Python too; without a
    # gap they are ONE identifier: the reference works on the text, as a reader does
    try:
      got = [canon(st) for st in config_parser.ConfigParser(text, Delegate())]
    except SyntaxError:
      got = None
    except Exception:
      return False
    special = joined in ('import', 'from', 'include') or (ctx == 0 and False)
    if not ok:
      if got is None:
        return True
      # 'a b' style texts are not selectors at all; the parser must not have
      # produced a statement that names a repaired selector
      return False
    if got is None:
      return False
    scope, _, rest = joined.rpartition('/')
    if ctx == 0:
      s2, _, arg = rest.rpartition('.')
      want = [('bind', scope, s2 if s2 else arg, arg if s2 else '', 1)]
    elif ctx == 1:
      want = [('block', scope, rest), ('bind', scope, rest, 'p', 1)]
    elif ctx == 2:
      want = [('bind', '', 'x', 'p', [1, ('ref', joined, False), 2])]
    elif ctx == 3:
      want = [('bind', '', 'x', 'p', ('macro', joined))]
    elif ctx == 4:
      want = [('import', joined, False, None)]
    elif ctx == 6:
      want = [('bind', '', 'x', 'p', ['\u00e9\u65e5', ('ref', joined, True), 2])]
    else:
      want = [('import', joined + '.zz', True, None)]
    return got == want



# ------------------------------------------------------------------------------------------
# c03_texts: a catalogue of statement texts the renderer above cannot produce, each placed in a
# context (statement before / after, own indentation, member indentation, line terminator,
# final newline).  Every entry has a class:
#   'A'  the statement decides: the text spells exactly these statements (layout dimension named
#        in the statement: comments, blank lines, backslash continuation, indentation of blocks,
#        flat vs block, trailing newline)
#   'R'  the text is not a statement sequence (or holds a scoped name with inner whitespace /
#        empty component / misplaced separator): it must be rejected, and nothing of it may reach
#        the configuration
#   'M'  the statement is silent (spacing it does not name, form feeds, keyword-like names ...):
#        either rejected, or read as exactly these statements - never as something else
# Placeholders: {I} indentation of the entry, {M} additional indentation of block members.
# flags: 'raw' (text must not be re-indented / re-terminated), 'last' (only as the last thing of
# the text), 'blk' (contains a block header: indentation of it is "indentation of blocks").
def _b(scope, sel, arg, val):
  return ('bind', scope, sel, arg, val)


_SRC = ('ref', 's/vw.src', False)
_SRCE = ('ref', 's/vw.src', True)
_HDR = ('block', 's', 'vw.cons')
_P1 = _b('s', 'vw.cons', 'p', 1)
_Q2 = _b('s', 'vw.cons', 'q', 2)
_FP = lambda v: [(1, _b('', 'vw.cons', 'p', v))]
_ML = "'''a\nb'''"    # a string token that spans two physical lines


def _rej(tag, text, flags=''):
  return (tag, 'R', text, None, flags, None)


GROUPS = {
    # ---- blocks the renderer cannot produce (review item 3) and degenerate texts (item 10) ----
    'blocks': [
        ('blk2', 'A', '{I}s/vw.cons:\n{I}{M}p = 1\n{I}{M}q = 2\n', [(1, _HDR), (2, _P1), (3, _Q2)], 'blk', None),
        ('blk-col0-comment-and-blank-between', 'A', '{I}s/vw.cons:\n{I}{M}p = 1\n# c\n   \n{I}{M}q = 2\n',
         [(1, _HDR), (2, _P1), (5, _Q2)], 'blk', None),
        ('blk-bracket-lines-dedented', 'A', '{I}s/vw.cons:\n{I}{M}p = [1,\n2]\n{I}{M}q = 3\n',
         [(1, _HDR), (2, _b('s', 'vw.cons', 'p', [1, 2])), (4, _b('s', 'vw.cons', 'q', 3))], 'blk', None),
        ('blk-last-line-comment', 'A', '{I}s/vw.cons:\n{I}{M}p = 1\n{I}{M}# last\n', [(1, _HDR), (2, _P1)], 'blk', None),
        ('blk-last-line-comment-col0', 'A', '{I}s/vw.cons:\n{I}{M}p = 1\n# last\n', [(1, _HDR), (2, _P1)], 'blk', None),
        ('blk-comments-at-odd-indents', 'A',
         '{I}s/vw.cons:\n{I}{M}p = 1\n{I}{M}{M}# deeper\n{I} # shallower\n{I}{M}q = 2\n',
         [(1, _HDR), (2, _P1), (5, _Q2)], 'blk', None),
        ('blk-header-comment-tight-then-col0-lines', 'A', '{I}s/vw.cons:# c\n\n# c2\n{I}{M}p = 1\n',
         [(1, _HDR), (4, _P1)], 'blk', None),
        ('blk-member-continuation-dedented', 'A', '{I}s/vw.cons:\n{I}{M}p = \\\n@s/vw.src()\n{I}{M}q = 2\n',
         [(1, _HDR), (2, _b('s', 'vw.cons', 'p', _SRCE)), (4, _Q2)], 'blk', None),
        ('blk-space-before-colon', 'M', '{I}s/vw.cons :\n{I}{M}p = 1\n', [(1, _HDR), (2, _P1)], 'blk',
         '{I}s/vw.cons.p = 1\n'),
        ('blk-spaces-colon-comment', 'M', '{I}s/vw.cons  :  # c\n{I}{M}p = 1\n', [(1, _HDR), (2, _P1)], 'blk', None),
        ('blk-members-unequal-indent', 'M', '{I}s/vw.cons:\n{I}{M}{M}p = 1\n{I}{M}q = 2\n',
         [(1, _HDR), (2, _P1), (3, _Q2)], 'blk', None),
        ('blk-dedent-to-unknown-level', 'M', '  s/vw.cons:\n    p = 1\n vw.dflt.b = 3\n',
         [(1, _HDR), (2, _P1), (3, _b('', 'vw.dflt', 'b', 3))], 'raw blk', None),
        ('flat-dedent-to-unknown-level', 'M', '    vw.cons.p = 1\n  vw.cons.q = 2\n',
         [(1, _b('', 'vw.cons', 'p', 1)), (2, _b('', 'vw.cons', 'q', 2))], 'raw', None),
        ('blk-tab-then-spaces', 'M', 's/vw.cons:\n\tp = 1\n        q = 2\n', [(1, _HDR), (2, _P1), (3, _Q2)],
         'raw blk', None),
        # zero statements
        ('nothing', 'A', '', [], '', None),
        ('comment-only', 'A', '{I}# only\n', [], '', None),
        ('spaces-only', 'A', '   \n', [], '', None),
        ('blank-lines', 'A', '\n\n\n', [], '', None),
        ('lone-backslash-line', 'M', '\\\n', [], 'last', None),
        ('formfeed-line', 'M', '\f\n', [], '', None),
        ('formfeed-before-statement', 'M', '\f{I}vw.cons.p = 1\n', _FP(1), '', None),
        ('formfeed-after-statement', 'M', '{I}vw.cons.p = 1\f\n', _FP(1), '', None),
        ('formfeed-before-member', 'M', '{I}s/vw.cons:\n\f{I}{M}p = 1\n', [(1, _HDR), (2, _P1)], 'blk', None),
        ('formfeed-inside-member-indent', 'M', '{I}s/vw.cons:\n{I}{M}\fp = 1\n', [(1, _HDR), (2, _P1)], 'blk', None),
        ('lone-cr-line-ends', 'M', 'vw.cons.p = 1\rvw.cons.q = 2\r',
         [(1, _b('', 'vw.cons', 'p', 1)), (2, _b('', 'vw.cons', 'q', 2))], 'raw last', None),
    ],
    # ---- malformed blocks (item 2) ---------------------------------------------------------
    'badblocks': [
        _rej('blk-empty', '{I}s/vw.cons:\n'),
        _rej('blk-comment-only', '{I}s/vw.cons:\n{I}{M}# c\n'),
        _rej('blk-unindented-member', '{I}s/vw.cons:\n{I}p = 1\n'),
        _rej('blk-member-on-header-line', '{I}s/vw.cons: p = 1\n'),
        _rej('blk-deeper-second-member', '{I}s/vw.cons:\n{I}{M}p = 1\n{I}{M}{M}q = 2\n'),
        _rej('blk-nested-header', '{I}s/vw.cons:\n{I}{M}vw.dflt:\n{I}{M}{M}a = 1\n'),
        _rej('blk-dotted-member', '{I}s/vw.cons:\n{I}{M}vw.cons.p = 1\n'),
        _rej('blk-dotted-member-2', '{I}s/vw:\n{I}{M}cons.p = 1\n'),
        _rej('blk-scoped-member', '{I}vw.cons:\n{I}{M}s/p = 1\n'),
        _rej('blk-import-inside', '{I}s/vw.cons:\n{I}{M}import os\n'),
        _rej('blk-include-inside', "{I}s/vw.cons:\n{I}{M}include 'inc.gin'\n"),
        _rej('blk-header-continuation', '{I}s/vw.cons:\\\n{I}{M}p = 1\n'),
        _rej('blk-member-two-names', '{I}s/vw.cons:\n{I}{M}p q = 1\n'),
        _rej('blk-good-member-then-bare-name', '{I}s/vw.cons:\n{I}{M}p = 1\n{I}{M}q\n'),
        _rej('blk-good-member-then-two-values', '{I}s/vw.cons:\n{I}{M}p = 1\n{I}{M}q = 2 3\n'),
        _rej('blk-member-colon', '{I}s/vw.cons:\n{I}{M}p: 1\n'),
        _rej('blk-two-colons', '{I}s/vw.cons::\n{I}{M}p = 1\n'),
        _rej('blk-header-with-value', '{I}s/vw.cons: 1\n{I}{M}p = 1\n'),
    ],
    # ---- statement parts on different physical lines (item 4), joining near-misses (item 12) --
    'joins': [
        ('cont-before-eq', 'A', '{I}vw.cons.p \\\n{I} = 1\n', _FP(1), '', None),
        ('cont-after-import', 'A', '{I}import \\\n{I} os.path\n', [(1, ('import', 'os.path', False, None))], '', None),
        ('cont-before-as', 'A', '{I}import os.path \\\n{I}  as osq\n', [(1, ('import', 'os.path', False, 'osq'))], '',
         None),
        ('cont-before-from-import', 'A', '{I}from os \\\n{I} import path\n', [(1, ('import', 'os.path', True, None))],
         '', None),
        ('cont-after-from-import', 'A', '{I}from os import \\\n{I} path\n', [(1, ('import', 'os.path', True, None))],
         '', None),
        ('cont-before-from-as', 'A', '{I}from os import path \\\nas pq\n', [(1, ('import', 'os.path', True, 'pq'))],
         '', None),
        ('cont-then-empty-line', 'M', '{I}vw.cons.p = 1 \\\n\n', _FP(1), '', None),
        ('comment-swallows-rest', 'A', '{I}vw.cons.p = 1 # c ; vw.cons.q = 2\n', _FP(1), '', None),
        _rej('comment-splits-before-eq', '{I}vw.cons.p # c\n{I} = 1\n'),
        _rej('comment-splits-after-eq', '{I}vw.cons.p = # c\n{I} 1\n'),
        _rej('comment-splits-import', '{I}import # c\n{I} os\n'),
        _rej('newline-after-eq', '{I}vw.cons.p =\n{I}1\n'),
        _rej('semicolon-join', '{I}vw.cons.p = 1; vw.cons.q = 2\n'),
        _rej('space-join', '{I}vw.cons.p = 1 vw.cons.q = 2\n'),
        _rej('continuation-join', '{I}vw.cons.p = 1 \\\n{I} vw.cons.q = 2\n'),
        _rej('double-eq', '{I}vw.cons.p == 1\n'),
        _rej('walrus', '{I}vw.cons.p := 1\n'),
        _rej('plus-eq', '{I}vw.cons.p += 1\n'),
        _rej('eq-eq-spaced', '{I}vw.cons.p = = 1\n'),
        _rej('annotated', '{I}vw.cons.p: int = 1\n'),
        _rej('colon-value', '{I}vw.cons: 1\n'),
        _rej('bare-key', '{I}vw.cons.p\n'),
        _rej('bare-name', '{I}vw\n'),
        _rej('two-eq', '{I}vw.cons.p = 1 = 2\n'),
        _rej('trailing-comma', '{I}vw.cons.p = 1,\n'),
        _rej('bare-tuple', '{I}vw.cons.p = 1, 2\n'),
        _rej('no-key', '{I}= 1\n'),
        _rej('no-value', '{I}vw.cons.p =\n'),
        _rej('number-key', '{I}1.p = 2\n'),
        _rej('string-key', "{I}'vw.cons.p' = 2\n"),
    ],
    # ---- references / macros inside values (items 5 and 6) ------------------------------------
    'refs': [
        ('ref-call-split-by-comment-in-brackets', 'A', '{I}vw.cons.p = [@s/vw.src(\n# c\n)]\n', _FP([_SRCE]), '',
         None),
        ('ref-after-nonascii', 'A', "{I}vw.cons.p = ['é', @s/vw.src]\n", _FP(['é', _SRC]), '', None),
        ('macro-after-wide-key', 'A', "{I}vw.cons.p = {'日本': %sc/mac}\n",
         _FP({'日本': ('macro', 'sc/mac')}), '', None),
        ('ref-after-astral', 'A', "{I}vw.cons.p = ['\U0001F600', @s/vw.src()]\n", _FP(['\U0001F600', _SRCE]), '',
         None),
        ('ref-after-multiline-string', 'A', 'vw.cons.p = [' + _ML + ', @s/vw.src]\n', _FP(['a\nb', _SRC]), 'raw',
         None),
        ('ref-on-bracket-continuation-line', 'A', '{I}vw.cons.p = [1,\n   @s/vw.src]\n', _FP([1, _SRC]), '', None),
        ('ref-space-after-sigil', 'M', '{I}vw.cons.p = @ s/vw.src\n', _FP(_SRC), '', '{I}vw.cons.p = @s/vw.src\n'),
        ('macro-spaces-after-sigil', 'M', '{I}vw.cons.p = %  mac\n', _FP(('macro', 'mac')), '', None),
        ('ref-continuation-after-sigil', 'M', '{I}vw.cons.p = @\\\ns/vw.src\n', _FP(_SRC), '', None),
        ('ref-space-before-parens', 'M', '{I}vw.cons.p = @s/vw.src ()\n', _FP(_SRCE), '',
         '{I}vw.cons.p = @s/vw.src()\n'),
        ('ref-space-inside-parens', 'M', '{I}vw.cons.p = @s/vw.src( )\n', _FP(_SRCE), '', None),
        ('ref-spaces-around-parens', 'M', '{I}vw.cons.p = [@s/vw.src ( ), 2]\n', _FP([_SRCE, 2]), '', None),
        _rej('ref-call-with-argument', '{I}vw.cons.p = @s/vw.src(1)\n'),
        _rej('ref-call-unclosed', '{I}vw.cons.p = @s/vw.src(\n'),
        _rej('ref-call-twice', '{I}vw.cons.p = @s/vw.src()()\n'),
        _rej('ref-eval-space-before-slash', '{I}vw.cons.p = @s /vw.src()\n'),
        _rej('ref-eval-space-after-slash', '{I}vw.cons.p = @s/ vw.src()\n'),
        _rej('ref-eval-space-before-dot', '{I}vw.cons.p = [1, @s/vw .src(), 2]\n'),
        _rej('ref-eval-empty-scope', '{I}vw.cons.p = @s//vw.src()\n'),
        _rej('ref-eval-leading-slash', '{I}vw.cons.p = @/vw.src()\n'),
        _rej('ref-eval-trailing-slash', '{I}vw.cons.p = @s/vw.src/()\n'),
        _rej('ref-eval-double-dot', '{I}vw.cons.p = @s/vw..src()\n'),
        _rej('macro-leading-dot', '{I}vw.cons.p = %.mac\n'),
        _rej('macro-trailing-dot', '{I}vw.cons.p = %mac.\n'),
        _rej('bad-ref-after-nonascii', "{I}vw.cons.p = ['é', @s /vw.src]\n"),
        _rej('bad-macro-after-wide-key', "{I}vw.cons.p = {'日本': %sc /mac}\n"),
        _rej('bad-ref-after-astral', "{I}vw.cons.p = ['\U0001F600', @s/ vw.src]\n"),
        _rej('bad-ref-after-multiline-string', 'vw.cons.p = [' + _ML + ', @s /vw.src]\n', 'raw'),
        _rej('bad-ref-after-long-multiline-string',
             "vw.cons.p = ['''a\nbcdefghijklmnopqrstuvwxyz''', @s/ vw.src]\n", 'raw'),
        _rej('bad-ref-on-bracket-continuation-line', '{I}vw.cons.p = [1,\n   @s /vw.src]\n'),
        _rej('bad-ref-tab-on-continuation-line', '{I}vw.cons.p = [1,\n@s\t/vw.src]\n'),
        _rej('bad-key-after-nonascii-scope', '{I}sé/vw .cons.p = 1\n'),
    ],
    # ---- identifier positions of the import forms (item 7), keyword-like names (item 8),
    #      include operands (item 9) ----------------------------------------------------------
    'names': [
        _rej('alias-dotted', '{I}import os as b.c\n'),
        _rej('alias-scoped', '{I}import os as b/c\n'),
        _rej('alias-number', '{I}import os as 1\n'),
        _rej('alias-missing', '{I}import os as\n'),
        _rej('alias-missing-dotted-module', '{I}import os.path as\n'),
        _rej('alias-two-names', '{I}import os as b c\n'),
        _rej('import-two-names', '{I}import os sys\n'),
        _rej('import-list', '{I}import os, sys\n'),
        _rej('from-dotted-name', '{I}from os import path.join\n'),
        _rej('from-star', '{I}from os import *\n'),
        _rej('from-parenthesised', '{I}from os import (path)\n'),
        _rej('from-list', '{I}from os import path, sep\n'),
        _rej('from-without-import', '{I}from os\n'),
        _rej('from-import-nothing', '{I}from os import\n'),
        _rej('from-relative', '{I}from . import os\n'),
        _rej('from-relative-module', '{I}from .os import path\n'),
        _rej('from-alias-dotted', '{I}from os import path as p.q\n'),
        _rej('bare-import', '{I}import\n'),
        _rej('bare-from', '{I}from\n'),
        _rej('import-string', "{I}import 'os'\n"),
        ('alias-named-as', 'M', '{I}import os as as\n', [(1, ('import', 'os', False, 'as'))], '', None),
        ('scope-named-import', 'M', '{I}import/vw.cons.p = 1\n', [(1, _b('import', 'vw.cons', 'p', 1))], '',
         '{I}import/vw.cons:\n{I}  p = 1\n'),
        ('scope-named-include', 'M', '{I}include/vw.cons.p = 1\n', [(1, _b('include', 'vw.cons', 'p', 1))], '',
         '{I}include/vw.cons:\n{I}  p = 1\n'),
        ('scope-named-from', 'M', '{I}from/vw.cons.p = 1\n', [(1, _b('from', 'vw.cons', 'p', 1))], '',
         '{I}from/vw.cons:\n{I}  p = 1\n'),
        ('scope-named-None', 'M', '{I}None/vw.cons.p = 1\n', [(1, _b('None', 'vw.cons', 'p', 1))], '',
         '{I}None/vw.cons:\n{I}  p = 1\n'),
        ('scope-named-import-block', 'M', '{I}import/vw.cons:\n{I}{M}p = 1\n',
         [(1, ('block', 'import', 'vw.cons')), (2, _b('import', 'vw.cons', 'p', 1))], 'blk',
         '{I}import/vw.cons.p = 1\n'),
        ('macro-named-include', 'M', "{I}include = 'x'\n", [(1, _b('', 'include', '', 'x'))], '',
         "{I}include='x'  # c\n"),
        ('macro-named-from', 'M', '{I}from = 1\n', [(1, _b('', 'from', '', 1))], '', '{I}from   =   1\n'),
        ('macro-named-import', 'M', '{I}import = 2\n', [(1, _b('', 'import', '', 2))], '', '{I}import \\\n= 2\n'),
        ('configurable-named-from', 'M', '{I}from.x = 1\n', [(1, _b('', 'from', 'x', 1))], '',
         '{I}from:\n{I} x = 1\n'),
        ('configurable-named-as', 'M', '{I}as.x = 1\n', [(1, _b('', 'as', 'x', 1))], '', '{I}as:\n{I} x = 1\n'),
        ('configurable-named-from-block', 'M', '{I}from:\n{I}{M}x = 1\n',
         [(1, ('block', '', 'from')), (2, _b('', 'from', 'x', 1))], 'blk', '{I}from.x = 1\n'),
        ('keyword-scope-and-configurable-block', 'M', '{I}from/import:\n{I}{M}x = 3\n',
         [(1, ('block', 'from', 'import')), (2, _b('from', 'import', 'x', 3))], 'blk', '{I}from/import.x = 3\n'),
        _rej('scope-import-space-after-slash', '{I}import/ vw.cons.p = 1\n'),
        _rej('scope-include-space-before-slash', '{I}include /vw.cons.p = 1\n'),
        _rej('scope-from-space-before-dot', '{I}from/vw.cons .p = 1\n'),
        ('include-double-quotes', 'A', '{I}include "inc.gin"\n', [(1, ('include', 'inc.gin'))], '', None),
        ('include-adjacent-strings', 'M', "{I}include 'inc' '.gin'\n", [(1, ('include', 'inc.gin'))], '', None),
        ('include-triple-quoted', 'M', "{I}include '''inc.gin'''\n", [(1, ('include', 'inc.gin'))], '', None),
        ('include-raw-string', 'M', "{I}include r'inc.gin'\n", [(1, ('include', 'inc.gin'))], '', None),
        _rej('include-parenthesised', "{I}include ('inc.gin')\n"),
        _rej('include-bytes', "{I}include b'inc.gin'\n"),
        _rej('include-number', '{I}include 1\n'),
        _rej('include-none', '{I}include None\n'),
        _rej('include-negated', "{I}include -'inc.gin'\n"),
        _rej('include-bare', '{I}include\n'),
        _rej('include-then-binding', "{I}include 'inc.gin' vw.cons.p = 1\n"),
        _rej('include-semicolon-binding', "{I}include 'inc.gin'; vw.cons.p = 1\n"),
        _rej('include-name', '{I}include inc.gin\n'),
    ],
}
GROUP_NAMES = ['blocks', 'badblocks', 'joins', 'refs', 'names']
NCASE = max(len(v) for v in GROUPS.values())
assert NCASE <= 60   # the bound on `case` in the precondition of c03_texts

PRE = [('', []),
       ('vw.dflt.a = 1\n', [(1, _b('', 'vw.dflt', 'a', 1))]),
       ('t/vw.cons:\n  p = 7\n', [(1, ('block', 't', 'vw.cons')), (2, _b('t', 'vw.cons', 'p', 7))]),
       ('import os.path as osp\n', [(1, ('import', 'os.path', False, 'osp'))])]
POST = [('', []),
        ('vw.dflt.b = 2\n', [(1, _b('', 'vw.dflt', 'b', 2))]),
        ('u/vw.cons:\n  q = 8\n', [(1, ('block', 'u', 'vw.cons')), (2, _b('u', 'vw.cons', 'q', 8))])]
INDS = ['', '  ', '\t']
MINDS = ['  ', '\t', ' ', '      ']
# (line terminator, final newline)
SHAPES = [('\n', True), ('\n', False), ('\r\n', True), ('\r\n', False)]


def _register_probes():
  for name in ('from', 'as'):
    try:
      def probe(x=0):
        return x
      probe.__name__ = 'kw_' + name
      gin.configurable(name, module='vw03')(probe)
    except ValueError:
      pass      # already registered in this process


_register_probes()


def fmt(v):
  """Canonical text of a value of the Delegate above."""
  if isinstance(v, tuple) and len(v) == 3 and v[0] == 'ref':
    return '@' + v[1] + ('()' if v[2] else '')
  if isinstance(v, tuple) and len(v) == 2 and v[0] == 'macro':
    return '%' + v[1]
  if isinstance(v, list):
    return '[' + ', '.join(fmt(x) for x in v) + ']'
  if isinstance(v, dict):
    return '{' + ', '.join(fmt(k) + ': ' + fmt(x) for k, x in v.items()) + '}'
  return repr(v)


def flat_text(stmts):
  """The canonical flat layout of a statement sequence (block declarations spell nothing)."""
  out = []
  for _, st in stmts:
    if st[0] == 'bind':
      _, scope, sel, arg, val = st
      out.append((scope + '/' if scope else '') + sel + ('.' + arg if arg else '') + ' = ' + fmt(val))
    elif st[0] == 'import':
      _, module, is_from, alias = st
      if is_from:
        pkg, name = module.rsplit('.', 1)
        t = 'from %s import %s' % (pkg, name)
      else:
        t = 'import ' + module
      out.append(t + (' as ' + alias if alias else ''))
    elif st[0] == 'include':
      out.append("include '%s'" % st[1])
  return ''.join(l + '\n' for l in out)


def _config_of(text):
  """(raised?, configuration) after gin.parse_config(text) on a fresh Gin."""
  world.fresh()
  world.use_mem_fs({'inc.gin': 'vw.src2.v = 77\n'})
  try:
    gin.parse_config(text)
    raised = False
  except Exception:   # pylint: disable=broad-except
    raised = True
  body = [l for l in gin.config_str().split('\n') if not l.startswith(('import ', 'from '))]
  imports = sorted((i.module, i.is_from, i.alias or '') for i in gin.config._IMPORTS)
  return raised, (body, imports)


def _stream_of(text):
  """(statements yielded, raised?) of the real parser."""
  got = []
  try:
    for st in config_parser.ConfigParser(text, Delegate()):
      got.append((canon(st), st.location.line_num))
  except Exception:   # pylint: disable=broad-except
    return got, True
  return got, False


def c03_texts(nind: int, nmind: int, nshape: int, grp: int, case: int, pre: int, post: int, ind: int,
              mind: int, shape: int) -> bool:
  """
  pre: 0 <= grp < 5 and 0 <= case < 60 and 0 <= pre < 4 and 0 <= post < 3
  pre: 0 <= ind < nind <= 3 and 0 <= mind < nmind <= 4 and 0 <= shape < nshape <= 4
  """
  # every choice is made among the values that make sense after the earlier ones, so that (nearly)
  # every path is a text: a symbolic comparison discards the rest of a range in one path
  def choose(k, allowed):
    if k >= len(allowed):
      rt.discard()
    return allowed[rt.pick(k, len(allowed))]
  cases = GROUPS[GROUP_NAMES[rt.pick(grp, len(GROUP_NAMES))]]
  tag, cls, tmpl, stmts, flags, alt = choose(case, cases)
  flags = flags.split()
  pre = rt.pick(pre, len(PRE))
  post = choose(post, [0] if 'last' in flags else [0, 1, 2])
  # an indented line right after a block is (or is not) a member of it: own entries, not a context
  ind = choose(ind, list(range(nind)) if '{I}' in tmpl and 'raw' not in flags and pre != 2 else [0])
  mind = choose(mind, list(range(nmind)) if '{M}' in tmpl else [0])
  shape = choose(shape, [k for k in range(nshape) if not ('raw' in flags and SHAPES[k][0] != '\n')
                         and not ('last' in flags and not SHAPES[k][1])])
  with rt.native():
    eol, final_nl = SHAPES[shape]
    fill = lambda t: t.replace('{I}', INDS[ind]).replace('{M}', MINDS[mind])
    body = fill(tmpl)
    pre_text, pre_st = PRE[pre]
    post_text, post_st = POST[post]

    def assemble(mid):
      t = pre_text + mid + post_text
      if not final_nl:
        if not t.endswith('\n'):
          return None
        t = t[:-1]
      return t.replace('\n', eol) if eol != '\n' else t
    text = assemble(body)
    if text is None or (not final_nl and not post and not body):
      rt.discard()
    # what the statement demands in this context
    if cls == 'A' and (eol != '\n' or (ind and 'blk' not in flags)):
      cls = 'M'   # line terminators / indentation of flat statements: the statement names neither
    rt.sig(('text', tag, pre, post, ind, mind, shape), nontrivial=True)
    n_pre, n_body = pre_text.count('\n'), body.count('\n')
    got, raised = _stream_of(text)
    pre_expected = [(st, off) for off, st in pre_st]
    cfg_raised, cfg = _config_of(text)
    accepted = not raised
    if accepted:
      if cls == 'R':
        return rt.no('%s: accepted, read as %r' % (tag, got))
      expected = (pre_expected + [(st, n_pre + off) for off, st in stmts] +
                  [(st, n_pre + n_body + off) for off, st in post_st])
      if not rt.same(tag + ': statement stream', got, expected):
        return False
      if cfg_raised:
        return rt.no('%s: statements recovered but parse_config raised' % tag)
      want_raised, want = _config_of(flat_text(pre_st) + flat_text(stmts) + flat_text(post_st))
      if want_raised:
        raise rt.HarnessError('canonical text of %s does not load' % tag)
      if not rt.same(tag + ': configuration', cfg, want):
        return False
    else:
      if cls == 'A':
        return rt.no('%s: rejected' % tag)
      # nothing of the rejected text may have been misread or wrongly bound: only a prefix of what stands
      # before the offending line - the context statements and, for a text of several statements, its own
      # leading statements exactly as catalogued (C16: the statements preceding a fault take effect; before
      # the repair of the parser's one-token look-ahead a tokenizer error also swallowed the statement
      # right before it, which is still a prefix)
      own = stmts or []
      full = pre_expected + [(st, n_pre + off) for off, st in own]
      if got != full[:len(got)] or (own and len(got) >= len(full)):   # at least the offending one is missing
        return rt.no('%s: rejected, but first yielded %r' % (tag, got))
      if not cfg_raised:
        return rt.no('%s: parser rejects, parse_config accepts' % tag)
      allowed = [_config_of('')[1]] + [_config_of(flat_text(pre_st) + flat_text(own[:k]))[1]
                                       for k in range(max(1, len(own)))]
      # (a failed parse records none of its imports: DESIGN section 9, C16)
      nb = lambda body: [l for l in body if l]   # the blank line after the import block comes and goes with it
      if not any(nb(cfg[0]) == nb(a[0]) and cfg[1] in ([], a[1]) for a in allowed):
        return rt.no('%s: rejected, but the configuration holds %r' % (tag, cfg))
    if alt is not None:
      # the same statements in another layout: same fate, same configuration
      alt_text = assemble(fill(alt))
      alt_got, alt_raised = _stream_of(alt_text)
      if alt_raised != raised:
        return rt.no('%s: %s, but the layout %r is %s' % (tag, 'rejected' if raised else 'accepted', alt_text,
                                                          'rejected' if alt_raised else 'accepted'))
      if accepted:
        binds = lambda g: [s for s, _ in g if s[0] != 'block']
        if not rt.same(tag + ': statements of the other layout', binds(alt_got), binds(got)):
          return False
        if not rt.same(tag + ': configuration of the other layout', _config_of(alt_text), (False, cfg)):
          return False
    return True


def _texts_counts():
  cls = [c[1] for g in GROUP_NAMES for c in GROUPS[g]]
  return len(cls), cls.count('A'), cls.count('R'), cls.count('M')


def _texts_smoke():
  """One concrete run per group / class / context dimension (the tags are looked up, not counted)."""
  def at(group, tag, **kw):
    g = GROUP_NAMES.index(group)
    c = [x[0] for x in GROUPS[group]].index(tag)
    d = dict(nind=3, nmind=4, nshape=4, grp=g, case=c, pre=0, post=0, ind=0, mind=0, shape=0)
    d.update(kw)
    return d
  return [
      at('blocks', 'blk2', pre=1, post=1, ind=1, mind=1),                       # INDENT mid-stream, TAB members, 2 DEDENTs
      at('blocks', 'blk-col0-comment-and-blank-between', pre=2, post=1, shape=2),  # block -> block -> flat, CRLF
      at('blocks', 'blk-last-line-comment', shape=1, ind=2),
      at('blocks', 'nothing'),
      at('blocks', 'blk-members-unequal-indent', post=2),
      at('badblocks', 'blk-deeper-second-member', pre=1, post=1, mind=2),
      at('badblocks', 'blk-import-inside', pre=3, shape=3),
      at('joins', 'cont-before-from-import', pre=3, post=2),                       # import-as -> import -> block
      at('joins', 'semicolon-join', pre=2),
      at('refs', 'ref-call-split-by-comment-in-brackets', pre=1, post=2),
      at('refs', 'bad-ref-after-multiline-string', pre=1),
      at('refs', 'macro-spaces-after-sigil', ind=1),
      at('names', 'alias-dotted', pre=1),
      at('names', 'scope-named-import', post=1),
      at('names', 'configurable-named-from-block', pre=3),
      at('names', 'include-adjacent-strings', post=1, shape=1),
  ]


HARNESSES = {
    'c03_layout': dict(
        fn='c03_layout',
        anchors=['gin.config_parser:parse_statement', 'gin.config_parser:_parse_binding_block',
                 'gin.config_parser:_parse_import', 'gin.config_parser:_parse_selector',
                 'gin.config:parse_config'],
        smoke=[dict(nk2=13, nf2=64, k1=1, f1=5, k2=9, f2=20, k3=6, f3=33, n=3, swap=False,
                    indent_all=False, final_nl=True),
               dict(nk2=13, nf2=64, k1=8, f1=8, k2=12, f2=12, k3=0, f3=0, n=2, swap=True,
                    indent_all=True, final_nl=False)],
        tiers={'quick': dict(split=dict(k1=list(range(NK)), indent_all=[False, True]),
                             fixed=dict(n=2, k3=0, f3=0, nk2=3, nf2=1), budget_s=100),
               'thorough': dict(split=dict(k1=list(range(NK)), k2=list(range(NK)),
                                           indent_all=[False, True]),
                                fixed=dict(n=2, k3=0, f3=0, nk2=16, nf2=3), budget_s=900)},
        bounds='2 statements in either order: one from 16 kinds with every combination of at most two of 8 layout features, the other from 3 kinds in default layout (quick) / 13 kinds x {default, 1 or 2 blank lines before} (thorough); kinds: (flat/scoped bindings, macro definitions, 4 import '
               'forms, include, blocks, reference/macro values, configurables named `include` / `import` in flat and block form); per statement every combination of at most two of 8 '
               'layout features (blank lines, comment line, trailing comment, 3 spacings of =, value broken inside '
               'brackets with comments, backslash continuation, flat vs block, header comment, blank/comment lines '
               'inside the block); whole text indented or not; final newline or not'),
    'c03_selectors': dict(
        fn='c03_selectors',
        anchors=['gin.config_parser:_parse_selector', 'gin.config_parser:parse_binding_key'],
        smoke=[dict(ngap=3, ctx=0, n=5, t0=0, t1=2, t2=1, t3=3, t4=0, g1=0, g2=0, g3=0, g4=0),
               dict(ngap=3, ctx=2, n=3, t0=0, t1=2, t2=1, t3=0, t4=0, g1=1, g2=0, g3=0, g4=0),
               dict(ngap=3, ctx=6, n=3, t0=0, t1=2, t2=1, t3=0, t4=0, g1=0, g2=0, g3=0, g4=0),
               dict(ngap=3, ctx=6, n=3, t0=0, t1=2, t2=1, t3=0, t4=0, g1=0, g2=1, g3=0, g4=0)],
        tiers={'quick': dict(split=dict(ctx=list(range(7)), t0=list(range(4))), fixed=dict(n=4, ngap=2, t4=0, g4=0),
                             budget_s=100),
               'thorough': dict(split=dict(ctx=list(range(7)), t0=list(range(4)), t1=list(range(4))),
                                fixed=dict(n=5, ngap=2), budget_s=900)},
        bounds='selector = 4 (quick) / 5 (thorough) tokens over {a, b1, /, .} with a gap of none / one space '
               'before each, in 7 contexts (binding key, block header, @ value, % value, import, from-import, evaluated @...() value preceded by a non-ASCII string on the same line)'),
    'c03_selectors_ws': dict(
        fn='c03_selectors',
        anchors=['gin.config_parser:_parse_selector'],
        smoke=[dict(ngap=4, ctx=0, n=3, t0=0, t1=2, t2=1, t3=0, t4=0, g1=0, g2=2, g3=0, g4=0),
               dict(ngap=4, ctx=2, n=3, t0=0, t1=2, t2=1, t3=0, t4=0, g1=3, g2=0, g3=0, g4=0),
               dict(ngap=4, ctx=6, n=3, t0=0, t1=2, t2=1, t3=0, t4=0, g1=0, g2=3, g3=0, g4=0)],
        tiers={'quick': dict(split=dict(ctx=list(range(7)), t0=list(range(4))),
                             fixed=dict(n=3, ngap=4, t3=0, t4=0, g3=0, g4=0), budget_s=100),
               'thorough': dict(split=dict(ctx=list(range(7)), t0=list(range(4)), t1=list(range(4))),
                                fixed=dict(n=4, ngap=4, t4=0, g4=0), budget_s=900)},
        bounds='selector = 3 (quick) / 4 (thorough) tokens with a gap of none / space / TAB / backslash-newline '
               'continuation before each, in the same 7 contexts'),
    'c03_texts': dict(
        fn='c03_texts',
        anchors=['gin.config_parser:parse_statement', 'gin.config_parser:_parse_binding_block',
                 'gin.config_parser:_parse_import', 'gin.config_parser:_parse_selector',
                 'gin.config_parser:_parse_identifier', 'gin.config_parser:_maybe_parse_configurable_reference',
                 'gin.config_parser:_maybe_parse_macro', 'gin.config:parse_config'],
        smoke=_texts_smoke(),
        tiers={'quick': dict(split=dict(grp=list(range(5)), pre=list(range(4))),
                             fixed=dict(nind=2, nmind=2, nshape=3), budget_s=150),
               'thorough': dict(split=dict(grp=list(range(5)), pre=list(range(4)), post=list(range(3))),
                                fixed=dict(nind=3, nmind=4, nshape=4), budget_s=900)},
        bounds='%d catalogued statement texts the layout renderer cannot produce (%d that spell statements in a layout '
               'the statement names, %d that are no statement sequence or hold a malformed scoped name and must be '
               'rejected without reaching the configuration, %d on which the statement is silent: rejected or read '
               'exactly, and alike in a second layout) in 5 groups: block layouts and zero-statement / form-feed / '
               'lone-CR texts; malformed blocks; statement parts on different physical lines and statement-joining '
               'near-misses; reference / macro layout inside values incl. malformed selectors after non-ASCII text, '
               'after a multi-line string and on bracket-continuation lines; identifier positions of the import '
               'forms, keyword-like scope / macro / configurable names, include operands.  Each text stands '
               'alone or after one of {flat binding, block, import with alias} and alone or before one of {flat '
               'binding, block} (3-statement sequences block -> block -> flat, import-as -> binding -> block), '
               'is itself unindented / indented by 2 spaces (quick) / by a TAB (thorough) while its neighbours stay '
               'in column 0, has block members indented by 2 spaces or a TAB (quick) / 1 or 6 spaces (thorough), and '
               'ends lines with LF with or without the final one, or CRLF (quick) / CRLF without the final one '
               '(thorough)' % _texts_counts()),
}
RULE = ('one case per distinct (statement kinds, layout features) / (context, tokens, gaps) / (catalogued text, neighbours, '
        'indentations, line terminator) tuple; non-trivial: some non-default layout feature / at least two tokens / every catalogued text')
SOLVER_ROLE = ('certifies coverage: once the F-choices are made everything is concrete text, which the real tokenizer and parser '
               'process natively; the solver contributes the proof (CONFIRMED) that the bounded choice space was covered completely')
OUTSIDE = ('more than 2 statements per text in the layout harness (3-statement sequences only around the catalogued texts of '
           'c03_texts); more than two non-default layout features per statement; TAB indentation, CRLF / lone CR line ends and '
           'form feeds only on the catalogued texts (CRLF, form feeds and indentation of flat statements are judged as: rejected '
           'or read exactly, because the statement does not name them); BOM-prefixed text, NUL bytes; list / file-like / bytes '
           'carriers of the text and skip_unknown (review item 11); included files other than a one-line file')
