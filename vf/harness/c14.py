"""C14 - includes act as in-place inclusion; files resolve through ordered locations."""
import os
import shutil
import sys
import tempfile

FIX = os.path.join(os.path.dirname(os.path.dirname(os.path.dirname(os.path.abspath(__file__)))), 'fixtures')
if FIX not in sys.path:
  sys.path.insert(0, FIX)        # fixture package vfp14 (package-relative .gin names)

import gin
from gin import config as gc
from vf import rt
from vf import world

# include-tree shapes over files A, B, C: file -> list of included files (in order)
SHAPES = [
    {'A': ['B'], 'B': ['C'], 'C': []},            # chain
    {'A': ['B', 'C'], 'B': [], 'C': []},          # two children
    {'A': ['B', 'C'], 'B': ['C'], 'C': []},       # nested and repeated
    {'A': [], 'B': [], 'C': []},                  # no includes
]
IMPORTS = {'A': ['os'], 'B': ['sys', 'os.path'], 'C': []}


# how the conflicting binding is written on either side of a file boundary
SPELLS = ['flat', 'block in B', 'short selector in A and C', 'scoped key', 'macro']


def writer(spell, name, k):
  """One statement (possibly two lines) that writes the contested value from constant vwc.V<k>."""
  if spell == 1 and name == 'B':
    return 'vw.dflt:\n  a = %%vwc.V%s' % k
  if spell == 2 and name != 'B':
    return 'dflt.a = %%vwc.V%s' % k
  if spell == 3:
    return 's14/vw.dflt.a = %%vwc.V%s' % k
  if spell == 4:
    return 'X14 = %%vwc.V%s' % k
  return 'vw.dflt.a = %%vwc.V%s' % k


def file_text(shape, name, pre, post, mid, spell=0):
  lines = ['import ' + m for m in IMPORTS[name]]
  i = 'ABC'.index(name)
  if spell == 4 and name == 'A':
    lines.append('vw.dflt.a = %X14')        # the macro is (re)bound on both sides of the boundaries below
  if pre[i]:
    lines.append(writer(spell, name, 2 * i))
  incs = SHAPES[shape][name]
  for n, inc in enumerate(incs):
    lines.append("include '%s.gin'" % inc)
    if n == 0 and len(incs) > 1 and mid:
      lines.append(writer(spell, name, 'M'))
  if post[i]:
    lines.append(writer(spell, name, 2 * i + 1))
  lines.append('vw.kws.%s = 1' % name.lower())
  return '\n'.join(lines) + '\n'


def flatten(shape, name, pre, post, mid, writers, tree=None):
  """Reference: the writers of vw.dflt.a in flattened-text order + the include tree."""
  i = 'ABC'.index(name)
  if pre[i]:
    writers.append(2 * i)
  subs = []
  incs = SHAPES[shape][name]
  for n, inc in enumerate(incs):
    subs.append(flatten(shape, inc, pre, post, mid, writers))
    if n == 0 and len(incs) > 1 and mid:
      writers.append('M')
  if post[i]:
    writers.append(2 * i + 1)
  return (name + '.gin', list(IMPORTS[name]), subs)


def tree_of(result):
  return (result.filename, list(result.imports), [tree_of(r) for r in result.includes])


def c14_include(shape: int, mid: bool, a1: bool, a2: bool, b1: bool, b2: bool, c1: bool, c2: bool,
                v0: int, v1: int, v2: int, v3: int, v4: int, v5: int, vm: int, spell: int = 0) -> bool:
  """
  pre: 0 <= shape < 4 and 0 <= spell < 5
  """
  world.fresh()
  shape = rt.pick(shape, 4)
  spell = rt.pick(spell, 5)
  mid = rt.flag(mid)
  pre = [rt.flag(a1), rt.flag(b1), rt.flag(c1)]
  post = [rt.flag(a2), rt.flag(b2), rt.flag(c2)]
  vals = {0: v0, 1: v1, 2: v2, 3: v3, 4: v4, 5: v5, 'M': vm}
  for k, v in vals.items():
    gin.constant('vwc.V%s' % k, v)
  with rt.native():
    files = {n + '.gin': file_text(shape, n, pre, post, mid, spell) for n in 'ABC'}
    world.use_mem_fs(files)
    writers = []
    want_tree = flatten(shape, 'A', pre, post, mid, writers)
  rt.sig(('include', shape, mid, tuple(pre), tuple(post), spell), nontrivial=len(writers) >= 2)
  with rt.native():
    result = gin.parse_config_file('A.gin')
    if tree_of(result) != want_tree:
      return rt.no('include tree')
    cfg_inc = gin.config_str()
  if spell == 3:
    if gin.get_bindings('vw.dflt'):
      return rt.no('a scoped key leaked into the unscoped configurable')
    bound = gin.get_bindings('s14/vw.dflt')
  elif spell == 4 and not writers:
    bound = {}        # `vw.dflt.a = %X14` with the macro never bound: nothing to resolve (text comparison below)
  else:
    bound = gin.get_bindings('vw.dflt')
  if writers:
    if list(bound) != ['a'] or not rt.same('last writer', bound['a'], vals[writers[-1]]):
      return rt.no('last writer')
  elif bound:
    return rt.no('unbound')
  with rt.native():
    # the same through a parse of the flattened text
    def inline(name):
      out = []
      for l in files[name + '.gin'].split('\n'):
        if l.startswith('include '):
          out.extend(inline(l.split("'")[1][0]))
        elif l:
          out.append(l)
      return out
    flat = '\n'.join(inline('A')) + '\n'
    gc._CONFIG.clear(); gc._CONFIG_PROVENANCE.clear(); gc._IMPORTS.clear()
    gin.parse_config(flat)
    return gin.config_str() == cfg_inc or rt.no('flattened text differs')


LOCS = ['', '/p1', '/p2']


def c14_search(badinc: bool, order: bool, rorder: bool, absolute: bool,
               e00: bool, e01: bool, e10: bool, e11: bool, e20: bool, e21: bool,
               deco: bool = False, vanish: bool = False) -> bool:
  """
  pre: True
  """
  world.fresh()
  order, rorder, absolute, badinc = rt.flag(order), rt.flag(rorder), rt.flag(absolute), rt.flag(badinc)
  deco, vanish = rt.flag(deco), rt.flag(vanish)
  if vanish and badinc:
    rt.discard()          # one fault at a time
  # existence of the file per (location, reader) stays SYMBOLIC: Gin's resolution
  # loop forks on the readers' existence checks themselves
  exists = {('', 0): e00, ('', 1): e01, ('/p1', 0): e10, ('/p1', 1): e11,
            ('/p2', 0): e20, ('/p2', 1): e21}
  name = '/abs/f.gin' if absolute else 'f.gin'
  seen = []

  def make(reader):
    def ex(path):
      for loc in LOCS:
        cand = (loc + '/' if loc else '') + 'f.gin' if not absolute else '/abs/f.gin'
        if path == cand:
          if absolute:
            return exists[('', reader)]
          return exists[(loc, reader)]
      return False

    def op(path):
      seen.append((path, reader))
      if vanish:
        # the existence check said yes, the open fails (the file vanished in between)
        raise FileNotFoundError(2, 'vanished', path)
      code = 100 + 10 * LOCS.index(path[:-len('/f.gin')] if (path.endswith('/f.gin') and not absolute) else '') + reader
      # with `badinc` every candidate first binds its code, then includes a name nobody can read
      return world._MemFile(path, 'vw.dflt.a = %d\n' % code + ("include 'nobody_has_this.gin'\nvw.dflt.b = 1\n" if badinc else ''))
    return op, ex

  readers = [make(0), make(1)]
  if rorder:
    readers.reverse()
  for op, ex in readers:
    if deco:
      if gin.config.register_file_reader(ex)(op) is not None:      # decorator form: existence check first
        return rt.no('decorator form')
    else:
      gin.config.register_file_reader(op, ex)
  locs = ['/p1', '/p2']
  if order:
    locs.reverse()
  for l in locs:
    gin.add_config_file_search_path(l)
  exc = None
  try:
    gin.parse_config_file(name)
  except Exception as e:
    exc = e
  # ---- reference: first location in registration order, first reader within it ------
  search = [''] if absolute else [''] + locs
  rorder_ids = [1, 0] if rorder else [0, 1]
  winner = None
  for loc in search:
    for r in rorder_ids:
      if winner is None and exists[(loc, r)]:      # (forks only on feasible paths)
        winner = (loc, r)
  rt.sig(('search', badinc, order, rorder, absolute, winner, deco, vanish), nontrivial=winner is not None)
  if winner is None:
    if not isinstance(exc, IOError) or gc._CONFIG:
      return rt.no('missing everywhere must raise IOError and apply nothing')
    with rt.native():
      msg = str(exc)
      return (name in msg and all(repr(l) in msg for l in search)) or rt.no('IOError text')
  want = 100 + 10 * LOCS.index(winner[0]) + winner[1]
  if absolute:
    want = 100 + winner[1]
  if vanish:
    # the first reader that claims the name is THE reader: its failure to open propagates, no other candidate
    # (reader or location) is tried, and nothing is applied
    if exc is None:
      return rt.no('open failed after a positive existence check, yet no exception')
    if len(seen) != 1 or seen[0][1] != winner[1]:
      return rt.no('another candidate was opened after the failed open: %r' % (seen,))
    return not gc._CONFIG or rt.no('bindings applied although the open failed')
  if badinc:
    # the first-found file is THE file: its unreadable include raises, what preceded it took effect,
    # and no other candidate is ever opened
    if not isinstance(exc, IOError):
      return rt.no('unreadable include inside the first-found file must raise IOError')
    if len(seen) != 1:
      return rt.no('another candidate was opened after the failure: %r' % (seen,))
    return (gin.query_parameter('vw.dflt.a') == want and gin.get_bindings('vw.dflt') == {'a': want}) or rt.no(
        'bindings after the failed include')
  if exc is not None:
    return rt.no('unexpected exception')
  return gin.query_parameter('vw.dflt.a') == want or rt.no('wrong file')


def c14_entry(nfiles: int, b: bool, fin: bool, unknown: int, entry: int,
              v1: int, v2: int, v3: int) -> bool:
  """
  pre: 0 <= nfiles <= 2 and 0 <= unknown < 4 and 0 <= entry < 3
  """
  world.fresh()
  nfiles = rt.pick(nfiles, 3)
  b, fin = rt.flag(b), rt.flag(fin)
  unknown = rt.pick(unknown, 4)     # 0 none, 1 in file 1, 2 in file 2, 3 in the bindings
  entry = rt.pick(entry, 3)
  rt.sig(('entry', nfiles, b, fin, unknown, entry), nontrivial=nfiles + b >= 2)
  gin.constant('vwc.V1', v1); gin.constant('vwc.V2', v2); gin.constant('vwc.V3', v3)
  with rt.native():
    bad = 'vw.nosuch.x = 1\n'
    world.use_mem_fs({
        'f1.gin': 'vw.dflt.a = %vwc.V1\nvw.kws.f1 = 1\n' + (bad if unknown == 1 else ''),
        'f2.gin': 'vw.dflt.a = %vwc.V2\nvw.kws.f2 = 1\n' + (bad if unknown == 2 else '')})
    files = ['f1.gin', 'f2.gin'][:nfiles]
    bindings = (['vw.dflt.a = %vwc.V3'] if b else []) + ([bad] if unknown == 3 else [])
  if entry != 0:
    # the single-purpose entry points share the default skip_unknown=False
    exc = None
    try:
      with rt.native():
        if entry == 1:
          gin.parse_config_file('f1.gin')
        else:
          gin.parse_config(bindings)
    except Exception as e:
      exc = e
    hit = (entry == 1 and unknown == 1) or (entry == 2 and unknown == 3)
    return (isinstance(exc, ValueError) if hit else exc is None) or rt.no('default skip_unknown')
  exc = None
  try:
    with rt.native():
      res = gin.parse_config_files_and_bindings(files, bindings, finalize_config=fin)
  except Exception as e:
    exc = e
  hit = (unknown == 1 and nfiles >= 1) or (unknown == 2 and nfiles >= 2) or unknown == 3
  if hit:
    return (isinstance(exc, ValueError) and not gin.config_is_locked()) or rt.no('unknown name must raise')
  if exc is not None:
    return rt.no('unexpected exception')
  if gin.config_is_locked() != fin:
    return rt.no('finalize flag')
  with rt.native():
    if [r.filename for r in res] != files:
      return rt.no('returned list')
  want = None
  if nfiles >= 1: want = v1
  if nfiles >= 2: want = v2
  if b: want = v3
  got = gin.get_bindings('vw.dflt')
  if want is None:
    return got == {} or rt.no('nothing bound')
  return rt.same('order files, bindings', got['a'], want)



# ---- package-relative names (gin/resource_reader.py) ---------------------------------------------------
# fixture package /verif/fixtures/vfp14:  top.gin (140)  x.gin (148)  modu.py  sub/{x.gin (141), inc.gin, f14.gin (144)}
#                                         beta/ (package without .gin files)   nsp/x.gin (147; no __init__.py)
ABS_X = os.path.join(FIX, 'vfp14', 'sub', 'x.gin')
# (name given to Gin, search location added first or None)
PKG_NAMES = [
    ('vfp14/top.gin', None),            # 0 file in a top-level package
    ('vfp14/sub/x.gin', None),          # 1 file in a sub-package
    ('vfp14.sub/x.gin', None),          # 2 dotted spelling of the package
    ('vfp14/sub/inc.gin', None),        # 3 package file that includes a package-relative name
    ('nopkg14/sub/x.gin', None),        # 4 the parent package does not exist (ModuleNotFoundError inside)
    ('vfp14/nosub/x.gin', None),        # 5 the sub-package does not exist
    ('vfp14/sub/missing.gin', None),    # 6 the package exists, the file does not
    ('vfp14/nsp/x.gin', None),          # 7 the head is a namespace package (directory without __init__.py)
    ('vfp14/modu/x.gin', None),         # 8 the head names a module, not a package (vfp14/x.gin exists)
    ('x.gin', 'vfp14/sub'),             # 9 bare name found by the package reader at an added location
    ('x.gin', 'vfp14/sub/'),            # 10 ... location written with a trailing slash
    ('sub/x.gin', 'vfp14'),             # 11 name with a sub-directory under an added location
    (ABS_X, None),                      # 12 absolute path of the same file (built-in open)
]
X_TREE = [('os.path',), ('os',)]        # `from os import path` (either spelling of the module is accepted)
MEM_CODE = 149


def _tree(r):
  return (r.filename, tuple(r.imports), tuple(_tree(i) for i in r.includes))


def _state():
  """Plain copy of Gin's binding store: {(scope, selector): {param: int | 'REF'}}."""
  out = {}
  for k, v in gc._CONFIG.items():
    out[k] = {p: (x if isinstance(x, int) else 'REF') for p, x in v.items()}
  return out


def _ioerror_ok(exc, name, search):
  if not isinstance(exc, IOError):
    return rt.no('a name nobody can read must raise IOError, got %r' % (exc,))
  msg = str(exc)
  return (name in msg and all(repr(l) in msg for l in search)) or rt.no('IOError text: ' + msg)


def c14_pkg(name: int, via: int, mem: int) -> bool:
  """
  pre: 0 <= name < 13 and 0 <= via < 4 and 0 <= mem < 3
  """
  world.fresh()
  kind = rt.pick(name, 13)
  via = rt.pick(via, 4)       # 0 parse_config_file, 1 include in a file, 2 multi-file entry, 3 include in bindings
  mem = rt.pick(mem, 3)       # in-memory reader (registered after the package reader): 0 no file,
  #                             1 file under the name as given, 2 file under <added location>/<name>
  with rt.native():
    fname, loc = PKG_NAMES[kind]
    if mem == 2 and loc is None:
      rt.discard()
    rt.sig(('pkg', kind, via, mem))
    memkey = fname if mem == 1 else os.path.join(loc, fname) if mem == 2 else None
    files = {'t14.gin': "vw.dflt.b = 1\ninclude '%s'\nvw.dflt.b = 2\n" % fname}
    if memkey:
      files[memkey] = 'vw.dflt.a = %d\n' % MEM_CODE
    world.use_mem_fs(files)
    if loc is not None:
      gin.add_config_file_search_path(loc)
    search = [''] if (loc is None or os.path.isabs(fname)) else ['', loc]
    # ---- reference: locations outer; within one: built-in open, package reader, in-memory reader ----------
    pkgfile = {'vfp14/top.gin': 'top', 'vfp14/sub/x.gin': 'x', 'vfp14.sub/x.gin': 'x', 'vfp14/sub/inc.gin': 'inc'}
    want = None
    for l in search:
      path = os.path.join(l, fname)
      if want is None and path == ABS_X:
        want = 'x'
      if want is None and path in pkgfile:
        want = pkgfile[path]
      if want is None and path == memkey:
        want = 'mem'
    xt = None
    exc = res = None
    try:
      if via == 0:
        res = gin.parse_config_file(fname)
      elif via == 1:
        res = gin.parse_config_file('t14.gin')
        if res.filename != 't14.gin' or list(res.imports) or len(res.includes) != 1:
          return rt.no('tree of the including file')
        res = res.includes[0]
      elif via == 2:
        res = gin.parse_config_files_and_bindings([fname], ['vw.dflt.b = 2'])
        if len(res) != 1:
          return rt.no('returned list')
        res = res[0]
      else:
        incs, imps = gin.parse_config(['vw.dflt.b = 1', "include '%s'" % fname, 'vw.dflt.b = 2'])
        if imps or len(incs) != 1:
          return rt.no('includes returned by parse_config')
        res = incs[0]
    except Exception as e:
      exc = e
    st = _state()
    dflt = dict(st.get(('', 'vw.dflt'), {}))
    kws = st.get(('', 'vw.kws'), {})
    b = dflt.pop('b', None)
    if kind == 7 and exc is None and dflt == {'a': 147} and _tree(res) == (fname, (), ()):
      want = 'nsp'        # a namespace package IS on the Python path: reading the file there is accepted too
    if want is None:
      if not _ioerror_ok(exc, fname, search):
        return False
      if dflt or kws:
        return rt.no('something was applied from a name nobody can read: %r %r' % (dflt, kws))
      if gin.config_is_locked():
        return rt.no('finalized after a missing file')
      return b == (1 if via in (1, 3) else None) or rt.no('state of the including text after the failure')
    if exc is not None:
      return rt.no('readable name raised %r' % (exc,))
    if b != (None if via == 0 else 2):
      return rt.no('rest of the including text / the extra bindings')
    if via == 2 and not gin.config_is_locked():
      return rt.no('not finalized')
    t = _tree(res)
    if want == 'mem':
      return (dflt == {'a': MEM_CODE} and not kws and t == (fname, (), ())) or rt.no('in-memory file expected')
    if want == 'nsp':
      return True
    if want == 'top':
      return (dflt == {'a': 140} and kws == {'top': 1} and t == (fname, ('os.path',), ())) or rt.no('top.gin')
    if want == 'x':
      return (dflt == {'a': 141} and kws == {'x': 1} and t in [(fname, i, ()) for i in X_TREE]) or rt.no('x.gin')
    return (dflt == {'a': 141} and kws == {'x': 1, 'inc': 1} and
            t in [(fname, ('sys',), (('vfp14/sub/x.gin', i, ()),)) for i in X_TREE]) or rt.no('inc.gin')


# ---- real files on disk, the package reader and a registered reader at the same locations ---------------
DISK_CODE, PKG_CODE = 110, 144


def c14_disk(l1: int, l2: int, dp: bool, m0: bool, m1: bool, m2: bool, slash: bool, absn: bool) -> bool:
  """
  pre: 0 <= l1 < 3 and 0 <= l2 < 3
  """
  world.fresh()
  l1, l2 = rt.pick(l1, 3), rt.pick(l2, 3)   # kind of the two added locations: 0 real directory <tmp>/p,
  #                                           1 package directory vfp14/sub (holds f14.gin), 2 package vfp14/beta
  dp = rt.flag(dp)                           # f14.gin exists on disk in <tmp>/p
  m = [rt.flag(m0), rt.flag(m1), rt.flag(m2)]   # the in-memory reader has the file at location '' / first / second
  slash, absn = rt.flag(slash), rt.flag(absn)
  with rt.native():
    rt.sig(('disk', l1, l2, dp, tuple(m), slash, absn), nontrivial=dp or any(m))
    tmp = tempfile.mkdtemp(prefix='vf14_')
    try:
      p = os.path.join(tmp, 'p')
      os.mkdir(p)
      disk = os.path.join(p, 'f14.gin')
      if dp:
        with open(disk, 'w') as f:
          f.write('vw.dflt.a = %d\n' % DISK_CODE)
      locs = [[p, 'vfp14/sub', 'vfp14/beta'][k] + ('/' if slash else '') for k in (l1, l2)]
      fname = disk if absn else 'f14.gin'
      files = {}
      for i, l in enumerate([''] + locs):
        if m[i]:
          files[os.path.join(l, fname)] = 'vw.dflt.a = %d\n' % (120 + i)    # (same location twice: one file, last code)
      world.use_mem_fs(files)
      for l in locs:
        gin.add_config_file_search_path(l)
      search = [''] if absn else [''] + locs
      want = None
      for l in search:
        path = os.path.join(l, fname)
        if want is None and dp and path == disk:
          want = DISK_CODE                     # 1st reader: built-in open
        if want is None and path == 'vfp14/sub/f14.gin':
          want = PKG_CODE                      # 2nd reader: Python-path reader
        if want is None and path in files:
          want = int(files[path].split('=')[1])   # 3rd reader: the registered one
      exc = None
      try:
        res = gin.parse_config_file(fname)
      except Exception as e:
        exc = e
      st = _state()
      if want is None:
        return (_ioerror_ok(exc, fname, search) and not st) or rt.no('applied something: %r' % (st,))
      if exc is not None:
        return rt.no('readable name raised %r' % (exc,))
      a = st.get(('', 'vw.dflt'), {}).get('a')
      return (a == want and res.filename == fname) or rt.no('wrong file: got %r want %r' % (a, want))
    finally:
      shutil.rmtree(tmp, ignore_errors=True)


# ---- the including file found in a non-first location: the nested name restarts from the full list --------
def c14_nested(order: bool, a0: bool, a1: bool, a2: bool, b0: bool, b1: bool, b2: bool) -> bool:
  """
  pre: True
  """
  world.fresh()
  order = rt.flag(order)
  ea = [rt.flag(a0), rt.flag(a1), rt.flag(a2)]     # A.gin present at '', /p1, /p2
  eb = [rt.flag(b0), rt.flag(b1), rt.flag(b2)]     # B.gin present at '', /p1, /p2
  with rt.native():
    files = {}
    for i, l in enumerate(LOCS):
      if ea[i]:
        files[os.path.join(l, 'A.gin')] = "vw.dflt.a = %d\ninclude 'B.gin'\nvw.kws.after = 1\n" % (200 + i)
      if eb[i]:
        files[os.path.join(l, 'B.gin')] = 'vw.dflt.b = %d\n' % (210 + i)
    world.use_mem_fs(files)
    locs = ['/p2', '/p1'] if order else ['/p1', '/p2']
    for l in locs:
      gin.add_config_file_search_path(l)
    search = [''] + locs
    wa = ([LOCS.index(l) for l in search if ea[LOCS.index(l)]] + [None])[0]
    wb = ([LOCS.index(l) for l in search if eb[LOCS.index(l)]] + [None])[0]
    rt.sig(('nested', order, wa, wb, tuple(ea), tuple(eb)), nontrivial=wa is not None and wa != 0)
    exc = None
    try:
      res = gin.parse_config_file('A.gin')
    except Exception as e:
      exc = e
    st = _state()
    if wa is None:
      return (_ioerror_ok(exc, 'A.gin', search) and not st) or rt.no('applied something')
    if wb is None:
      # the include is resolved against the FULL location list, and what preceded it took effect
      return (_ioerror_ok(exc, 'B.gin', search) and st == {('', 'vw.dflt'): {'a': 200 + wa}}) or rt.no(
          'state after the unreadable include: %r' % (st,))
    if exc is not None:
      return rt.no('unexpected exception %r' % (exc,))
    return (st == {('', 'vw.dflt'): {'a': 200 + wa, 'b': 210 + wb}, ('', 'vw.kws'): {'after': 1}} and
            _tree(res) == ('A.gin', (), (('B.gin', (), ()),))) or rt.no('nested resolution: %r' % (st,))


# ---- skip_unknown travels through includes, for every entry point ---------------------------------------------
SKIPS = [None, True, ['vw.nosuch'], ('vw.nosuch',), ['vw.other_unknown'], ('vw.other_unknown', 'vw.dflt')]
BADS = ['vw.nosuch.x = 1\n', 'import no_such_mod_c14\n']


def c14_skip(entry: int, depth: int, what: int, skip: int) -> bool:
  """
  pre: 0 <= entry < 4 and 0 <= depth < 3 and 0 <= what < 2 and 0 <= skip < 6
  """
  world.fresh()
  entry = rt.pick(entry, 4)   # 0 multi-file entry (chain hangs off a file), 1 multi-file entry (off the bindings),
  #                             2 parse_config_file, 3 parse_config
  depth = rt.pick(depth, 3)   # include depth of the text holding the unknown name (0 = the top-level text)
  what = rt.pick(what, 2)     # 0 binding of an unknown configurable, 1 import of an unknown module
  skip = rt.pick(skip, 6)     # 0 skip_unknown not passed, 1 True, 2 list naming it, 3 tuple naming it,
  #                             4 / 5 a list / tuple that names OTHER configurables only (round e seed C14-e)
  with rt.native():
    rt.sig(('skip', entry, depth, what, skip))
    text = {}
    for k in range(depth + 1):
      text[k] = ('vw.dflt.a = %d\n' % (k + 1) + (BADS[what] if k == depth else "include 'd%d.gin'\n" % (k + 1)) +
                 'vw.kws.l%d = 1\n' % k)
    world.use_mem_fs({'d%d.gin' % k: t for k, t in text.items()})
    kw = {} if skip == 0 else {'skip_unknown': SKIPS[skip]}
    exc = None
    try:
      if entry == 0:
        gin.parse_config_files_and_bindings(['d0.gin'], ['vw.dflt.b = 5'], **kw)
      elif entry == 1:
        gin.parse_config_files_and_bindings([], text[0].split('\n'), **kw)
      elif entry == 2:
        gin.parse_config_file('d0.gin', **kw)
      else:
        gin.parse_config(text[0], **kw)
    except Exception as e:
      exc = e
    st = _state()
    if exc is not None:
      if not isinstance(exc, (ValueError, ImportError)):
        return rt.no('unexpected kind of error %r' % (exc,))
      if entry < 2 and gin.config_is_locked():
        return rt.no('finalized although parsing failed')
      if skip == 0 or (what == 1 and skip >= 2) or skip >= 4:
        return True       # default: an error.  (A LIST of configurable names vs. an unknown import: either way.)
      #                     A list that does not name the unknown configurable: an error, as in the flattened text.
      return rt.no('skip_unknown was passed, the unknown name still raised %r' % (exc,))
    if skip == 0:
      return rt.no('unknown name accepted without skip_unknown')
    if skip >= 4 and what == 0:
      return rt.no('an unknown configurable that the skip list does not name was accepted (include depth %d)' % depth)
    want = {('', 'vw.dflt'): {'a': depth + 1}, ('', 'vw.kws'): {'l%d' % k: 1 for k in range(depth + 1)}}
    if entry == 0:
      want[('', 'vw.dflt')]['b'] = 5
    if st != want:
      return rt.no('bindings around the skipped name: %r' % (st,))
    return entry >= 2 or gin.config_is_locked() or rt.no('not finalized')


# ---- the multi-file entry point: missing-file position, argument shapes, what finalizing means -------------------
def c14_multi(miss: int, fshape: int, bshape: int, fin: bool, hook: bool, req: int) -> bool:
  """
  pre: 0 <= miss < 5 and 0 <= fshape < 3 and 0 <= bshape < 5 and 0 <= req < 4
  """
  world.fresh()
  miss = rt.pick(miss, 5)       # 0 nothing missing, 1 a missing file first, 2 between f1 and f2,
  #                               3 included from the middle of f1, 4 included by the last extra binding
  fshape = rt.pick(fshape, 3)   # config_files as 0 list, 1 tuple, 2 None (no files)
  bshape = rt.pick(bshape, 5)   # bindings as 0 list, 1 tuple, 2 one newline-separated string, 3 None,
  #                               4 list whose last element includes g14.gin
  fin, hook = rt.flag(fin), rt.flag(hook)
  req = rt.pick(req, 4)         # f1 marks vw.kws.r %gin.REQUIRED: 0 no, 1 never overridden, 2 overridden in f2,
  #                               3 overridden in the extra bindings
  with rt.native():
    if (fshape == 2 and miss in (1, 2, 3)) or (bshape == 3 and miss == 4):
      rt.discard()
    rt.sig(('multi', miss, fshape, bshape, fin, hook, req))
    # events in flattened order: (selector, param, value) | 'MISSING'
    ev_f1 = [('vw.dflt', 'a', 1)] + (['MISSING'] if miss == 3 else []) + [('vw.kws', 'f1', 1)] + (
        [('vw.kws', 'r', 'REF')] if req else [])
    ev_f2 = [('vw.dflt', 'a', 2), ('vw.kws', 'f2', 1)] + ([('vw.kws', 'r', 7)] if req == 2 else [])
    ev_g = [('vw.dflt', 'a', 4), ('vw.kws', 'g', 1)]

    def text(evs):
      return ''.join("include 'missing14.gin'\n" if e == 'MISSING' else
                     '%s.%s = %s\n' % (e[0], e[1], '%gin.REQUIRED' if e[2] == 'REF' else e[2]) for e in evs)
    world.use_mem_fs({'f1.gin': text(ev_f1), 'f2.gin': text(ev_f2), 'g14.gin': text(ev_g)})
    files, events = [], []
    if fshape != 2:
      files = ['f1.gin', 'f2.gin']
      events = ev_f1 + ev_f2
      if miss == 1:
        files, events = ['missing14.gin'] + files, ['MISSING'] + events
      if miss == 2:
        files, events = ['f1.gin', 'missing14.gin', 'f2.gin'], ev_f1 + ['MISSING'] + ev_f2
    binds = []
    if bshape != 3:
      binds = ['vw.dflt.a = 3', 'vw.kws.bb = 1'] + (['vw.kws.r = 8'] if req == 3 else [])
      events = events + [('vw.dflt', 'a', 3), ('vw.kws', 'bb', 1)] + ([('vw.kws', 'r', 8)] if req == 3 else [])
      if bshape == 4:
        binds.append("include 'g14.gin'")
        events = events + ev_g
      if miss == 4:
        binds.append("include 'missing14.gin'")
        events = events + ['MISSING']
    arg_f = [files, tuple(files), None][fshape]
    arg_b = [binds, tuple(binds), '\n'.join(binds), None, binds][bshape]
    want, missing = {}, False
    for e in events:
      if e == 'MISSING':
        missing = True
        break
      want.setdefault(('', e[0]), {})[e[1]] = e[2]
    unmet = want.get(('', 'vw.kws'), {}).get('r') == 'REF'
    calls = []
    if hook:
      def seen_by_hook(config):
        calls.append(_state())
        return {'vw.dflt.b': 7}
      gin.config.register_finalize_hook(seen_by_hook)
    exc = res = None
    try:
      if fin:
        res = gin.parse_config_files_and_bindings(arg_f, arg_b)             # finalizing is the default
      else:
        res = gin.parse_config_files_and_bindings(arg_f, arg_b, finalize_config=False)
    except Exception as e:
      exc = e
    st = _state()
    if missing:
      # files in the order given, then the bindings: what precedes the unreadable name is applied, nothing after it
      if not _ioerror_ok(exc, 'missing14.gin', ['']):
        return False
      if st != want:
        return rt.no('applied with a missing file: %r, expected %r' % (st, want))
      return (not gin.config_is_locked() and not calls) or rt.no('finalized although a file was missing')
    if fin and unmet and exc is not None:
      # finalizing rejected the never-overridden %gin.REQUIRED: by then files AND bindings had been applied
      return (isinstance(exc, ValueError) and st == want) or rt.no('failed finalize: %r %r' % (exc, st))
    if exc is not None:
      return rt.no('unexpected exception %r' % (exc,))
    if [r.filename for r in res] != files:
      return rt.no('returned list')
    if gin.config_is_locked() != fin:
      return rt.no('finalize flag')
    if not fin or not hook:
      return (st == want and not calls) or rt.no('bindings: %r, expected %r' % (st, want))
    # the hook ran exactly once, after the files and the bindings, and its update was applied
    if calls != [want]:
      return rt.no('finalize hook saw %r, expected once %r' % (calls, want))
    want.setdefault(('', 'vw.dflt'), {})['b'] = 7
    return st == want or rt.no('after the hook: %r' % (st,))


HARNESSES = {
    'c14_include': dict(
        fn='c14_include',
        anchors=['gin.config:parse_config_file', 'gin.config:parse_config'],
        smoke=[dict(shape=2, mid=True, a1=True, a2=False, b1=True, b2=True, c1=False, c2=True,
                    v0=0, v1=1, v2=2, v3=3, v4=4, v5=5, vm=9, spell=sp) for sp in range(5)],
        tiers={'quick': dict(split=dict(shape=[0, 1, 2, 3], mid=[False, True], spell=[0, 1, 2, 3, 4]), budget_s=100),
               'thorough': dict(split=dict(shape=[0, 1, 2, 3], mid=[False, True], a1=[False, True],
                                           spell=[0, 1, 2, 3, 4]), budget_s=300)},
        bounds='3 files, 4 include-tree shapes (chain, two children, nested+repeated, none), a conflicting binding '
               'optionally before and after the includes of every file and between two includes; the conflicting '
               'binding written flat everywhere / as a block in the middle file / with a shorter selector in the outer '
               'files / under a scoped key / as a macro re-bound across the boundaries; per-file imports; '
               'values: all ints (through constants)'),
    'c14_search': dict(
        fn='c14_search',
        anchors=['gin.config:parse_config_file', 'gin.config:register_file_reader',
                 'gin.config:add_config_file_search_path'],
        smoke=[dict(badinc=False, order=True, rorder=False, absolute=False, e00=False, e01=False, e10=True, e11=True,
                    e20=True, e21=False, deco=False, vanish=False),
               dict(badinc=True, order=False, rorder=True, absolute=False, e00=False, e01=False, e10=True, e11=True,
                    e20=True, e21=False, deco=True, vanish=False),
               dict(badinc=False, order=False, rorder=True, absolute=False, e00=False, e01=False, e10=True, e11=True,
                    e20=True, e21=False, deco=True, vanish=True)],
        tiers={'quick': dict(split=dict(order=[False, True], rorder=[False, True], deco=[False, True],
                                        vanish=[False, True]), budget_s=100),
               'thorough': dict(split=dict(order=[False, True], rorder=[False, True], deco=[False, True],
                                           vanish=[False, True], absolute=[False, True]), budget_s=300)},
        bounds='3 search locations (current directory + 2 added in either order) x 2 readers registered in either '
               'order, by the two-argument call or in decorator form; existence of the file per (location, reader) is a '
               'symbolic boolean returned by the reader\'s own existence check; relative or absolute name; optionally '
               'every candidate includes a name nobody can read, or its open fails after the positive existence check '
               '(either failure must propagate: no other candidate is opened, nothing more is applied)'),
    'c14_entry': dict(
        fn='c14_entry',
        anchors=['gin.config:parse_config_files_and_bindings', 'gin.config:finalize'],
        smoke=[dict(nfiles=2, b=True, fin=True, unknown=0, entry=0, v1=1, v2=2, v3=3),
               dict(nfiles=2, b=True, fin=True, unknown=2, entry=0, v1=1, v2=2, v3=3)],
        tiers={'quick': dict(split=dict(entry=[0, 1, 2]), budget_s=100),
               'thorough': dict(split=dict(entry=[0, 1, 2], nfiles=[0, 1, 2]), budget_s=300)},
        bounds='0-2 files + optional extra binding, finalize on/off, an unknown name in either file or in the '
               'bindings, through all three parsing entry points'),
    'c14_pkg': dict(
        fn='c14_pkg',
        anchors=['gin.config:parse_config_file', 'gin.resource_reader:system_path_file_exists',
                 'gin.resource_reader:system_path_reader', 'gin.resource_reader:_parse_config_path'],
        smoke=[dict(name=k, via=k % 4, mem=0) for k in range(13)] + [dict(name=9, via=0, mem=1),
                                                                     dict(name=11, via=1, mem=2)],
        tiers={'quick': dict(split=dict(via=[0, 1, 2, 3]), budget_s=100),
               'thorough': dict(split=dict(via=[0, 1, 2, 3], mem=[0, 1, 2]), budget_s=300)},
        bounds='13 kinds of name resolved by Gin\'s own readers against the fixture package vfp14 on the Python path '
               '(file in a package / sub-package, dotted package spelling, a package file including a package-relative '
               'name, parent package missing, sub-package missing, file missing, namespace-package head, head naming a '
               'module, bare name or sub-directory name under an added package location with and without trailing '
               'slash, absolute path) x 4 ways in (parse_config_file, include from a file, multi-file entry, include '
               'from parse_config bindings) x an in-memory file of the same name registered after the package reader '
               '(none / under the name as given / under the location-qualified name)'),
    'c14_disk': dict(
        fn='c14_disk',
        anchors=['gin.config:parse_config_file', 'gin.config:add_config_file_search_path',
                 'gin.resource_reader:system_path_file_exists'],
        smoke=[dict(l1=0, l2=1, dp=True, m0=False, m1=True, m2=True, slash=False, absn=False),
               dict(l1=1, l2=0, dp=True, m0=False, m1=True, m2=False, slash=True, absn=False),
               dict(l1=0, l2=0, dp=False, m0=False, m1=False, m2=True, slash=False, absn=False),
               dict(l1=2, l2=1, dp=True, m0=True, m1=False, m2=False, slash=False, absn=True),
               dict(l1=2, l2=2, dp=False, m0=False, m1=False, m2=False, slash=False, absn=False)],
        tiers={'quick': dict(split=dict(l1=[0, 1, 2], absn=[False, True]), budget_s=100),
               'thorough': dict(split=dict(l1=[0, 1, 2], l2=[0, 1, 2], absn=[False, True]), budget_s=300)},
        bounds='current directory + 2 added locations, each a real temporary directory / a package directory holding '
               'the file / a package directory without it (equal kinds = the same location registered twice), with or '
               'without trailing slash; the file present on disk or not, and present in the in-memory reader at any '
               'subset of the 3 locations; relative name or the absolute path of the disk file; readers in Gin\'s order: '
               'built-in open, Python-path reader, registered reader'),
    'c14_nested': dict(
        fn='c14_nested',
        anchors=['gin.config:parse_config_file', 'gin.config:add_config_file_search_path'],
        smoke=[dict(order=False, a0=False, a1=True, a2=False, b0=True, b1=True, b2=False),
               dict(order=True, a0=False, a1=True, a2=True, b0=False, b1=False, b2=False)],
        tiers={'quick': dict(split=dict(order=[False, True]), budget_s=100),
               'thorough': dict(split=dict(order=[False, True], a0=[False, True]), budget_s=300)},
        bounds='an including file and the file it includes, each present at any subset of 3 locations (2 added in '
               'either order): the included name is resolved from the full location list, independently of where the '
               'including file was found'),
    'c14_skip': dict(
        fn='c14_skip',
        anchors=['gin.config:parse_config_files_and_bindings', 'gin.config:parse_config_file',
                 'gin.config:parse_config', 'gin.config:_should_skip'],
        smoke=[dict(entry=0, depth=2, what=0, skip=1), dict(entry=1, depth=1, what=1, skip=1),
               dict(entry=2, depth=2, what=0, skip=2), dict(entry=3, depth=1, what=0, skip=3),
               dict(entry=2, depth=1, what=0, skip=0), dict(entry=3, depth=2, what=1, skip=0)],
        tiers={'quick': dict(split=dict(entry=[0, 1, 2, 3]), budget_s=100),
               'thorough': dict(split=dict(entry=[0, 1, 2, 3], depth=[0, 1, 2]), budget_s=300)},
        bounds='an unknown configurable binding or an unknown import at include depth 0, 1 or 2 below each of the '
               'entry points (multi-file entry via a file or via its bindings, parse_config_file, parse_config), '
               'skip_unknown not passed (must raise) / True / a list / a tuple naming the configurable (must be '
               'skipped at every depth, everything else applied)'),
    'c14_multi': dict(
        fn='c14_multi',
        anchors=['gin.config:parse_config_files_and_bindings', 'gin.config:finalize',
                 'gin.config:find_missing_overrides_hook'],
        smoke=[dict(miss=0, fshape=0, bshape=0, fin=True, hook=True, req=3),
               dict(miss=0, fshape=1, bshape=4, fin=True, hook=True, req=2),
               dict(miss=0, fshape=2, bshape=2, fin=False, hook=True, req=0),
               dict(miss=0, fshape=0, bshape=3, fin=True, hook=False, req=1),
               dict(miss=1, fshape=0, bshape=0, fin=True, hook=True, req=0),
               dict(miss=2, fshape=1, bshape=1, fin=True, hook=True, req=1),
               dict(miss=3, fshape=0, bshape=2, fin=True, hook=False, req=0),
               dict(miss=4, fshape=2, bshape=4, fin=True, hook=True, req=0)],
        tiers={'quick': dict(split=dict(miss=[0, 1, 2, 3, 4], fin=[False, True]), budget_s=100),
               'thorough': dict(split=dict(miss=[0, 1, 2, 3, 4], fin=[False, True], bshape=[0, 1, 2, 3, 4]),
                                budget_s=300)},
        bounds='multi-file entry with files f1, f2 given as list / tuple / None, extra bindings given as list / tuple / '
               'one newline-separated string / None / a list ending in an include; a missing file first, between the '
               'files, included from the middle of f1, or included by the last binding; finalize on (by default) / off; '
               'a registered finalize hook that records what it sees and adds a binding; a %gin.REQUIRED in f1 never '
               'overridden / overridden in f2 / overridden in the bindings'),
}
ASSUMPTIONS = ['files live in an in-memory file system behind gin.register_file_reader, in the fixture package '
               '/verif/fixtures/vfp14 (read by Gin\'s own Python-path reader) or in a temporary directory created and '
               'removed per path (read by the built-in open); the current directory of the check (/verif) holds none '
               'of the names used',
               'c14_pkg, c14_disk, c14_nested, c14_skip, c14_multi run their leaves natively on concrete values: the '
               'solver enumerates the choices and certifies that the bounded choice space was covered completely']
OUTSIDE = ('include cycles, more than 3 files per tree, names relative to the current directory that exist on disk '
           '(the check never changes directory), zip-imported packages, readers whose existence check raises, '
           'print_includes_and_imports, a bare string as config_files')
