"""C14 - includes act as in-place inclusion; files resolve through ordered locations."""
import gin
from gin import config as gc
from vf import rt
from vf import world

# include-tree shapes over files A, B, C: file -> list of included files (in order)
SHAPES = [
    {'A': ['B'], 'B': ['C'], 'C': []},            # chain
    {'A': ['B', 'C'], 'B': [], 'C': []},          # two children
    {'A': ['B', 'C'], 'B': ['C'], 'C': []},       # nested and repeated
    {'A': [], 'B': [], 'C': []},                  # no includes
]
IMPORTS = {'A': ['os'], 'B': ['sys', 'os.path'], 'C': []}


def file_text(shape, name, pre, post, mid):
  lines = ['import ' + m for m in IMPORTS[name]]
  i = 'ABC'.index(name)
  if pre[i]:
    lines.append('vw.dflt.a = %%vwc.V%d' % (2 * i))
  incs = SHAPES[shape][name]
  for n, inc in enumerate(incs):
    lines.append("include '%s.gin'" % inc)
    if n == 0 and len(incs) > 1 and mid:
      lines.append('vw.dflt.a = %vwc.VM')
  if post[i]:
    lines.append('vw.dflt.a = %%vwc.V%d' % (2 * i + 1))
  lines.append('vw.kws.%s = 1' % name.lower())
  return '\n'.join(lines) + '\n'


def flatten(shape, name, pre, post, mid, writers, tree=None):
  """Reference: the writers of vw.dflt.a in flattened-text order + the include tree."""
  i = 'ABC'.index(name)
  if pre[i]:
    writers.append(2 * i)
  subs = []
  incs = SHAPES[shape][name]
  for n, inc in enumerate(incs):
    subs.append(flatten(shape, inc, pre, post, mid, writers))
    if n == 0 and len(incs) > 1 and mid:
      writers.append('M')
  if post[i]:
    writers.append(2 * i + 1)
  return (name + '.gin', list(IMPORTS[name]), subs)


def tree_of(result):
  return (result.filename, list(result.imports), [tree_of(r) for r in result.includes])


def c14_include(shape: int, mid: bool, a1: bool, a2: bool, b1: bool, b2: bool, c1: bool, c2: bool,
                v0: int, v1: int, v2: int, v3: int, v4: int, v5: int, vm: int) -> bool:
  """
  pre: 0 <= shape < 4
  """
  world.fresh()
  shape = rt.pick(shape, 4)
  mid = rt.flag(mid)
  pre = [rt.flag(a1), rt.flag(b1), rt.flag(c1)]
  post = [rt.flag(a2), rt.flag(b2), rt.flag(c2)]
  vals = {0: v0, 1: v1, 2: v2, 3: v3, 4: v4, 5: v5, 'M': vm}
  for k, v in vals.items():
    gin.constant('vwc.V%s' % k, v)
  with rt.native():
    files = {n + '.gin': file_text(shape, n, pre, post, mid) for n in 'ABC'}
    world.use_mem_fs(files)
    writers = []
    want_tree = flatten(shape, 'A', pre, post, mid, writers)
  rt.sig(('include', shape, mid, tuple(pre), tuple(post)), nontrivial=len(writers) >= 2)
  with rt.native():
    result = gin.parse_config_file('A.gin')
    if tree_of(result) != want_tree:
      return rt.no('include tree')
    cfg_inc = gin.config_str()
  bound = gin.get_bindings('vw.dflt')
  if writers:
    if list(bound) != ['a'] or not rt.same('last writer', bound['a'], vals[writers[-1]]):
      return rt.no('last writer')
  elif bound:
    return rt.no('unbound')
  with rt.native():
    # the same through a parse of the flattened text
    def inline(name):
      out = []
      for l in files[name + '.gin'].split('\n'):
        if l.startswith('include '):
          out.extend(inline(l.split("'")[1][0]))
        elif l:
          out.append(l)
      return out
    flat = '\n'.join(inline('A')) + '\n'
    gc._CONFIG.clear(); gc._CONFIG_PROVENANCE.clear(); gc._IMPORTS.clear()
    gin.parse_config(flat)
    return gin.config_str() == cfg_inc or rt.no('flattened text differs')


LOCS = ['', '/p1', '/p2']


def c14_search(badinc: bool, order: bool, rorder: bool, absolute: bool,
               e00: bool, e01: bool, e10: bool, e11: bool, e20: bool, e21: bool) -> bool:
  """
  pre: True
  """
  world.fresh()
  order, rorder, absolute, badinc = rt.flag(order), rt.flag(rorder), rt.flag(absolute), rt.flag(badinc)
  # existence of the file per (location, reader) stays SYMBOLIC: Gin's resolution
  # loop forks on the readers' existence checks themselves
  exists = {('', 0): e00, ('', 1): e01, ('/p1', 0): e10, ('/p1', 1): e11,
            ('/p2', 0): e20, ('/p2', 1): e21}
  name = '/abs/f.gin' if absolute else 'f.gin'
  seen = []

  def make(reader):
    def ex(path):
      for loc in LOCS:
        cand = (loc + '/' if loc else '') + 'f.gin' if not absolute else '/abs/f.gin'
        if path == cand:
          if absolute:
            return exists[('', reader)]
          return exists[(loc, reader)]
      return False

    def op(path):
      seen.append((path, reader))
      code = 100 + 10 * LOCS.index(path[:-len('/f.gin')] if (path.endswith('/f.gin') and not absolute) else '') + reader
      # with `badinc` every candidate first binds its code, then includes a name nobody can read
      return world._MemFile(path, 'vw.dflt.a = %d\n' % code + ("include 'nobody_has_this.gin'\nvw.dflt.b = 1\n" if badinc else ''))
    return op, ex

  readers = [make(0), make(1)]
  if rorder:
    readers.reverse()
  for op, ex in readers:
    gin.config.register_file_reader(op, ex)
  locs = ['/p1', '/p2']
  if order:
    locs.reverse()
  for l in locs:
    gin.add_config_file_search_path(l)
  exc = None
  try:
    gin.parse_config_file(name)
  except Exception as e:
    exc = e
  # ---- reference: first location in registration order, first reader within it ------
  search = [''] if absolute else [''] + locs
  rorder_ids = [1, 0] if rorder else [0, 1]
  winner = None
  for loc in search:
    for r in rorder_ids:
      if winner is None and exists[(loc, r)]:      # (forks only on feasible paths)
        winner = (loc, r)
  rt.sig(('search', badinc, order, rorder, absolute, winner), nontrivial=winner is not None)
  if winner is None:
    if not isinstance(exc, IOError) or gc._CONFIG:
      return rt.no('missing everywhere must raise IOError and apply nothing')
    with rt.native():
      msg = str(exc)
      return (name in msg and all(repr(l) in msg for l in search)) or rt.no('IOError text')
  want = 100 + 10 * LOCS.index(winner[0]) + winner[1]
  if absolute:
    want = 100 + winner[1]
  if badinc:
    # the first-found file is THE file: its unreadable include raises, what preceded it took effect,
    # and no other candidate is ever opened
    if not isinstance(exc, IOError):
      return rt.no('unreadable include inside the first-found file must raise IOError')
    if len(seen) != 1:
      return rt.no('another candidate was opened after the failure: %r' % (seen,))
    return (gin.query_parameter('vw.dflt.a') == want and gin.get_bindings('vw.dflt') == {'a': want}) or rt.no(
        'bindings after the failed include')
  if exc is not None:
    return rt.no('unexpected exception')
  return gin.query_parameter('vw.dflt.a') == want or rt.no('wrong file')


def c14_entry(nfiles: int, b: bool, fin: bool, unknown: int, entry: int,
              v1: int, v2: int, v3: int) -> bool:
  """
  pre: 0 <= nfiles <= 2 and 0 <= unknown < 4 and 0 <= entry < 3
  """
  world.fresh()
  nfiles = rt.pick(nfiles, 3)
  b, fin = rt.flag(b), rt.flag(fin)
  unknown = rt.pick(unknown, 4)     # 0 none, 1 in file 1, 2 in file 2, 3 in the bindings
  entry = rt.pick(entry, 3)
  rt.sig(('entry', nfiles, b, fin, unknown, entry), nontrivial=nfiles + b >= 2)
  gin.constant('vwc.V1', v1); gin.constant('vwc.V2', v2); gin.constant('vwc.V3', v3)
  with rt.native():
    bad = 'vw.nosuch.x = 1\n'
    world.use_mem_fs({
        'f1.gin': 'vw.dflt.a = %vwc.V1\nvw.kws.f1 = 1\n' + (bad if unknown == 1 else ''),
        'f2.gin': 'vw.dflt.a = %vwc.V2\nvw.kws.f2 = 1\n' + (bad if unknown == 2 else '')})
    files = ['f1.gin', 'f2.gin'][:nfiles]
    bindings = (['vw.dflt.a = %vwc.V3'] if b else []) + ([bad] if unknown == 3 else [])
  if entry != 0:
    # the single-purpose entry points share the default skip_unknown=False
    exc = None
    try:
      with rt.native():
        if entry == 1:
          gin.parse_config_file('f1.gin')
        else:
          gin.parse_config(bindings)
    except Exception as e:
      exc = e
    hit = (entry == 1 and unknown == 1) or (entry == 2 and unknown == 3)
    return (isinstance(exc, ValueError) if hit else exc is None) or rt.no('default skip_unknown')
  exc = None
  try:
    with rt.native():
      res = gin.parse_config_files_and_bindings(files, bindings, finalize_config=fin)
  except Exception as e:
    exc = e
  hit = (unknown == 1 and nfiles >= 1) or (unknown == 2 and nfiles >= 2) or unknown == 3
  if hit:
    return (isinstance(exc, ValueError) and not gin.config_is_locked()) or rt.no('unknown name must raise')
  if exc is not None:
    return rt.no('unexpected exception')
  if gin.config_is_locked() != fin:
    return rt.no('finalize flag')
  with rt.native():
    if [r.filename for r in res] != files:
      return rt.no('returned list')
  want = None
  if nfiles >= 1: want = v1
  if nfiles >= 2: want = v2
  if b: want = v3
  got = gin.get_bindings('vw.dflt')
  if want is None:
    return got == {} or rt.no('nothing bound')
  return rt.same('order files, bindings', got['a'], want)


HARNESSES = {
    'c14_include': dict(
        fn='c14_include',
        anchors=['gin.config:parse_config_file', 'gin.config:parse_config'],
        smoke=[dict(shape=2, mid=True, a1=True, a2=False, b1=True, b2=True, c1=False, c2=True,
                    v0=0, v1=1, v2=2, v3=3, v4=4, v5=5, vm=9)],
        tiers={'quick': dict(split=dict(shape=[0, 1, 2, 3], mid=[False, True]), budget_s=100),
               'thorough': dict(split=dict(shape=[0, 1, 2, 3], mid=[False, True], a1=[False, True]),
                                budget_s=300)},
        bounds='3 files, 4 include-tree shapes (chain, two children, nested+repeated, none), a conflicting binding '
               'optionally before and after the includes of every file and between two includes; per-file imports; '
               'values: all ints (through constants)'),
    'c14_search': dict(
        fn='c14_search',
        anchors=['gin.config:parse_config_file', 'gin.config:register_file_reader',
                 'gin.config:add_config_file_search_path'],
        smoke=[dict(badinc=False, order=True, rorder=False, absolute=False, e00=False, e01=False, e10=True, e11=True,
                    e20=True, e21=False),
               dict(badinc=True, order=False, rorder=True, absolute=False, e00=False, e01=False, e10=True, e11=True,
                    e20=True, e21=False)],
        tiers={'quick': dict(split=dict(order=[False, True], rorder=[False, True]), budget_s=100),
               'thorough': dict(split=dict(order=[False, True], rorder=[False, True],
                                           absolute=[False, True]), budget_s=300)},
        bounds='3 search locations (current directory + 2 added in either order) x 2 readers registered in either '
               'order; existence of the file per (location, reader) is a symbolic boolean returned by the reader\'s '
               'own existence check; relative or absolute name; optionally every candidate includes a name nobody can read (the failure must propagate, no fall-through)'),
    'c14_entry': dict(
        fn='c14_entry',
        anchors=['gin.config:parse_config_files_and_bindings', 'gin.config:finalize'],
        smoke=[dict(nfiles=2, b=True, fin=True, unknown=0, entry=0, v1=1, v2=2, v3=3),
               dict(nfiles=2, b=True, fin=True, unknown=2, entry=0, v1=1, v2=2, v3=3)],
        tiers={'quick': dict(split=dict(entry=[0, 1, 2]), budget_s=100),
               'thorough': dict(split=dict(entry=[0, 1, 2], nfiles=[0, 1, 2]), budget_s=300)},
        bounds='0-2 files + optional extra binding, finalize on/off, an unknown name in either file or in the '
               'bindings, through all three parsing entry points'),
}
ASSUMPTIONS = ['files live in an in-memory file system behind gin.register_file_reader; package-relative names '
               '(gin/resource_reader.py) are exercised only by the repository\'s own test and are outside this check']
OUTSIDE = 'real files on disk, the package reader, include cycles, more than 3 files'
