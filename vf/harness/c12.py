"""C12 - finalize locks the configuration; unlock_config always restores the lock."""
import os
import sys

sys.path.insert(0, os.path.join(os.path.dirname(os.path.dirname(os.path.dirname(
    os.path.abspath(__file__)))), 'fixtures'))

import gin
from gin import config as gc
from vf import rt
from vf import world
import vfx.alpha.mod as _VFXA   # a plain module (nothing registered at import): target of `import` statements


class Boom(Exception):
  pass


def _wide():
  """Deep observation of the configuration stores: keys of _CONFIG with the IDENTITY of every bound value,
  provenance keys, the import set, the constants (names and value identities), the registry selectors and
  the selector renames.  Taken and compared natively (identity only: S-values are never inspected)."""
  with rt.native():
    return dict(cfg={k: dict(d) for k, d in gc._CONFIG.items()},
                prov={k: sorted(d) for k, d in gc._CONFIG_PROVENANCE.items()},
                imports=set(gc._IMPORTS),
                consts=dict(gc._CONSTANTS.items()),
                registry=sorted(gc._REGISTRY._selector_map),
                renamed=dict(gc._RENAMED_SELECTORS))


def _val_same(a, b):
  if a is b:
    return True
  return type(a) is type(b) and type(a) in (int, str, bool, float, tuple) and a == b


def _cfg_cmp(a, b):
  """(native) None when the two {key: {param: value}} differ in keys / params / plain values; otherwise the list of
  value pairs that are neither identical nor plain literals (left to a traced == by the caller)."""
  pend = []
  if set(a) != set(b):
    return None
  for k in a:
    if set(a[k]) != set(b[k]):
      return None
    for p_ in a[k]:
      x, y = a[k][p_], b[k][p_]
      if _val_same(x, y):
        continue
      if type(x) in (int, str, bool, float, tuple) or type(y) in (int, str, bool, float, tuple):
        return None
      pend.append((x, y))
  return pend


def _cfg_same(a, b):
  """{key: {param: value}} equal: same keys, same params, identical (or equal) values."""
  with rt.native():
    pend = _cfg_cmp(a, b)
  if pend is None:
    return False
  for x, y in pend:
    if not (x == y):
      return False
  return True


def _wide_diff(a, b, parts=('cfg', 'prov', 'imports', 'consts', 'registry', 'renamed')):
  """Name of the first store that differs between two _wide() observations, or None."""
  for part in parts:
    if part == 'cfg':
      if not _cfg_same(a['cfg'], b['cfg']):
        return 'cfg'
      continue
    with rt.native():
      if part == 'consts':
        if set(a['consts']) != set(b['consts']) or any(a['consts'][n] is not b['consts'][n] for n in a['consts']):
          return 'consts'
      elif a[part] != b[part]:
        return part
  return None


def _cfg_plus(cfg, items):
  """Copy of an observed cfg with (scope, selector, param, value) entries set."""
  with rt.native():
    out = {k: dict(d) for k, d in cfg.items()}
    for scope, sel, param, val in items:
      out.setdefault((scope, sel), {})[param] = val
    return out


def _cleanup_vfx():
  with rt.native():
    for sel in list(gc._REGISTRY._selector_map):
      if sel.startswith('vfx.alpha.'):
        gc._REGISTRY.pop(sel)
    for obj in list(gc._INVERSE_REGISTRY):
      if (getattr(obj, '__module__', '') or '') == 'vfx.alpha.mod':
        del gc._INVERSE_REGISTRY[obj]
    gc._RENAMED_SELECTORS.clear()


BIND_KEYS = ["'vw.dflt.a'", "('', 'vw.dflt', 'a')", 'a ParsedBindingKey made before the lock',
             "'vw.nosuch.x' (unknown configurable)"]
PARSE_KINDS = ['two bindings (one scoped)', 'macro statement m = 1', 'import statement alone',
               "include 'f.gin' (in-memory file with one binding)", "parse_config_file('f.gin')",
               "parse_config_files_and_bindings(['f.gin'], [binding], finalize_config=False)",
               'parse_config_files_and_bindings([], [], finalize_config=True)',
               'dynamic registration: import + binding whose value registers vfx.alpha.mod.fn',
               "gin.constant('vwc12.K', 1)", 'import statement followed by a binding']
DYN_TEXT = ('from __gin__ import dynamic_registration\nimport vfx.alpha.mod as am\n'
            'am.consumer.p = @am.fn()\n')


def _snapshot():
  """Observable configuration: the config string would stringify S-values, so
  the snapshot is the set of (scope, selector, param) -> value read through
  query_parameter on a fixed battery of keys."""
  out = {}
  for key in ('vw.dflt.a', 'vw.dflt.b', 's/vw.dflt.a', 'vw.plain.a'):
    try:
      out[key] = gin.query_parameter(key)
    except ValueError:
      out[key] = None
  return out


def c12_step(locked: bool, has: bool, op: int, body: int, regkind: int, sub: int, v0: int, v1: int, v2: int) -> bool:
  """
  pre: 0 <= op < 6 and 0 <= body < 9 and 0 <= regkind < 6 and 0 <= sub < 10
  """
  world.fresh()
  _cleanup_vfx()
  locked, has = rt.flag(locked), rt.flag(has)
  op = rt.pick(op, 6)
  body = rt.pick(body, 9)
  if body in (6, 7, 8) and locked and body != 8:
    rt.discard()            # bodies 6/7 finalize inside the block: only possible when entered unlocked
  if op != 5 and body != 0:
    rt.discard()
  regkind = rt.pick(regkind, 6)
  if op != 2 and regkind != 0:
    rt.discard()
  # sub: key shape of the bind (op 0) / statement kind or entry point of the parse (op 1)
  if op in (0, 1):
    sub = rt.pick(sub, 10)
    if op == 0 and sub >= len(BIND_KEYS):
      rt.discard()
  else:
    if sub != 0:
      rt.discard()
    sub = 0
  pbk = None
  if op == 0 and sub == 2:
    pbk = gc.ParsedBindingKey.parse('vw.dflt.a')
  if op == 1 and sub in (3, 4, 5):
    with rt.native():
      world.use_mem_fs({'f.gin': 'vw.dflt.b = 7\n'})
  # a class one of whose methods is registered on its own BEFORE the config is locked
  pre_cls = None
  if op == 2 and regkind in (2, 3):
    with rt.native():
      class C12WithMethod:
        def __init__(self, z=1):
          self.z = z
        @gin.register
        def c12meth(self, m=0):
          return ('c12meth', m)
      pre_cls = C12WithMethod
    gin.bind_parameter('vf.harness.c12.c12meth.m', v2)
  if has:
    gin.bind_parameter('vw.dflt.a', v0)
  if locked:
    gin.finalize()
  if gin.config_is_locked() != locked:
    return False
  before = _snapshot()
  wbefore = _wide()
  wafter = None
  rt.sig(('step', locked, has, op, body, regkind, sub), nontrivial=locked or op == 5)
  exc = None
  registered = None
  try:
    if op == 0:
      if sub == 0:
        gin.bind_parameter('vw.dflt.a', v1)
      elif sub == 1:
        gin.bind_parameter(('', 'vw.dflt', 'a'), v1)
      elif sub == 2:
        gin.bind_parameter(pbk, v1)
      else:
        gin.bind_parameter('vw.nosuch.x', v1)
    elif op == 1 and sub == 0:
      with rt.native():
        text = 'vw.dflt.b = 7\ns/vw.dflt.a = 8\n'
      gin.parse_config(text)
    elif op == 1:
      with rt.native():                  # everything concrete from here on: run natively
        if sub == 1:
          gin.parse_config('m = 1\n')
        elif sub == 2:
          gin.parse_config('import vfx.alpha.mod\n')
        elif sub == 3:
          gin.parse_config("include 'f.gin'\n")
        elif sub == 4:
          gin.parse_config_file('f.gin')
        elif sub == 5:
          gin.parse_config_files_and_bindings(['f.gin'], ['s/vw.dflt.a = 8'], finalize_config=False)
        elif sub == 6:
          gin.parse_config_files_and_bindings([], [], finalize_config=True)
        elif sub == 7:
          gin.parse_config(DYN_TEXT)
        elif sub == 8:
          gin.constant('vwc12.K', 1)
        else:
          gin.parse_config('import vfx.alpha.mod\nvw.dflt.a = 3\n')
    elif op == 2:
      with rt.native():
        def c12tmp(z=1):
          return z

        class C12Plain:
          def __init__(self, z=1):
            self.z = z
        c12tmp = [c12tmp, C12Plain, pre_cls, pre_cls, c12tmp, c12tmp][regkind]
        c12tmp.__name__ = 'c12tmp'
        init_before = vars(c12tmp).get('__init__') if regkind in (1, 2, 3) else None
      registered = c12tmp
      if regkind == 1:
        gin.configurable('c12tmp', module='vw')(c12tmp)          # decorates the class in place
      elif regkind == 3:
        gin.register('c12tmp', module='vw')(c12tmp)
      elif regkind == 4:
        gin.configurable(c12tmp)                                  # bare decorator: name and module from the function
      elif regkind == 5:
        gin.register('c12tmp', module='vw')(c12tmp)               # register() on a function
      else:
        gin.external_configurable(c12tmp, 'c12tmp', module='vw')
    elif op == 3:
      gin.finalize()
    elif op == 4:
      gin.clear_config()
    else:
      with gin.unlock_config():
        if body == 1:
          gin.bind_parameter('vw.dflt.a', v1)
        elif body == 2:
          raise Boom()
        elif body == 3:
          with gin.unlock_config():
            gin.bind_parameter('vw.dflt.a', v1)
          gin.bind_parameter('vw.plain.a', v2)
        elif body == 4:
          try:
            with gin.unlock_config():
              raise Boom()
          except Boom:
            pass
          gin.bind_parameter('vw.dflt.a', v1)
        elif body == 5:
          with gin.unlock_config():
            raise Boom()
        elif body == 6:
          gin.finalize()                 # the body locks: the ENTRY state (unlocked) is restored
        elif body == 7:
          gin.finalize()
          raise Boom()
        elif body == 8:
          with gin.unlock_config():      # the inner block is entered unlocked and its body finalizes
            gin.finalize()
          if gin.config_is_locked():
            raise AssertionError('inner unlock_config did not restore its entry state')
  except Exception as e:
    exc = e
  finally:
    wafter = _wide()                     # before the harness's own clean-up touches the registry
    if registered is not None:
      with rt.native():
        tmp_sel = 'vf.harness.c12.c12tmp' if regkind == 4 else 'vw.c12tmp'
        if tmp_sel in gc._REGISTRY:
          gc._REGISTRY.pop(tmp_sel)
          was_registered = True
        else:
          was_registered = False
        gc._INVERSE_REGISTRY.pop(registered, None)
        side_effect = None
        if regkind in (1, 2, 3) and locked:
          if vars(registered).get('__init__') is not init_before:
            side_effect = 'the class was decorated although the registration was rejected'
          if regkind in (2, 3):
            # the separately registered method must still be addressable and bound as before
            try:
              if gin.query_parameter('vf.harness.c12.c12meth.m') is not v2:
                side_effect = 'binding of the separately registered method changed'
            except Exception as e_:
              side_effect = 'rejected class registration re-keyed its registered method: %r' % (e_,)
        for n_ in list(gc._REGISTRY._selector_map):
          if 'c12meth' in n_:
            gc._REGISTRY.pop(n_)
        if pre_cls is not None:
          gc._INVERSE_REGISTRY.pop(vars(pre_cls)['c12meth'], None)
        gc._RENAMED_SELECTORS.clear()
  after = _snapshot()
  now_locked = gin.config_is_locked()
  if op == 1 and sub == 7:
    _cleanup_vfx()
  # whole-store comparison, only where the operation must have changed nothing
  must_be_unchanged = ((locked and op in (0, 1, 2)) or op == 3 or (op == 0 and sub == 3) or (op == 1 and sub == 6))
  wdiff = _wide_diff(wbefore, wafter) if must_be_unchanged else None

  if op == 1 and sub in (2, 8):
    # an import statement alone / a constant: neither a binding nor a registration - the statement does not say
    # whether it must raise under lock; it may not touch the bindings or the lock either way
    if now_locked != locked:
      return rt.no('lock state changed')
    if _wide_diff(wbefore, wafter, ('cfg', 'prov', 'registry')):
      return rt.no('bindings / registry changed by a statement that binds nothing')
    return locked or exc is None
  if op == 1 and sub == 6:
    # finalize through parse_config_files_and_bindings: twice is an error, once locks
    if locked:
      return isinstance(exc, RuntimeError) and now_locked and wdiff is None
    return exc is None and now_locked and wdiff is None
  if op == 0 and sub == 3:
    # unknown configurable: raises in either state (which exception wins under lock is not fixed by the statement)
    return exc is not None and now_locked == locked and wdiff is None
  if op in (0, 1) and sub != 0:
    if locked:
      if exc is None:
        return rt.no('%s accepted under lock' % ((BIND_KEYS if op == 0 else PARSE_KINDS)[sub],))
      if wdiff:
        return rt.no('rejected operation changed %s' % (wdiff,))
      return now_locked
    if exc is not None or now_locked:
      return False
    if op == 0:
      wantc = _cfg_plus(wbefore['cfg'], [('', 'vw.dflt', 'a', v1)])
    elif sub == 1:
      wantc = _cfg_plus(wbefore['cfg'], [('m', 'gin.macro', 'value', 1)])
    elif sub in (3, 4):
      wantc = _cfg_plus(wbefore['cfg'], [('', 'vw.dflt', 'b', 7)])
    elif sub == 5:
      wantc = _cfg_plus(wbefore['cfg'], [('', 'vw.dflt', 'b', 7), ('s', 'vw.dflt', 'a', 8)])
    elif sub == 7:
      with rt.native():
        got = wafter['cfg'].get(('', 'vfx.alpha.am.consumer'), {}).get('p')
        if not isinstance(got, gc.ConfigurableReference) or 'vfx.alpha.am.fn' not in wafter['registry']:
          return rt.no('dynamic registration text not applied when unlocked')
        wantc = _cfg_plus(wbefore['cfg'], [('', 'vfx.alpha.am.consumer', 'p', got)])
    else:
      wantc = _cfg_plus(wbefore['cfg'], [('', 'vw.dflt', 'a', 3)])
    return _cfg_same(wafter['cfg'], wantc)

  if op in (0, 1, 2):
    if locked:
      ok = isinstance(exc, RuntimeError) and after == before and now_locked
      if wdiff:
        return rt.no('rejected operation changed %s' % (wdiff,))
      if op == 2:
        ok = ok and not was_registered
        if side_effect:
          return rt.no(side_effect)
      return ok
    if exc is not None or now_locked:
      return False
    if op == 0:
      want = dict(before)
      want['vw.dflt.a'] = v1
      return after == want
    if op == 1:
      want = dict(before)
      want['vw.dflt.b'] = 7
      want['s/vw.dflt.a'] = 8
      return after == want
    return was_registered and after == before
  if op == 3:
    if wdiff:
      return rt.no('finalize without hooks changed %s' % (wdiff,))
    if locked:
      return isinstance(exc, RuntimeError) and now_locked and after == before
    return exc is None and now_locked and after == before
  if op == 4:
    empty = {k: None for k in before}
    return exc is None and not now_locked and after == empty
  # unlock_config block: the lock state on entry is restored on every exit path
  if now_locked != locked:
    return False
  want = dict(before)
  if body in (1, 4):
    want['vw.dflt.a'] = v1
  if body == 3:
    want['vw.dflt.a'] = v1
    want['vw.plain.a'] = v2
  if body in (2, 5, 7):
    if not isinstance(exc, Boom):
      return False
  elif exc is not None:
    return False
  return after == want


import types as _types

_A, _B, _SA = ('', 'vw.dflt', 'a'), ('', 'vw.dflt', 'b'), ('s', 'vw.dflt', 'a')
# (what the hook does, mode, key factory, parameters it updates)
#   modes: ok = valid key(s); unknown = the original invalid key (ValueError demanded); bad = a key ParsedBindingKey.parse
#   refuses on another branch (any exception); two / raise / nonmap = the statement fixes only "clean outcome"
HOOKS = [
    ('absent', 'absent', None, ()),
    ('returns None', 'none', None, ()),
    ('returns {}', 'empty', None, ()),
    ("binds 'vw.dflt.b'", 'ok', lambda: 'vw.dflt.b', (_B,)),
    ("binds 'dflt.a'", 'ok', lambda: 'dflt.a', (_A,)),
    ("binds 'vw.dflt.a'", 'ok', lambda: 'vw.dflt.a', (_A,)),
    ("binds ('', 'vw.dflt', 'a')", 'ok', lambda: ('', 'vw.dflt', 'a'), (_A,)),
    ('invalid key', 'unknown', lambda: 'vw.nosuch.x', ()),
    ("binds 's/dflt.a'", 'ok', lambda: 's/dflt.a', (_SA,)),
    # ---- widened vocabulary (hook kinds 9..29) ----
    ("binds 's/vw.dflt.a'", 'ok', lambda: 's/vw.dflt.a', (_SA,)),
    ("binds ('s', 'vw.dflt', 'a')", 'ok', lambda: ('s', 'vw.dflt', 'a'), (_SA,)),
    ("binds ('s', 'dflt', 'a')", 'ok', lambda: ('s', 'dflt', 'a'), (_SA,)),
    ("returns a mappingproxy {'vw.dflt.a': w}", 'proxy', lambda: 'vw.dflt.a', (_A,)),
    ("binds ParsedBindingKey.parse('dflt.a')", 'ok', lambda: gc.ParsedBindingKey.parse('dflt.a'), (_A,)),
    ("binds 's/t/dflt.a'", 'ok', lambda: 's/t/dflt.a', (('s/t', 'vw.dflt', 'a'),)),
    ("one hook returns {'dflt.a': w, 'vw.dflt.a': w'}", 'two', None, (_A,)),
    ("binds 'vw.case.Foo.p'", 'ok', lambda: 'vw.case.Foo.p', (('', 'vw.case.Foo', 'p'),)),
    ("binds 'vw.case.foo.p'", 'ok', lambda: 'vw.case.foo.p', (('', 'vw.case.foo', 'p'),)),
    ("key 'vw.dflt.zz' (no such parameter)", 'bad', lambda: 'vw.dflt.zz', ()),
    ("key 'vw.deny_b.b' (denylisted)", 'bad', lambda: 'vw.deny_b.b', ()),
    ("key 'vw.allow_a.b' (not allowlisted)", 'bad', lambda: 'vw.allow_a.b', ()),
    ("key 'meth.a' (method without its class)", 'bad', lambda: 'meth.a', ()),
    ("key 'fam.p' (ambiguous selector)", 'bad', lambda: 'fam.p', ()),
    ("binds 'vw.kws.anything' (**kwargs)", 'ok', lambda: 'vw.kws.anything', (('', 'vw.kws', 'anything'),)),
    ("binds 'vw.Kmeth.meth.a'", 'ok', lambda: 'vw.Kmeth.meth.a', (('', 'vw.Kmeth.meth', 'a'),)),
    ("key ('vw.dflt', 'a') (2-tuple)", 'bad', lambda: ('vw.dflt', 'a'), ()),
    ("key ('', 'vw.dflt', 'a', 'x') (4-tuple)", 'bad', lambda: ('', 'vw.dflt', 'a', 'x'), ()),
    ('key 5 (not a string)', 'bad', lambda: 5, ()),
    ('raises its own exception', 'raise', None, ()),
    ("returns a list [('vw.dflt.a', w)]", 'nonmap', None, ()),
]
HOOK_KINDS = [h_[0] for h_ in HOOKS]
NHOOK = len(HOOKS)
FAULTS = ['none', 'unbound macro', 'unevaluated macro reference', 'unknown-reference placeholder',
          '%gin.REQUIRED left in place', 'macro bound and evaluated (fine)',
          'unbound macro as a dict KEY', 'unknown-reference placeholder as a dict KEY',
          'unevaluated macro reference as a dict KEY', '%gin.REQUIRED then overridden (fine)',
          '%gin.REQUIRED overridden only in a sub-scope', 'macro defined after its use (fine)',
          '%gin.REQUIRED on a scoped binding']
FAULT_TEXT = {
    1: ('vw.plain.a = %undefined_macro', False),
    2: ('m = 1\nvw.plain.a = @m/gin.macro', False),
    3: ('vw.plain.a = [1, {"k": (@nosuch(),)}]', True),
    4: ('vw.plain.a = %gin.REQUIRED', False),
    5: ('m = 1\nvw.plain.a = %m', False),
    6: ('vw.plain.a = {%undefined_macro: 1}', False),
    7: ('vw.plain.a = {@nosuch(): 1}', True),
    8: ('m = 1\nvw.plain.a = {@m/gin.macro: 1}', False),
    9: ('vw.plain.a = %gin.REQUIRED\nvw.plain.a = 3', False),
    10: ('vw.plain.a = %gin.REQUIRED\ns/vw.plain.a = 3', False),
    11: ('vw.plain.a = %m\nm = 1', False),
    12: ('s/vw.plain.a = %gin.REQUIRED', False),
}
FAULT_REJECTS = (1, 2, 3, 4, 6, 7, 8, 10, 12)
FAULT_STRINGIFIES = (1, 2, 6, 8)     # the rejection message embeds config_str()
HISTORIES = ['one finalize', 'rejected by a fault, fault repaired with bind_parameter, finalize again',
             'finalize, clear_config, finalize again', 'the first hook function is registered twice',
             'finalize, unlock_config block parses a faulty binding, finalize again']


def _finalize_case(kinds, vals, fault, has, under, hist, v0):
  """kinds: concrete hook kinds in registration order; vals: the values they return."""
  if fault in FAULT_STRINGIFIES:
    # the error message of these faults embeds config_str(), i.e. Gin
    # stringifies every bound value: S-inputs must not reach a stringifier
    # (DESIGN.md section 2), so the pre-existing value is concrete here.
    v0 = 41
  if has:
    gin.bind_parameter('vw.dflt.a', v0)
  if fault:
    with rt.native():
      gin.parse_config(FAULT_TEXT[fault][0], skip_unknown=FAULT_TEXT[fault][1])
  seen = []
  alts = []

  def mk(kind, val):
    mode = HOOKS[kind][1]

    def hook(config):
      with rt.native():
        seen.append({k: dict(d) for k, d in config.items()})
      if mode == 'none':
        return None
      if mode == 'empty':
        return {}
      if mode == 'raise':
        raise Boom()
      if mode == 'nonmap':
        return [('vw.dflt.a', val)]
      if mode == 'two':
        alts.append(val + 1)
        return {'dflt.a': val, 'vw.dflt.a': alts[-1]}
      if mode == 'proxy':
        return _types.MappingProxyType({HOOKS[kind][2](): val})
      return {HOOKS[kind][2](): val}
    return hook

  nreg = 0
  for i, kind in enumerate(kinds):
    if kind:
      fn = mk(kind, vals[i])
      gin.config.register_finalize_hook(fn)
      nreg += 1
      if hist == 3 and i == 0:
        gin.config.register_finalize_hook(fn)
        nreg += 1
  modes = [HOOKS[k][1] for k in kinds if k]
  unknown = 'unknown' in modes
  bad = 'bad' in modes
  lenient = ('two' in modes or 'raise' in modes or 'nonmap' in modes or
             (hist == 3 and kinds[0] and bool(HOOKS[kinds[0]][3])))
  conflict = False
  updates = []
  for i, kind in enumerate(kinds):
    for t in HOOKS[kind][3]:
      if any(t == u[:3] for u in updates):
        conflict = True
      updates.append(t + (vals[i],))

  def attempt(fault_rejects, scoped):
    """One gin.finalize(); returns (verdict, accepted?) - verdict False = property violated."""
    del seen[:]
    wb = _wide()
    exc = None
    try:
      if scoped:
        with gin.config_scope('s'):
          gin.finalize()
      else:
        gin.finalize()
    except Exception as e:
      exc = e
    wa = _wide()
    is_locked = gin.config_is_locked()
    # every hook that ran saw the configuration as parsed
    for s_ in seen:
      if not _cfg_same(s_, wb['cfg']):
        return rt.no('a hook did not see the configuration as parsed'), False
    strict = fault_rejects or unknown or conflict
    if strict or bad:
      plain = strict and not bad and not lenient
      if exc is None:
        return rt.no('finalize accepted what it must reject'), False
      if plain and not isinstance(exc, ValueError):
        return rt.no('rejected with %s' % (type(exc).__name__,)), False
      if is_locked:
        return rt.no('rejected but left locked'), False
      d = _wide_diff(wb, wa)
      if d:
        return rt.no('rejected but changed %s' % (d,)), False
      return True, False
    if lenient:
      # the statement only fixes that the outcome is clean: rejected = unlocked and unmodified
      if exc is not None:
        d = _wide_diff(wb, wa)
        if is_locked or d:
          return rt.no('hook failure left the configuration locked or modified (%s)' % (d,)), False
        return True, False
      return (True if is_locked else rt.no('accepted but not locked')), None
    if exc is not None or not is_locked:
      return rt.no('finalize failed: %r' % (exc,)), False
    if len(seen) != nreg:
      return rt.no('%d of %d hooks ran' % (len(seen), nreg)), False
    want = _cfg_plus(wb['cfg'], updates)
    if not _cfg_same(wa['cfg'], want):
      return rt.no('bindings after finalize are not parsed + hook updates'), False
    d = _wide_diff(wb, wa, ('imports', 'consts', 'registry', 'renamed'))
    if d:
      return rt.no('finalize changed %s' % (d,)), False
    return True, True

  def twice():
    # finalizing twice is an error and changes nothing
    wb = _wide()
    try:
      gin.finalize()
      return rt.no('second finalize accepted')
    except RuntimeError:
      pass
    if not gin.config_is_locked():
      return rt.no('second finalize unlocked')
    d = _wide_diff(wb, _wide())
    if d:
      return rt.no('second finalize changed %s' % (d,))
    return True

  ok, accepted = attempt(fault in FAULT_REJECTS, under)
  if not ok:
    return False
  if hist in (0, 3):
    return twice() if accepted else True
  if hist == 1:
    if accepted is not False:
      return True                      # (lenient outcome: nothing more to say)
    gin.bind_parameter('s/vw.plain.a' if fault == 12 else 'vw.plain.a', 5)
    ok, accepted = attempt(False, False)
    if not ok:
      return False
    return twice() if accepted else True
  if not accepted:
    return True
  if hist == 2:
    gin.clear_config()
    if gin.config_is_locked():
      return rt.no('clear_config left the lock')
    ok, accepted = attempt(False, False)      # the hooks run again, on the empty configuration
    if not ok:
      return False
    return twice() if accepted else True
  # hist 4: a fault introduced inside an unlock_config block; the lock is back, finalize stays an error
  with gin.unlock_config():
    with rt.native():
      gin.parse_config('vw.plain.a = %undefined_macro')
  if not gin.config_is_locked():
    return rt.no('unlock_config did not restore the lock')
  return twice()


def c12_finalize(h1: int, h2: int, fault: int, has: bool, under: bool, deep: bool, v0: int, w1: int, w2: int) -> bool:
  """
  pre: 0 <= h1 < 9 and 0 <= h2 < 9 and 0 <= fault < 13
  """
  h1 = rt.pick(h1, 9)
  h2 = rt.pick(h2, 9)
  fault = rt.pick(fault, 13)
  has = rt.flag(has)
  under = rt.flag(under)           # gin.finalize() called inside an active gin.config_scope('s')
  if under and h2 and not deep:
    rt.discard()                   # quick tier: one hook when finalize runs inside a scope
  world.fresh()
  rt.sig(('finalize', h1, h2, fault, has, under), nontrivial=(h1 >= 3 or h2 >= 3 or fault != 0))
  return _finalize_case((h1, h2), (w1, w2), fault, has, under, 0, v0)


def c12_hookkeys(k1: int, k2: int, has: bool, w1: int, w2: int) -> bool:
  """
  pre: 0 <= k1 < 30 and 0 <= k2 < 30
  """
  k1 = rt.pick(k1, NHOOK)
  k2 = rt.pick(k2, NHOOK)
  has = rt.flag(has)
  if k1 < 9 and k2 < 9:
    rt.discard()                   # c12_finalize
  world.fresh()
  rt.sig(('hookkeys', k1, k2, has), nontrivial=True)
  return _finalize_case((k1, k2), (w1, w2), 0, has, False, 0, 41)


HIST_HOOKS = (0, 3, 4, 5, 8, 10)


def c12_history(hist: int, g1: int, g2: int, g3: int, fault: int, deep: bool, w1: int, w2: int, w3: int) -> bool:
  """
  pre: 0 <= hist < 5 and 0 <= g1 < 6 and 0 <= g2 < 6 and 0 <= g3 < 6 and 0 <= fault < 13
  """
  hist = rt.pick(hist, 5)
  fault = rt.pick(fault, 13)
  if hist == 1:
    if fault not in (1, 2, 3, 4, 10, 12):
      rt.discard()
  elif hist == 2:
    if fault not in (0, 5, 9, 11):
      rt.discard()
  elif fault != 0:
    rt.discard()
  g1, g2, g3 = rt.pick(g1, 6), rt.pick(g2, 6), rt.pick(g3, 6)
  if hist != 0 and g3 != 0 and not deep:
    rt.discard()                   # quick tier: three hooks only in the single-finalize history
  world.fresh()
  rt.sig(('history', hist, g1, g2, g3, fault), nontrivial=True)
  kinds = (HIST_HOOKS[g1], HIST_HOOKS[g2], HIST_HOOKS[g3])
  return _finalize_case(kinds, (w1, w2, w3), fault, True, False, hist, 41)


def c12_deferred(created_locked: bool, change: int, how: int, raises: bool, v1: int) -> bool:
  """
  pre: 0 <= change < 3 and 0 <= how < 2
  """
  world.fresh()
  created_locked, raises = rt.flag(created_locked), rt.flag(raises)
  change = rt.pick(change, 3)     # between creation and entry: nothing / finalize / clear_config
  how = rt.pick(how, 2)           # stored context manager / decorator
  rt.sig(('deferred', created_locked, change, how, raises), nontrivial=change != 0)
  if created_locked:
    gin.finalize()
  if change == 1 and created_locked:
    rt.discard()
  seen = []

  def body():
    seen.append(gin.config_is_locked())
    gin.bind_parameter('vw.dflt.a', v1)
    if raises:
      raise Boom()

  if how == 0:
    cm = gin.unlock_config()
  else:
    decorated = gin.unlock_config()(body)
  if change == 1:
    gin.finalize()
  elif change == 2:
    gin.clear_config()
  entry = gin.config_is_locked()
  try:
    if how == 0:
      with cm:
        body()
    else:
      decorated()
  except Boom:
    if not raises:
      return False
  # inside the block the config is unlocked; afterwards the state that held ON ENTRY is back
  if seen != [False]:
    return rt.no('the body ran with lock state %r' % (seen,))
  if gin.config_is_locked() != entry:
    return rt.no('lock state after the block is %r, on entry it was %r' % (gin.config_is_locked(), entry))
  return rt.same('bound inside', gin.query_parameter('vw.dflt.a'), v1)


HARNESSES = {
    'c12_deferred': dict(
        fn='c12_deferred',
        anchors=['gin.config:unlock_config'],
        smoke=[dict(created_locked=False, change=1, how=0, raises=False, v1=3),
               dict(created_locked=True, change=2, how=1, raises=True, v1=3)],
        tiers={'quick': dict(split=dict(change=[0, 1, 2]), budget_s=60),
               'thorough': dict(split=dict(change=[0, 1, 2]), budget_s=60)},
        bounds='unlock_config() created (as a stored context manager or as a decorator) in one lock state and entered '
               'after finalize / clear_config changed it; body binds, optionally raises'),
    'c12_step': dict(
        fn='c12_step',
        anchors=['gin.config:unlock_config', 'gin.config:finalize', 'gin.config:bind_parameter',
                 'gin.config:_make_configurable'],
        smoke=[dict(locked=True, has=True, op=5, body=1, regkind=0, sub=0, v0=1, v1=2, v2=3),
               dict(locked=True, has=True, op=2, body=0, regkind=0, sub=0, v0=1, v1=2, v2=3),
               dict(locked=True, has=False, op=2, body=0, regkind=2, sub=0, v0=1, v1=2, v2=3),
               dict(locked=True, has=False, op=2, body=0, regkind=4, sub=0, v0=1, v1=2, v2=3),
               dict(locked=False, has=False, op=2, body=0, regkind=5, sub=0, v0=1, v1=2, v2=3)] +
              [dict(locked=True, has=True, op=0, body=0, regkind=0, sub=k_, v0=1, v1=2, v2=3) for k_ in (1, 2, 3)] +
              [dict(locked=l_, has=True, op=1, body=0, regkind=0, sub=k_, v0=1, v1=2, v2=3)
               for k_ in range(1, 10) for l_ in (True, False)],
        tiers={'quick': dict(split=dict(op=list(range(6))), budget_s=100),
               'thorough': dict(split=dict(op=list(range(6)), locked=[False, True]), budget_s=300)},
        bounds='one operation from every (locked?, binding present?) state: bind_parameter (string key, tuple key, '
               'ParsedBindingKey, unknown configurable), parse (two bindings, a macro statement, an import alone, an include '
               'through the in-memory file system, parse_config_file, parse_config_files_and_bindings with and without '
               'finalize_config, a dynamic-registration text whose value registers a configurable, gin.constant, import + '
               'binding), register (a function through external_configurable / bare @configurable / register(), a class '
               'decorated in place, a class with a separately registered method through external_configurable / register), '
               'finalize, clear_config, unlock_config with 9 body shapes (nop, bind, raise, nested, nested '
               'raising caught, nested raising propagating, finalize inside, finalize then raise, nested block that finalizes); '
               'values: all ints. A rejected operation is compared on the whole store (every _CONFIG key with value identities, '
               'provenance keys, imports, constants, registry selectors, renames). Inductive step: covers '
               'histories of any length over this state space.'),
    'c12_finalize': dict(
        fn='c12_finalize',
        anchors=['gin.config:finalize', 'gin.config:validate_macros_hook',
                 'gin.config:find_unknown_references_hook', 'gin.config:find_missing_overrides_hook'],
        smoke=[dict(h1=3, h2=4, fault=0, has=True, under=False, deep=False, v0=1, w1=2, w2=3),
               dict(h1=0, h2=0, fault=3, has=False, under=False, deep=False, v0=1, w1=2, w2=3),
               dict(h1=3, h2=0, fault=0, has=True, under=True, deep=False, v0=1, w1=2, w2=3),
               dict(h1=0, h2=0, fault=4, has=True, under=True, deep=False, v0=1, w1=2, w2=3),
               dict(h1=3, h2=0, fault=9, has=True, under=False, deep=False, v0=1, w1=2, w2=3),
               dict(h1=0, h2=3, fault=10, has=True, under=False, deep=False, v0=1, w1=2, w2=3),
               dict(h1=3, h2=0, fault=11, has=True, under=False, deep=False, v0=1, w1=2, w2=3),
               dict(h1=0, h2=0, fault=12, has=True, under=False, deep=False, v0=1, w1=2, w2=3),
               dict(h1=0, h2=0, fault=1, has=True, under=True, deep=False, v0=1, w1=2, w2=3),
               dict(h1=0, h2=0, fault=2, has=True, under=True, deep=False, v0=1, w1=2, w2=3),
               dict(h1=0, h2=0, fault=6, has=True, under=False, deep=False, v0=1, w1=2, w2=3),
               dict(h1=0, h2=0, fault=7, has=True, under=False, deep=False, v0=1, w1=2, w2=3),
               dict(h1=0, h2=0, fault=8, has=True, under=False, deep=False, v0=1, w1=2, w2=3)],
        tiers={'quick': dict(split=dict(fault=list(range(13)), has=[False, True]), fixed=dict(deep=False), budget_s=100),
               'thorough': dict(split=dict(fault=list(range(13)), has=[False, True], under=[False, True]),
                                fixed=dict(deep=True), budget_s=300)},
        bounds='two extra hooks x 9 behaviours (incl. 4 spellings of one parameter, a scoped key, an invalid '
               'key) x 13 config states (unbound / unevaluated macro, unknown-reference placeholder, each also as a '
               'dict KEY; %gin.REQUIRED at root, on a scoped binding, overridden, overridden only in a sub-scope; macro '
               'defined after its use) x finalize called at top level or inside an active config_scope (quick: one hook; '
               'thorough: two); '
               'hook values: all ints; whole-store observation (every _CONFIG key with value identities, provenance '
               'keys, imports, constants, registry selectors) before/after'),
    'c12_hookkeys': dict(
        fn='c12_hookkeys',
        anchors=['gin.config:finalize', 'gin.config:parse', 'gin.config:bind_parameter'],
        smoke=[dict(k1=9, k2=11, has=True, w1=2, w2=3), dict(k1=10, k2=8, has=True, w1=2, w2=3),
               dict(k1=12, k2=13, has=False, w1=2, w2=3), dict(k1=14, k2=8, has=True, w1=2, w2=3),
               dict(k1=15, k2=0, has=True, w1=2, w2=3), dict(k1=16, k2=17, has=True, w1=2, w2=3),
               dict(k1=3, k2=18, has=True, w1=2, w2=3), dict(k1=3, k2=19, has=True, w1=2, w2=3),
               dict(k1=3, k2=20, has=True, w1=2, w2=3), dict(k1=3, k2=21, has=True, w1=2, w2=3),
               dict(k1=3, k2=22, has=True, w1=2, w2=3), dict(k1=23, k2=24, has=True, w1=2, w2=3),
               dict(k1=3, k2=25, has=True, w1=2, w2=3), dict(k1=3, k2=26, has=True, w1=2, w2=3),
               dict(k1=3, k2=27, has=True, w1=2, w2=3), dict(k1=3, k2=28, has=True, w1=2, w2=3),
               dict(k1=3, k2=29, has=True, w1=2, w2=3), dict(k1=28, k2=3, has=True, w1=2, w2=3)],
        tiers={'quick': dict(split=dict(k1=list(range(30))), budget_s=100),
               'thorough': dict(split=dict(k1=list(range(30))), budget_s=300)},
        bounds='two extra hooks x 30 behaviours (all pairs not already in c12_finalize): scoped spellings of one parameter '
               "('s/dflt.a', 's/vw.dflt.a', tuples with full / partial selector), a two-level scope, a ParsedBindingKey, a "
               'mappingproxy, one hook returning two spellings of one parameter, names differing only in case, **kwargs and '
               'method parameters, keys refused by ParsedBindingKey.parse (unknown parameter, denylisted, not allowlisted, '
               'method without class, ambiguous selector, 2-/4-tuples, non-string), a hook that raises its own exception, a '
               'hook that returns a list; no config fault; whole-store observation before/after'),
    'c12_history': dict(
        fn='c12_history',
        anchors=['gin.config:finalize', 'gin.config:clear_config', 'gin.config:unlock_config',
                 'gin.config:bind_parameter'],
        smoke=[dict(hist=0, g1=2, g2=1, g3=3, fault=0, deep=False, w1=2, w2=3, w3=4),
               dict(hist=1, g1=1, g2=2, g3=0, fault=1, deep=False, w1=2, w2=3, w3=4),
               dict(hist=1, g1=1, g2=4, g3=0, fault=12, deep=False, w1=2, w2=3, w3=4),
               dict(hist=2, g1=1, g2=2, g3=0, fault=9, deep=False, w1=2, w2=3, w3=4),
               dict(hist=3, g1=1, g2=2, g3=0, fault=0, deep=False, w1=2, w2=3, w3=4),
               dict(hist=4, g1=1, g2=2, g3=0, fault=0, deep=False, w1=2, w2=3, w3=4)],
        tiers={'quick': dict(split=dict(hist=list(range(5))), fixed=dict(deep=False), budget_s=100),
               'thorough': dict(split=dict(hist=list(range(5)), g1=list(range(6))), fixed=dict(deep=True), budget_s=300)},
        bounds='5 histories around finalize (single finalize with THREE hooks - thorough: three hooks in every history; rejected by one of 6 faults, repaired with '
               'bind_parameter, finalized again; finalize, clear_config, finalize; first hook registered twice; finalize, '
               'unlock_config block that parses a faulty binding, finalize again) x hooks from 6 behaviours (absent, '
               "'vw.dflt.b', 'dflt.a', 'vw.dflt.a', 's/dflt.a', ('s','vw.dflt','a')); hook values: all ints"),
}

OUTSIDE = ('not exercised: hooks that mutate the config argument, bind / parse / finalize / clear_config / unlock_config / '
           'register another hook re-entrantly from inside a hook; hook VALUES that are themselves faults (a hook returning '
           '%gin.REQUIRED, an unbound macro or an unknown-reference placeholder); %gin.REQUIRED nested in a container, reached '
           'through a macro, bound through the API or spelled %REQUIRED; a macro bound only at a prefix scope; '
           'unlock_config left through KeyboardInterrupt / StopIteration / generator suspension or entered non-LIFO; '
           'constants_from_enum; re-registration of an already registered object; operations from several threads.')
ASSUMPTIONS = [
    'the statement is read as silent on (accepted either way, but the outcome must be clean: an exception with the '
    'configuration unlocked and whole-store unchanged, or no exception and locked): one hook returning two spellings of '
    'one parameter, one hook function registered twice, a hook raising its own exception, a hook returning a non-mapping',
    'hook keys refused by ParsedBindingKey.parse on other branches (unknown parameter, denylisted, not allowlisted, method '
    'without class, ambiguous selector, wrong-arity tuples, non-string) must be rejected by finalize with SOME exception '
    '(the type is not fixed by the statement); conflicts, config faults and the original unknown-configurable key must '
    'raise ValueError (as before)',
    'under lock an import statement alone and gin.constant() are neither a binding nor a registration: they may raise or '
    'not, but may not change a binding, the registry or the lock; bind_parameter to an unknown configurable must raise '
    '(either exception) in both lock states',
    'whole-store observation reads gin.config module state (_CONFIG, _CONFIG_PROVENANCE, _IMPORTS, _CONSTANTS, _REGISTRY, '
    '_RENAMED_SELECTORS) directly; values are compared by identity, falling back to == only for distinct non-literal objects',
    'fixture package /verif/fixtures/vfx (vfx.alpha.mod) is the target of import statements and of dynamic registration',
]
