"""C12 - finalize locks the configuration; unlock_config always restores the lock."""
import gin
from gin import config as gc
from vf import rt
from vf import world


class Boom(Exception):
  pass


def _snapshot():
  """Observable configuration: the config string would stringify S-values, so
  the snapshot is the set of (scope, selector, param) -> value read through
  query_parameter on a fixed battery of keys."""
  out = {}
  for key in ('vw.dflt.a', 'vw.dflt.b', 's/vw.dflt.a', 'vw.plain.a'):
    try:
      out[key] = gin.query_parameter(key)
    except ValueError:
      out[key] = None
  return out


def c12_step(locked: bool, has: bool, op: int, body: int, regkind: int, v0: int, v1: int, v2: int) -> bool:
  """
  pre: 0 <= op < 6 and 0 <= body < 9 and 0 <= regkind < 4
  """
  world.fresh()
  locked, has = rt.flag(locked), rt.flag(has)
  op = rt.pick(op, 6)
  body = rt.pick(body, 9)
  if body in (6, 7, 8) and locked and body != 8:
    rt.discard()            # bodies 6/7 finalize inside the block: only possible when entered unlocked
  if op != 5 and body != 0:
    rt.discard()
  regkind = rt.pick(regkind, 4)
  if op != 2 and regkind != 0:
    rt.discard()
  # a class one of whose methods is registered on its own BEFORE the config is locked
  pre_cls = None
  if op == 2 and regkind in (2, 3):
    with rt.native():
      class C12WithMethod:
        def __init__(self, z=1):
          self.z = z
        @gin.register
        def c12meth(self, m=0):
          return ('c12meth', m)
      pre_cls = C12WithMethod
    gin.bind_parameter('vf.harness.c12.c12meth.m', v2)
  if has:
    gin.bind_parameter('vw.dflt.a', v0)
  if locked:
    gin.finalize()
  if gin.config_is_locked() != locked:
    return False
  before = _snapshot()
  rt.sig(('step', locked, has, op, body), nontrivial=locked or op == 5)
  exc = None
  registered = None
  try:
    if op == 0:
      gin.bind_parameter('vw.dflt.a', v1)
    elif op == 1:
      with rt.native():
        text = 'vw.dflt.b = 7\ns/vw.dflt.a = 8\n'
      gin.parse_config(text)
    elif op == 2:
      with rt.native():
        def c12tmp(z=1):
          return z

        class C12Plain:
          def __init__(self, z=1):
            self.z = z
        c12tmp = [c12tmp, C12Plain, pre_cls, pre_cls][regkind]
        c12tmp.__name__ = 'c12tmp'
        init_before = vars(c12tmp).get('__init__') if regkind else None
      registered = c12tmp
      if regkind == 1:
        gin.configurable('c12tmp', module='vw')(c12tmp)          # decorates the class in place
      elif regkind == 3:
        gin.register('c12tmp', module='vw')(c12tmp)
      else:
        gin.external_configurable(c12tmp, 'c12tmp', module='vw')
    elif op == 3:
      gin.finalize()
    elif op == 4:
      gin.clear_config()
    else:
      with gin.unlock_config():
        if body == 1:
          gin.bind_parameter('vw.dflt.a', v1)
        elif body == 2:
          raise Boom()
        elif body == 3:
          with gin.unlock_config():
            gin.bind_parameter('vw.dflt.a', v1)
          gin.bind_parameter('vw.plain.a', v2)
        elif body == 4:
          try:
            with gin.unlock_config():
              raise Boom()
          except Boom:
            pass
          gin.bind_parameter('vw.dflt.a', v1)
        elif body == 5:
          with gin.unlock_config():
            raise Boom()
        elif body == 6:
          gin.finalize()                 # the body locks: the ENTRY state (unlocked) is restored
        elif body == 7:
          gin.finalize()
          raise Boom()
        elif body == 8:
          with gin.unlock_config():      # the inner block is entered unlocked and its body finalizes
            gin.finalize()
          if gin.config_is_locked():
            raise AssertionError('inner unlock_config did not restore its entry state')
  except Exception as e:
    exc = e
  finally:
    if registered is not None:
      with rt.native():
        if 'vw.c12tmp' in gc._REGISTRY:
          gc._REGISTRY.pop('vw.c12tmp')
          was_registered = True
        else:
          was_registered = False
        gc._INVERSE_REGISTRY.pop(registered, None)
        side_effect = None
        if regkind and locked:
          if vars(registered).get('__init__') is not init_before:
            side_effect = 'the class was decorated although the registration was rejected'
          if regkind in (2, 3):
            # the separately registered method must still be addressable and bound as before
            try:
              if gin.query_parameter('vf.harness.c12.c12meth.m') is not v2:
                side_effect = 'binding of the separately registered method changed'
            except Exception as e_:
              side_effect = 'rejected class registration re-keyed its registered method: %r' % (e_,)
        for n_ in list(gc._REGISTRY._selector_map):
          if 'c12meth' in n_:
            gc._REGISTRY.pop(n_)
        if pre_cls is not None:
          gc._INVERSE_REGISTRY.pop(vars(pre_cls)['c12meth'], None)
        gc._RENAMED_SELECTORS.clear()
  after = _snapshot()
  now_locked = gin.config_is_locked()

  if op in (0, 1, 2):
    if locked:
      ok = isinstance(exc, RuntimeError) and after == before and now_locked
      if op == 2:
        ok = ok and not was_registered
        if side_effect:
          return rt.no(side_effect)
      return ok
    if exc is not None or now_locked:
      return False
    if op == 0:
      want = dict(before)
      want['vw.dflt.a'] = v1
      return after == want
    if op == 1:
      want = dict(before)
      want['vw.dflt.b'] = 7
      want['s/vw.dflt.a'] = 8
      return after == want
    return was_registered and after == before
  if op == 3:
    if locked:
      return isinstance(exc, RuntimeError) and now_locked and after == before
    return exc is None and now_locked and after == before
  if op == 4:
    empty = {k: None for k in before}
    return exc is None and not now_locked and after == empty
  # unlock_config block: the lock state on entry is restored on every exit path
  if now_locked != locked:
    return False
  want = dict(before)
  if body in (1, 4):
    want['vw.dflt.a'] = v1
  if body == 3:
    want['vw.dflt.a'] = v1
    want['vw.plain.a'] = v2
  if body in (2, 5, 7):
    if not isinstance(exc, Boom):
      return False
  elif exc is not None:
    return False
  return after == want


HOOK_KINDS = ['absent', 'returns None', 'returns {}', "binds 'vw.dflt.b'", "binds 'dflt.a'",
              "binds 'vw.dflt.a'", "binds ('', 'vw.dflt', 'a')", 'invalid key',
              "binds 's/dflt.a'"]
HOOK_KEYS = {3: 'vw.dflt.b', 4: 'dflt.a', 5: 'vw.dflt.a', 6: ('', 'vw.dflt', 'a'),
             7: 'vw.nosuch.x', 8: 's/dflt.a'}
HOOK_TARGET = {3: ('', 'b'), 4: ('', 'a'), 5: ('', 'a'), 6: ('', 'a'), 8: ('s', 'a')}
FAULTS = ['none', 'unbound macro', 'unevaluated macro reference', 'unknown-reference placeholder',
          '%gin.REQUIRED left in place', 'macro bound and evaluated (fine)']


def c12_finalize(h1: int, h2: int, fault: int, has: bool, v0: int, w1: int, w2: int) -> bool:
  """
  pre: 0 <= h1 < 9 and 0 <= h2 < 9 and 0 <= fault < 6
  """
  world.fresh()
  h1 = rt.pick(h1, 9)
  h2 = rt.pick(h2, 9)
  fault = rt.pick(fault, 6)
  has = rt.flag(has)
  if fault in (1, 2):
    # the error message of these two faults embeds config_str(), i.e. Gin
    # stringifies every bound value: S-inputs must not reach a stringifier
    # (DESIGN.md section 2), so the pre-existing value is concrete here.
    v0 = 41
  if has:
    gin.bind_parameter('vw.dflt.a', v0)
  with rt.native():
    if fault == 1:
      gin.parse_config('vw.plain.a = %undefined_macro')
    elif fault == 2:
      gin.parse_config('m = 1\nvw.plain.a = @m/gin.macro')
    elif fault == 3:
      gin.parse_config('vw.plain.a = [1, {"k": (@nosuch(),)}]', skip_unknown=True)
    elif fault == 4:
      gin.parse_config('vw.plain.a = %gin.REQUIRED')
    elif fault == 5:
      gin.parse_config('m = 1\nvw.plain.a = %m')
  seen = []

  def mk(kind, val):
    def hook(config):
      snap = {}
      for k, d in config.items():
        snap[k] = dict(d)
      seen.append(snap)
      if kind == 1:
        return None
      if kind == 2:
        return {}
      return {HOOK_KEYS[kind]: val}
    return hook

  if h1:
    gin.config.register_finalize_hook(mk(h1, w1))
  if h2:
    gin.config.register_finalize_hook(mk(h2, w2))
  pre_cfg = {}
  for k, d in gc._CONFIG.items():
    pre_cfg[k] = dict(d)
  before = _snapshot()
  rt.sig(('finalize', h1, h2, fault, has), nontrivial=(h1 >= 3 or h2 >= 3 or fault != 0))
  exc = None
  try:
    gin.finalize()
  except Exception as e:
    exc = e
  after = _snapshot()
  t1, t2 = HOOK_TARGET.get(h1), HOOK_TARGET.get(h2)
  reject = fault in (1, 2, 3, 4) or h1 == 7 or h2 == 7 or (t1 is not None and t1 == t2)
  # every hook that ran saw the configuration as parsed
  for s in seen:
    if s != pre_cfg:
      return False
  if reject:
    return (isinstance(exc, ValueError) and not gin.config_is_locked() and
            after == before)
  if exc is not None or not gin.config_is_locked():
    return False
  if len(seen) != (1 if h1 else 0) + (1 if h2 else 0):
    return False
  want = dict(before)
  for t, w in ((t1, w1), (t2, w2)):
    if t is not None:
      want[(t[0] + '/' if t[0] else '') + 'vw.dflt.' + t[1]] = w
  if after != want:
    return False
  # finalizing twice is an error and changes nothing
  try:
    gin.finalize()
    return False
  except RuntimeError:
    pass
  return gin.config_is_locked() and _snapshot() == want


def c12_deferred(created_locked: bool, change: int, how: int, raises: bool, v1: int) -> bool:
  """
  pre: 0 <= change < 3 and 0 <= how < 2
  """
  world.fresh()
  created_locked, raises = rt.flag(created_locked), rt.flag(raises)
  change = rt.pick(change, 3)     # between creation and entry: nothing / finalize / clear_config
  how = rt.pick(how, 2)           # stored context manager / decorator
  rt.sig(('deferred', created_locked, change, how, raises), nontrivial=change != 0)
  if created_locked:
    gin.finalize()
  if change == 1 and created_locked:
    rt.discard()
  seen = []

  def body():
    seen.append(gin.config_is_locked())
    gin.bind_parameter('vw.dflt.a', v1)
    if raises:
      raise Boom()

  if how == 0:
    cm = gin.unlock_config()
  else:
    decorated = gin.unlock_config()(body)
  if change == 1:
    gin.finalize()
  elif change == 2:
    gin.clear_config()
  entry = gin.config_is_locked()
  try:
    if how == 0:
      with cm:
        body()
    else:
      decorated()
  except Boom:
    if not raises:
      return False
  # inside the block the config is unlocked; afterwards the state that held ON ENTRY is back
  if seen != [False]:
    return rt.no('the body ran with lock state %r' % (seen,))
  if gin.config_is_locked() != entry:
    return rt.no('lock state after the block is %r, on entry it was %r' % (gin.config_is_locked(), entry))
  return rt.same('bound inside', gin.query_parameter('vw.dflt.a'), v1)


HARNESSES = {
    'c12_deferred': dict(
        fn='c12_deferred',
        anchors=['gin.config:unlock_config'],
        smoke=[dict(created_locked=False, change=1, how=0, raises=False, v1=3),
               dict(created_locked=True, change=2, how=1, raises=True, v1=3)],
        tiers={'quick': dict(split=dict(change=[0, 1, 2]), budget_s=60),
               'thorough': dict(split=dict(change=[0, 1, 2]), budget_s=60)},
        bounds='unlock_config() created (as a stored context manager or as a decorator) in one lock state and entered '
               'after finalize / clear_config changed it; body binds, optionally raises'),
    'c12_step': dict(
        fn='c12_step',
        anchors=['gin.config:unlock_config', 'gin.config:finalize', 'gin.config:bind_parameter',
                 'gin.config:_make_configurable'],
        smoke=[dict(locked=True, has=True, op=5, body=1, regkind=0, v0=1, v1=2, v2=3),
               dict(locked=True, has=True, op=2, body=0, regkind=0, v0=1, v1=2, v2=3),
               dict(locked=True, has=False, op=2, body=0, regkind=2, v0=1, v1=2, v2=3)],
        tiers={'quick': dict(split=dict(op=list(range(6))), budget_s=100),
               'thorough': dict(split=dict(op=list(range(6)), locked=[False, True]), budget_s=300)},
        bounds='one operation from every (locked?, binding present?) state: bind, parse_config, register (a function, a class '
               'decorated in place, a class with a separately registered method through external_configurable / register), '
               'finalize, clear_config, unlock_config with 9 body shapes (nop, bind, raise, nested, nested '
               'raising caught, nested raising propagating, finalize inside, finalize then raise, nested block that finalizes); values: all ints. Inductive step: covers '
               'histories of any length over this state space.'),
    'c12_finalize': dict(
        fn='c12_finalize',
        anchors=['gin.config:finalize', 'gin.config:validate_macros_hook',
                 'gin.config:find_unknown_references_hook', 'gin.config:find_missing_overrides_hook'],
        smoke=[dict(h1=3, h2=4, fault=0, has=True, v0=1, w1=2, w2=3),
               dict(h1=0, h2=0, fault=3, has=False, v0=1, w1=2, w2=3)],
        tiers={'quick': dict(split=dict(h1=list(range(9)), fault=list(range(6))), budget_s=100),
               'thorough': dict(split=dict(h1=list(range(9)), h2=list(range(9))), budget_s=300)},
        bounds='two extra hooks x 9 behaviours (incl. 4 spellings of one parameter, a scoped key, an invalid '
               'key) x 6 config faults; hook values: all ints'),
}
