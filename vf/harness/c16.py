"""C16 - a failed parse applies exactly the preceding statements; errors say where."""
import io
import tokenize

import gin
from gin import config as gc
from vf import rt
from vf import world

TokErr = tokenize.TokenError

GOOD = ['vw.dflt.a = %vwc.V0', 's/vw.dflt.b = %vwc.V1', 'vw.plain.a = [%vwc.V2, 7]']


def M(text, scope, sel, param, val, label, off):
  """A member of a (faulty) block that may / must have been applied: the flat statement used by the reference
  run + its effect (scope, selector, parameter, value, config_str label, 0-based line offset in the statement)."""
  return (text, (scope, sel, param, val, label, off))


SRC_V3 = M('vw.src.v = 3', '', 'vw.src', 'v', 3, 'src.v', 1)
S_SRC_V3 = M('s/vw.src.v = 3', 's', 'vw.src', 'v', 3, 's/src.v', 1)
CONS_P3 = M('vw.cons.p = 3', '', 'vw.cons', 'p', 3, 'cons.p', 1)
KWS_X1 = M('vw.kws.x = 1', '', 'vw.kws', 'x', 1, 'kws.x', 1)
DENY_A1 = M('vw.deny_b.a = 1', '', 'vw.deny_b', 'a', 1, 'deny_b.a', 1)
KWS_IND = M('vw.kws.ind = 1', '', 'vw.kws', 'ind', 1, 'kws.ind', 0)

# (lines of the faulty statement, 0-based offset of the line the error must name,
#  exception class, is_syntax)
FAULTS = [
    (['vw.src.v = 1 +'], 0, SyntaxError, True),                       # bad value
    (['vw.src.v ='], 0, SyntaxError, True),                           # missing value
    (['vw.src.v = [1, 2'], None, (SyntaxError, TokErr), True),        # unbalanced
    (['vw..src.v = 1'], 0, SyntaxError, True),                        # bad selector
    (['vw.src.nope = 1'], 0, ValueError, False),                      # unknown parameter
    (['vw.nosuch.x = 1'], 0, ValueError, False),                      # unknown configurable
    (['vw.src.v = (1,', '    @nosuch())'], (0, 1), ValueError, False),   # unknown reference
    (['vw.deny_b.b = 1'], 0, ValueError, False),                      # deny-listed parameter
    (["include 'missing.gin'"], 0, IOError, False),                   # bad include
    (['import no_such_module_xyz'], 0, ImportError, False),           # bad import
    (['vw.src:', '  v = 3', '  nope = 1'], 2, ValueError, False),     # bad block member (semantic)
    (['vw.src:', '  v = 3', '  v = = 1'], 2, SyntaxError, True),      # bad block member (syntactic)
    (['vw.nosuch:', '  x = 1'], 0, ValueError, False),                # block of unknown configurable
    (['vw.src:', '  v = 3', '  nope = 1', '  v = 4'], 2, ValueError, False),   # duplicate member after the bad one
    (['vw.src:', '  nope = 0', '  v = 1', '  nope = 2'], 1, ValueError, False),  # the FIRST bad member is named
    (['fam.p = 1'], 0, KeyError, False),                                # ambiguous short selector (binding)
    (['fam:', '  p = 1'], 0, KeyError, False),                          # ambiguous short selector (block header)
    (['vw.src.v = @fam()'], (0, 1), KeyError, False),                    # ambiguous reference (its own line may be named)
    ([], None, None, False),                                          # 18: no fault
    # ---- the first token of the statement is rejected by the TOKENIZER (no location demanded: the statement
    #      asks for one for semantic errors only) --------------------------------------------------------------
    (['0x = 1'], None, (SyntaxError, TokErr), True),                  # 19 invalid number literal
    (["'abc"], None, (SyntaxError, TokErr), True),                    # 20 unterminated string
    (['"""abc'], None, (SyntaxError, TokErr), True),                  # 21 unterminated triple-quoted string (to EOF)
    (['  vw.kws.ind = 1', ' vw.kws.ded = 2'], None, (SyntaxError, TokErr), True),   # 22 mis-dedented line after a good indented one
    # ---- more semantic faults ----------------------------------------------------------------------------
    (['vw.src.v = %K'], (0, 1), ValueError, False),                   # 23 ambiguous constant (its own line may be named)
    (['vw.cons:', '  p = 3', '  q = @nosuch()'], (0, 2), ValueError, False),   # 24 unknown reference in a block member
    (['vw.cons:', '  p = 3', '  q = @fam()'], (0, 2), KeyError, False),        # 25 ambiguous reference in a block member
    (['vw.allow_a.b = 1'], 0, ValueError, False),                     # 26 parameter not in the allowlist
    (['meth.a = 1'], 0, ValueError, False),                           # 27 method without its class name
    # ---- include variants ---------------------------------------------------------------------------------
    (['include 5'], None, SyntaxError, True),                         # 28 include of a non-string
    (['include'], None, SyntaxError, True),                           # 29 bare include
    (["include 'denied.gin'"], 0, PermissionError, False),            # 30 exists, but opening raises PermissionError
    # ---- block-structure faults ---------------------------------------------------------------------------
    (['vw.src:'], None, SyntaxError, True),                           # 31 header without a body (also at EOF)
    (['vw.src: v = 1'], None, SyntaxError, True),                     # 32 header and member on one line
    (['vw.src:', '  v = 3', '  a.b = 1'], None, SyntaxError, True),   # 33 dotted member name
    (['vw.kws:', '  x = 1', "  include 'sib.gin'"], None, SyntaxError, True),   # 34 include as a member
    (['s/vw.src:', '  v = 3', '  nope = 1'], (0, 2), ValueError, False),         # 35 scoped header, bad 2nd member
    (['vw.deny_b:', '  a = 1', '  b = 2'], (0, 2), ValueError, False),           # 36 deny-listed member
    (['vw.src:', '  v = 3', '', '  # c', '  nope = 1'], (0, 4), ValueError, False),   # 37 bad member after blank+comment
]
NFAULT = len(FAULTS)
NOFAULT = 18
TOKF = (19, 20, 21, 22)
# what the faulty statement itself may have applied: a list of alternatives, each a list of members.
#  - 10, 13 (as before): members before a semantically bad member took effect;
#  - 22: the good indented statement before the mis-dedented line is a preceding statement;
#  - faults inside a block added later: 'members before k' and 'no member of that block' are both accepted.
ALTS = {10: [[SRC_V3]], 13: [[SRC_V3]], 22: [[KWS_IND]],
        24: [[], [CONS_P3]], 25: [[], [CONS_P3]], 33: [[], [SRC_V3]], 34: [[], [KWS_X1]],
        35: [[], [S_SRC_V3]], 36: [[], [DENY_A1]], 37: [[], [SRC_V3]]}
ATTRS = {30: dict(errno=13, filename='denied.gin')}
# skip_unknown: 1 = True, 2 = a list.  Faults that stop being faults (the statement is skipped) / combinations left out.
SKIP_ARG = [False, True, ['vw.nosuch', 'no_such_module_xyz']]
SKIPPED = {0: (), 1: (5, 9, 12), 2: (5, 12)}
SKIP_OUT = {0: (), 1: (6, 24), 2: (9,)}   # value keeps an unknown-reference placeholder / import under a list: unspecified
NPRE = 8
NENTRY = 7


class S(object):
  """One statement of a file: lines, kind ('good' | 'fault' | 'include' | 'filler' | 'skipped'), effects."""

  def __init__(self, lines, kind='good', eff=(), child=None):
    self.lines, self.kind, self.eff, self.child = list(lines), kind, list(eff), child
    self.line = self.file = None


def _pre_stmts(pre, v0):
  """Kinds of GOOD statement placed right before the fault."""
  if pre == 1:    # a block whose last member directly precedes the fault; blank + comment line inside
    return [S(['vw.kws:', '  blk1 = 31', '', '  # c', '  blk2 = 32'],
              eff=[('', 'vw.kws', 'blk1', 31, 'kws.blk1', 1), ('', 'vw.kws', 'blk2', 32, 'kws.blk2', 4)])]
  if pre == 2:    # macro bindings (plain and scoped)
    return [S(['X = %vwc.V0'], eff=[('X', 'gin.macro', 'value', v0, 'X', 0)]),
            S(['s/Y = 33'], eff=[('s/Y', 'gin.macro', 'value', 33, 's/Y', 0)])]
  if pre == 3:    # imports
    return [S(['import os']), S(['from os import path'])]
  if pre == 4:    # a sibling include that succeeds
    return [S(["include 'sib.gin'"], kind='include', child='sib.gin')]
  if pre == 5:    # bracketed value over three lines
    return [S(['vw.kws.ml = [51,', '  52,', '  53]'], eff=[('', 'vw.kws', 'ml', [51, 52, 53], 'kws.ml', 0)])]
  if pre == 6:    # triple-quoted string containing newlines
    return [S(["vw.kws.tq = '''a", 'b', "c'''"], eff=[('', 'vw.kws', 'tq', 'a\nb\nc', 'kws.tq', 0)])]
  if pre == 7:    # re-binding of a key that an earlier good statement may have set
    return [S(['vw.dflt.a = 61'], eff=[('', 'vw.dflt', 'a', 61, 'dflt.a', 0)])]
  return []


def _sib():
  return [S(['vw.kws.sib = [41,', '  42]'], eff=[('', 'vw.kws', 'sib', [41, 42], 'kws.sib', 0)]),
          S(['vw.kws.sib2 = 43'], eff=[('', 'vw.kws', 'sib2', 43, 'kws.sib2', 0)])]


def _other():
  return [S(['# other'], kind='filler'),
          S(['vw.dflt.a = 11'], eff=[('', 'vw.dflt', 'a', 11, 'dflt.a', 0)]),
          S(['vw.src.v = 12'], eff=[('', 'vw.src', 'v', 12, 'src.v', 0)]),
          S(['vw.kws.keep = 13'], eff=[('', 'vw.kws', 'keep', 13, 'kws.keep', 0)])]


def _denied_open(path):
  raise PermissionError(13, 'denied', path)


def _denied_exists(path):
  return path == 'denied.gin'


class _BytesLines(object):
  """file-like object without .name whose readline() yields bytes"""

  def __init__(self, text):
    self._io = io.BytesIO(text.encode('utf8'))

  def readline(self, *a):
    return self._io.readline(*a)


def _render(stmts):
  return '\n'.join(l for s in stmts for l in s.lines) + '\n'


def _walk(files, fname, chain, st):
  """Execution order of the include tree up to the fault (model of 'the statements preceding it')."""
  line = 1
  for s in files[fname]:
    s.line, s.file = line, fname
    if s.kind == 'fault':
      st['fault'] = (fname, line, list(chain))
      return False
    if s.kind == 'include':
      if not _walk(files, s.child, chain + [(fname, line)], st):
        return False
    elif s.kind == 'good':
      st['applied'].append(s)
    line += len(s.lines)
  return True


def _apply(model, prov, eff, fname, line):
  scope, sel, param, val, label, off = eff
  model.setdefault((scope, sel), {})[param] = val
  prov[label] = (fname, line + off)


def snapshot():
  out = {}
  for (scope, sel) in list(gc._CONFIG):
    out[(scope, sel)] = gin.get_bindings((scope + '/' if scope else '') + sel,
                                         inherit_scopes=False)
  return out


def _core(cont, fault, pos, depth, lead, amb, lockmode, v0, v1, v2,
          floc=None, pre=0, prior=0, entry=0, skip=0):
  # All arguments but v0..v2 are concrete here.
  # lockmode: 0 unlocked, 1 finalized + unlock_config around the call, 2 finalized and NOT unlocked (then the
  #           first binding statement in execution order is the failing one).
  # floc:     include level of the file that holds the fault (None: the innermost = depth).
  # `pre`:    kind of extra good statement right before the fault;  `prior`: state before the call;
  # entry:    entry point;  skip: skip_unknown argument.
  if floc is None:
    floc = depth
  flines, errline, exc_cls, is_syntax = FAULTS[fault]
  if cont:
    # a backslash continuation right after the key / keyword: the statement still BEGINS on the first line
    if len(flines) != 1 or ' = ' not in flines[0] and not flines[0].startswith(('include', 'import')):
      if flines:
        rt.discard()
    if flines and is_syntax:
      rt.discard()
  if not flines and pos:
    rt.discard()
  if floc > depth or (floc < depth and (pos > 2 or not flines)):
    rt.discard()
  if fault in SKIP_OUT[skip]:
    rt.discard()
  if fault == 22 and pre == 1:
    rt.discard()          # the indented good statement would read as one more member of the block before it
  if lockmode == 2 and (flines or pre not in (0, 3) or floc != depth):
    rt.discard()
  if lockmode and entry in (4, 5):
    rt.discard()
  skipped = fault in SKIPPED[skip]
  failing = (bool(flines) and not skipped) or lockmode == 2
  rt.sig(('fault', cont, fault, pos, depth, lead, amb, lockmode, floc, pre, prior, entry, skip),
         nontrivial=failing)
  for name, v in (('V0', v0), ('V1', v1), ('V2', v2)):
    gin.constant('vwc.' + name, v)
  with rt.native():
    gin.constant('vwa.K', 1)
    gin.constant('vwb.K', 2)
    top = 'top.gin' if entry in (1, 4) else '<top>'
    names = [top, 'mid.gin', 'inner.gin']      # name of the file at include depth d
    shown = lambda fn: None if fn == '<top>' else fn
    good_eff = [[('', 'vw.dflt', 'a', v0, 'dflt.a', 0)], [('s', 'vw.dflt', 'b', v1, 's/dflt.b', 0)],
                [('', 'vw.plain', 'a', [v2, 7], 'plain.a', 0)]]

    def split_after_key(line):
      if not cont:
        return [line]
      if ' = ' in line:
        k, v = line.split(' = ', 1)
        return [k + ' \\', '    = ' + v]
      k, v = line.split(' ', 1)
      return [k + ' \\', '    ' + v]

    def fault_stmt():
      kind = 'skipped' if skipped else 'fault'
      return S(split_after_key(flines[0]) if len(flines) == 1 else flines, kind=kind)

    goods = [S(split_after_key(GOOD[i]), eff=good_eff[i]) for i in range(3)]
    # ---- the innermost file: 3 good statements with (pre-kind statement +) the fault at `pos` ----------
    inner = [S([['', '# leading comment'][i % 2]], kind='filler') for i in range(lead)]
    if lockmode == 2:
      goods[0].kind = 'fault'                   # the first binding of a locked configuration
      inner += _pre_stmts(pre, v0) + goods
    elif flines and floc == depth:
      for i in range(4):
        if i == pos:
          inner += _pre_stmts(pre, v0) + [fault_stmt()]
        if i < 3:
          inner.append(goods[i])
    else:
      inner += (_pre_stmts(pre, v0) if not flines else []) + goods
    files = {names[depth]: inner, 'sib.gin': _sib()}
    for d in range(depth - 1, -1, -1):
      # outer file: one statement before the include, one after it
      st = []
      if lockmode == 2:
        st.append(S(['# no binding before the include'], kind='filler'))
      else:
        st.append(S(['vw.kws.pre%d = %d' % (d, d)], eff=[('', 'vw.kws', 'pre%d' % d, d, 'kws.pre%d' % d, 0)]))
      st.append(S([''], kind='filler'))
      if d == floc and pos == 2:
        st.append(S(["include 'sib.gin'"], kind='include', child='sib.gin'))
      st.append(S(['include \\', "    '%s'" % names[d + 1]] if cont else ["include '%s'" % names[d + 1]],
                  kind='include', child=names[d + 1]))
      if d == floc:
        # the fault sits in an OUTER file, after the (successful) include
        st += _pre_stmts(pre, v0) + [fault_stmt()]
        if pos == 1:
          st.append(S(["include 'sib.gin'"], kind='include', child='sib.gin'))
      st.append(S(['vw.kws.post%d = 1' % d], eff=[('', 'vw.kws', 'post%d' % d, 1, 'kws.post%d' % d, 0)]))
      files[names[d]] = st
    top_text = _render(files[top])
    top_items = ['\n'.join(s.lines) for s in files[top]]      # one list element per statement (may be multi-line)
    mem = dict((n, _render(s)) for n, s in files.items() if n != '<top>')
    # ---- state before the call -------------------------------------------------------------------------
    before = []                                # (statement, file shown in provenance or 'API')
    if prior:
      files['other.gin'] = _other()
      mem['other.gin'] = _render(files['other.gin'])
    if entry in (4, 5):
      files['ok.gin'] = [S(['vw.kws.ok = 21'], eff=[('', 'vw.kws', 'ok', 21, 'kws.ok', 0)])]
      mem['ok.gin'] = _render(files['ok.gin'])
    world.use_mem_fs(mem)
    gin.config.register_file_reader(_denied_open, _denied_exists)

    def do_prior():
      if prior == 1:
        gin.parse_config_file('other.gin')
      elif prior == 2:
        gin.bind_parameter('vw.dflt.a', 11)
        gin.bind_parameter('vw.src.v', 12)
        gin.bind_parameter('vw.kws.keep', 13)
    do_prior()
    # ---- model: which statements precede the fault in execution order ----------------------------------
    walk = dict(applied=[], fault=None)
    if prior:
      _walk(files, 'other.gin', [], walk)
      if prior == 2:
        for s in walk['applied']:
          s.file = 'API'
    n_prior = len(walk['applied'])
    if entry in (4, 5):
      _walk(files, 'ok.gin', [], walk)
    completed = _walk(files, top, [], walk)
    if completed == failing:
      raise rt.HarnessError('model of the include tree disagrees with the fault table')
    tail = []
    if entry == 4 and completed:
      tail = [S(['vw.kws.bind = 22'], eff=[('', 'vw.kws', 'bind', 22, 'kws.bind', 0)])]
      tail[0].line, tail[0].file = 1, '<top>'
    applied = walk['applied'] + tail
    rest_good = [g for g in goods if g not in applied]
    alts = ALTS.get(fault, [[]]) if (failing and lockmode != 2) else [[]]
    if failing:
      f_file, f_line, f_chain = walk['fault']
  if lockmode:
    gin.finalize()
  # ---- the failing call --------------------------------------------------------------
  exc = None
  depth_before = len(gc._PARSE_CONTEXTS)
  locked_before = bool(lockmode)
  sk = SKIP_ARG[skip]

  def enter():
    if entry == 0:
      gin.parse_config(top_text, skip_unknown=sk)
    elif entry == 1:
      gin.parse_config_file('top.gin', skip_unknown=sk)
    elif entry == 2:
      gin.parse_config(list(top_items), sk)
    elif entry == 3:
      gin.parse_config(io.StringIO(top_text), sk)
    elif entry == 4:
      gin.parse_config_files_and_bindings(['ok.gin', 'top.gin'], ['vw.kws.bind = 22'], skip_unknown=sk)
    elif entry == 5:
      gin.parse_config_files_and_bindings(['ok.gin'], list(top_items), skip_unknown=sk)
    else:
      gin.parse_config(_BytesLines(top_text), sk)

  def call():
    if lockmode == 1:
      with gin.unlock_config():
        enter()
    else:
      enter()

  try:
    with rt.native():
      if amb:
        with gin.config_scope('amb'):
          call()
          if gin.current_scope() != ['amb']:
            return rt.no('1: if gin.current_scope() != ["amb"]:')
      else:
        call()
  except Exception as e:
    exc = e
  # a parse that succeeds through parse_config_files_and_bindings finalizes (locks) the configuration
  locked_after = locked_before or (entry in (4, 5) and not failing)
  if gin.current_scope() != [] or gin.config_is_locked() != locked_after:
    return rt.no('2: if gin.current_scope() != [] or gin.config_is_locked() != locked:')
  if len(gc._PARSE_CONTEXTS) != depth_before:
    return rt.no('3: if len(gc._PARSE_CONTEXTS) != depth_before:')
  got = snapshot()
  with rt.native():
    prov_text = gin.config_str(show_provenance=True)
    plines = prov_text.split('\n')
  # ---- reference: the prefix applied to a cleared configuration, per accepted alternative -------------
  chosen = None
  why = None
  for alt in alts:
    with rt.native():
      saved_cfg = {k: dict(d) for k, d in gc._CONFIG.items()}
      saved_prov = {k: dict(d) for k, d in gc._CONFIG_PROVENANCE.items()}
      gc._CONFIG.clear()
      gc._CONFIG_PROVENANCE.clear()
      was_locked = gin.config_is_locked()
      gc._set_config_is_locked(False)
      do_prior()
      ref_lines = [l for s in applied[n_prior:] for l in s.lines] + [m[0] for m in alt]
      gin.parse_config('\n'.join(ref_lines) + '\n')
    want = snapshot()
    with rt.native():
      gc._CONFIG.clear()
      gc._CONFIG.update(saved_cfg)
      gc._CONFIG_PROVENANCE.clear()
      gc._CONFIG_PROVENANCE.update(saved_prov)
      gc._set_config_is_locked(was_locked)
      # the explicit model of the same thing: effects of the statements, in execution order
      model, prov = {}, {}
      for s in applied:
        for eff in s.eff:
          _apply(model, prov, eff, s.file, s.line)
      for m in alt:
        _apply(model, prov, m[1], f_file, f_line)
    why = _same_store(got, want)
    if why is None:
      why = _same_store(got, model)
    if why is None:
      with rt.native():
        why = _same_prov(plines, prov, shown)
    if why is None:
      chosen = (model, prov)
      break
  if chosen is None:
    return rt.no(why)
  model = chosen[0]
  with rt.native():
    if not failing:
      if exc is not None:
        return rt.no('7: if exc is not None:')
    elif lockmode == 2:
      if not isinstance(exc, RuntimeError):
        return rt.no('8b: a locked configuration rejects the first binding with RuntimeError')
      bad = _check_where(str(exc), shown(f_file), [f_line], f_chain, shown, [shown(f) for f in files])
      if bad:
        return rt.no(bad)
    else:
      if exc is None or not isinstance(exc, exc_cls):
        return rt.no('8: if exc is None or not isinstance(exc, exc_cls):')
      for an, av in ATTRS.get(fault, {}).items():
        if getattr(exc, an, None) != av:
          return rt.no('8a: the exception keeps its attributes (errno / filename)')
      msg = str(exc)
      fname = shown(f_file)
      if errline is not None:
        lines_ok = [f_line + o for o in (errline if isinstance(errline, tuple) else (errline,))]
        if is_syntax:
          if getattr(exc, 'lineno', None) not in lines_ok:
            return rt.no('9: if getattr(exc, "lineno", None) not in lines_ok:')
          if getattr(exc, 'filename', None) != fname:
            return rt.no('10: if getattr(exc, "filename", None) != fname:')
        else:
          bad = _check_where(msg, fname, lines_ok, f_chain, shown, [shown(f) for f in files])
          if bad:
            return rt.no(bad)
    # ---- later parsing behaves as after the prefix alone -------------------------------------
    if failing:
      def go():
        gin.parse_config('\n'.join(l for g in rest_good for l in g.lines) + '\nvw.src2.v = 5\n')
      if locked_after:
        with gin.unlock_config():
          go()
      else:
        go()
      for g in rest_good:
        for eff in g.eff:
          _apply(model, {}, eff, None, 0)
      _apply(model, {}, ('', 'vw.src2', 'v', 5, 'src2.v', 0), None, 0)
  final = snapshot()
  if failing:
    for i in range(3):
      key = [('', 'vw.dflt'), ('s', 'vw.dflt'), ('', 'vw.plain')][i]
      if key not in final:
        return rt.no('15: if key not in final:')
    if pre != 7 and not rt.same('a', final[('', 'vw.dflt')]['a'], v0):
      return rt.no('16a')
    if not (rt.same('b', final[('s', 'vw.dflt')]['b'], v1) and
            rt.same('p', final[('', 'vw.plain')]['a'][0], v2)):
      return rt.no('16: rt.same("p", final[("", "vw.plain")]["a"][0], v2)):')
    if final.get(('', 'vw.src2')) != {'v': 5}:
      return rt.no('17: if final.get(("", "vw.src2")) != {"v": 5}:')
    why = _same_store(final, model)
    if why is not None:
      return rt.no('18: after the later parse: ' + why)
  return True


def _same_store(got, want):
  if set(got) != set(want):
    return '4: if set(got) != set(want):'
  for k in want:
    if set(got[k]) != set(want[k]):
      return '5: if set(got[k]) != set(want[k]):'
    for pn in want[k]:
      if not rt.same('val', got[k][pn], want[k][pn]):
        return '6: if not rt.same("val", got[k][pn], want[k][pn]):'
  return None


def _same_prov(plines, prov, shown):
  """config_str(show_provenance=True) attributes every binding to the statement that last set it."""
  for label, (fn, line) in prov.items():
    hit = [i for i, l in enumerate(plines) if l.startswith(label + ' =')]
    if len(hit) != 1:
      return '14: if len(hit) != 1 or plines[hit[0] - 1] != tag:'
    above = plines[hit[0] - 1] if hit[0] else ''
    if fn == 'API':
      if above.startswith('#') and _loc_lines(above):
        return '14b: a binding made through bind_parameter carries no provenance comment'
    elif not (above.startswith('#') and len(_loc_lines(above)) == 1 and
              _mentions([above], shown(fn), line) == 1):    # today: '# Set in <file or "bindings string">:<line>:'
      if __import__('os').environ.get('VERIF_EXPLAIN'):
        print('PROV', label, fn, line, above)
      return '14: if len(hit) != 1 or plines[hit[0] - 1] != tag:'
  return None


def _loc_lines(msg, known=None):
  """The lines of a message that state a location: they name one of the files of the scenario (`known`; without
  it any `*.gin` name) or the 'bindings string', and carry a number standing on its own.  (The wording around
  them is Gin's business: today `In file "f", line N`.)"""
  import re
  out = []
  for line in msg.split('\n'):
    if known is None:
      named = re.search(r'[\w./-]+\.gin\b', line) or 'bindings string' in line
    else:
      named = 'bindings string' in line or any(k and k in line for k in known)
    if named and re.search(r'(?<![\w.])\d+(?![\w.])', line):
      out.append(line)
  return out


def _mentions(loc_lines, fname, line):
  import re
  n = 0
  for l in loc_lines:
    names_it = (fname in l) if fname else ('bindings string' in l and not re.search(r'[\w./-]+\.gin\b', l))
    if names_it and re.search(r'(?<![\w.])%d(?![\w.])' % line, l):
      n += 1
  return n


def _check_where(msg, fname, lines_ok, chain, shown, known=None):
  """A semantic error names the file and the line of the offending statement, once per level of the chain."""
  locs = _loc_lines(msg, known)
  hits = [l for l in lines_ok if _mentions(locs, fname, l)]
  if not hits:
    return '11: the message does not name %r with one of the lines %r' % (fname or 'bindings string', lines_ok)
  if sum(_mentions(locs, fname, l) for l in set(lines_ok)) != 1:
    return '12: the offending location is named more than once'
  # ... and once for each level of the include chain
  for fn, line in chain:
    if _mentions(locs, shown(fn), line) != 1:
      return '13: the include level %r line %d is not named exactly once' % (shown(fn) or 'bindings string', line)
  # ... and no level more than the chain has (e.g. a file that had already been left)
  if len(locs) != len(chain) + 1:
    return '13b: the message names exactly one location per level of the include chain (%d named, %d levels)' % (
        len(locs), len(chain) + 1)
  return None


def c16_fault(cont: bool, fault: int, pos: int, depth: int, lead: int, amb: bool, locked: bool,
              v0: int, v1: int, v2: int) -> bool:
  """
  pre: 0 <= fault < 38 and 0 <= pos < 4 and 0 <= depth < 3 and 0 <= lead < 3
  """
  world.fresh()
  fault = rt.pick(fault, NFAULT)
  pos = rt.pick(pos, 4)
  depth = rt.pick(depth, 3)
  lead = rt.pick(lead, 3)
  amb, locked, cont = rt.flag(amb), rt.flag(locked), rt.flag(cont)
  return _core(cont, fault, pos, depth, lead, amb, 1 if locked else 0, v0, v1, v2)


def c16_pre(fault: int, pre: int, pos: int, depth: int, lead: int, v0: int, v1: int, v2: int) -> bool:
  """Kinds of good statement right before the fault (block, macros, imports, sibling include, multi-line values,
  re-binding): the statement that precedes the fault is applied, with the right provenance line.

  pre: 0 <= fault < 38 and 1 <= pre < 8 and 0 <= pos < 4 and 0 <= depth < 3 and 0 <= lead < 3
  """
  world.fresh()
  fault = rt.pick(fault, NFAULT)
  pre = rt.pick(pre, NPRE)
  pos = rt.pick(pos, 4)
  depth = rt.pick(depth, 3)
  lead = rt.pick(lead, 3)
  return _core(False, fault, pos, depth, lead, False, 0, v0, v1, v2, pre=pre)


def c16_outer(fault: int, depth: int, floc: int, pos: int, pre: int, amb: bool, v0: int, v1: int, v2: int) -> bool:
  """The fault sits in an OUTER file, after (pos 0), between (pos 1: another include follows) or after two
  (pos 2) successful includes: the included files are applied completely, the chain has exactly floc levels.

  pre: 0 <= fault < 38 and 1 <= depth < 3 and 0 <= floc < depth and 0 <= pos < 3 and 0 <= pre < 8
  """
  world.fresh()
  fault = rt.pick(fault, NFAULT)
  depth = rt.pick(depth, 3)
  floc = rt.pick(floc, 2)
  pos = rt.pick(pos, 3)
  pre = rt.pick(pre, NPRE)
  amb = rt.flag(amb)
  if pre not in (0, 1, 4):
    rt.discard()
  return _core(False, fault, pos, depth, 1, amb, 0, v0, v1, v2, floc=floc, pre=pre)


def c16_prior(fault: int, prior: int, pos: int, depth: int, pre: int, locked: bool,
              v0: int, v1: int, v2: int) -> bool:
  """A non-empty configuration before the call (1: an earlier parse_config_file binding vw.dflt.a, vw.src.v,
  vw.kws.keep; 2: the same through bind_parameter, which records no provenance); the failing text re-binds some
  of the keys before the fault and the faulty statement itself targets a bound key (faults on vw.src.v).

  pre: 0 <= fault < 38 and 1 <= prior < 3 and 0 <= pos < 4 and 0 <= depth < 3 and 0 <= pre < 8
  """
  world.fresh()
  fault = rt.pick(fault, NFAULT)
  prior = rt.pick(prior, 3)
  pos = rt.pick(pos, 4)
  depth = rt.pick(depth, 3)
  pre = rt.pick(pre, NPRE)
  locked = rt.flag(locked)
  if pre not in (0, 7):
    rt.discard()
  return _core(False, fault, pos, depth, 1, False, 1 if locked else 0, v0, v1, v2, pre=pre, prior=prior)


def c16_entry(fault: int, entry: int, skip: int, pos: int, depth: int, amb: bool,
              v0: int, v1: int, v2: int) -> bool:
  """Other entry points of the failing call (1 parse_config_file, 2 list of strings - one element per statement,
  3 StringIO, 4 parse_config_files_and_bindings with the fault in the 2nd file, 5 ... in the bindings, 6 a
  nameless file object yielding bytes) and the skip_unknown argument (1 True, 2 a list).

  pre: 0 <= fault < 38 and 0 <= entry < 7 and 0 <= skip < 3 and 0 <= pos < 4 and 0 <= depth < 3
  """
  world.fresh()
  fault = rt.pick(fault, NFAULT)
  entry = rt.pick(entry, NENTRY)
  skip = rt.pick(skip, 3)
  pos = rt.pick(pos, 4)
  depth = rt.pick(depth, 3)
  amb = rt.flag(amb)
  if entry == 0 and skip == 0:
    rt.discard()                               # that is c16_fault
  return _core(False, fault, pos, depth, 1, amb, 0, v0, v1, v2, entry=entry, skip=skip)


def c16_locked(entry: int, depth: int, lead: int, pre: int, cont: bool, amb: bool, prior: int,
               v0: int, v1: int, v2: int) -> bool:
  """A finalized configuration that is NOT unlocked: imports and includes before the first binding execute,
  the first binding raises RuntimeError naming its line and the chain, nothing is bound, the lock stays.

  pre: 0 <= entry < 4 and 0 <= depth < 3 and 0 <= lead < 3 and 0 <= pre < 2 and 0 <= prior < 3
  """
  world.fresh()
  entry = rt.pick(entry, 4)
  depth = rt.pick(depth, 3)
  lead = rt.pick(lead, 3)
  pre = 3 if rt.flag(pre >= 1) else 0
  prior = rt.pick(prior, 3)
  cont, amb = rt.flag(cont), rt.flag(amb)
  return _core(cont, NOFAULT, 0, depth, lead, amb, 2, v0, v1, v2, pre=pre, prior=prior, entry=entry)


_V = dict(v0=1, v1=2, v2=3)
_ALLF = list(range(NFAULT))
HARNESSES = {
    'c16_fault': dict(
        fn='c16_fault',
        anchors=['gin.config:parse_config', 'gin.config:parse_config_file', 'gin.utils:try_with_location',
                 'gin.utils:augment_exception_message_and_reraise', 'gin.config:_parse_scope'],
        smoke=[dict(cont=False, fault=4, pos=2, depth=2, lead=1, amb=True, locked=True, v0=1, v1=2, v2=3),
               dict(cont=False, fault=0, pos=1, depth=1, lead=2, amb=False, locked=False, v0=1, v1=2, v2=3),
               dict(cont=True, fault=18, pos=0, depth=2, lead=0, amb=False, locked=False, v0=1, v1=2, v2=3),
               dict(cont=True, fault=5, pos=3, depth=0, lead=0, amb=False, locked=False, v0=1, v1=2, v2=3)] +
              [dict(cont=False, fault=f, pos=1 + f % 3, depth=f % 3, lead=f % 2, amb=False, locked=False, **_V)
               for f in TOKF],
        tiers={'quick': dict(split=dict(fault=_ALLF, depth=[0, 1, 2]),
                             fixed=dict(lead=1), budget_s=100),
               'thorough': dict(split=dict(fault=_ALLF, depth=[0, 1, 2], lead=[0, 1, 2]),
                                budget_s=300)},
        bounds='3 good statements (values: all ints, through constants) + one of 37 faults (bad value, missing value, '
               'unbalanced bracket, bad selector, unknown parameter / configurable / reference (on the 2nd line of its '
               'value), deny-listed parameter, bad include, bad import, semantically / syntactically bad block member, '
               'block of an unknown configurable, a bad member between / before duplicate members of one block, an '
               'ambiguous short selector as binding target / block header / reference; a first token rejected by the '
               'tokenizer (0x, unterminated string, unterminated triple-quoted string, mis-dedented line after a good '
               'indented statement); ambiguous constant %K; unknown / ambiguous reference in a block member; parameter '
               'not in the allowlist; method without class name; include of a non-string, bare include, include whose '
               'reader raises PermissionError; block header without body / with a member on the same line, dotted '
               'member name, include as a member, bad member under a scoped header, deny-listed member, bad member '
               'after a blank and a comment line) at position 0-3, include depth 0-2, 0-2 leading blank/comment '
               'lines, statements optionally written with a backslash continuation between the key / keyword and the '
               'rest, with/without an ambient scope, with/without a finalized config re-opened by unlock_config'),
    'c16_pre': dict(
        fn='c16_pre',
        anchors=['gin.config:parse_config', 'gin.config:parse_config_file', 'gin.utils:try_with_location',
                 'gin.config_parser:_parse_binding_block', 'gin.config:bind_parameter'],
        smoke=[dict(fault=22 + p, pre=p, pos=p % 4, depth=p % 3, lead=1, **_V) for p in range(1, NPRE)] +
              [dict(fault=19, pre=6, pos=1, depth=1, lead=0, **_V), dict(fault=18, pre=1, pos=0, depth=0, lead=0, **_V)],
        tiers={'quick': dict(split=dict(fault=_ALLF), fixed=dict(lead=1, pos=2), budget_s=100),
               'thorough': dict(split=dict(fault=_ALLF, depth=[0, 1, 2], pos=[0, 1, 2, 3]), fixed=dict(lead=1),
                                budget_s=300)},
        bounds='as c16_fault (no continuation, no ambient scope, unlocked) with one of 7 kinds of good statement right '
               'before the fault: a block with a blank and a comment line inside (provenance = the member\'s own '
               'line), plain and scoped macro bindings, import / from-import, a sibling include of a two-statement '
               'file, a bracketed value over three lines, a triple-quoted string over three lines, a re-binding of '
               'vw.dflt.a; quick: position 2'),
    'c16_outer': dict(
        fn='c16_outer',
        anchors=['gin.config:parse_config', 'gin.config:parse_config_file', 'gin.utils:try_with_location',
                 'gin.utils:augment_exception_message_and_reraise'],
        smoke=[dict(fault=30, depth=2, floc=0, pos=0, pre=0, amb=False, **_V),
               dict(fault=31, depth=2, floc=1, pos=1, pre=4, amb=True, **_V),
               dict(fault=32, depth=1, floc=0, pos=2, pre=1, amb=False, **_V)],
        tiers={'quick': dict(split=dict(fault=_ALLF), fixed=dict(pre=0), budget_s=100),
               'thorough': dict(split=dict(fault=_ALLF, depth=[1, 2]), budget_s=300)},
        bounds='every fault kind placed in an OUTER file (level floc < depth <= 2) after one successful include, '
               'between two, or after two (sibling include of a two-statement file), optionally after a good block / '
               'sibling include (thorough), with/without an ambient scope: the included files are applied completely, '
               'the statement after the fault and the following include are not, the error names exactly floc+1 levels'),
    'c16_prior': dict(
        fn='c16_prior',
        anchors=['gin.config:parse_config', 'gin.config:parse_config_file', 'gin.config:bind_parameter',
                 'gin.utils:try_with_location'],
        smoke=[dict(fault=33, prior=1, pos=2, depth=1, pre=7, locked=False, **_V),
               dict(fault=34, prior=2, pos=0, depth=0, pre=0, locked=True, **_V),
               dict(fault=35, prior=1, pos=3, depth=2, pre=0, locked=False, **_V)],
        tiers={'quick': dict(split=dict(fault=_ALLF), fixed=dict(depth=1, locked=False), budget_s=100),
               'thorough': dict(split=dict(fault=_ALLF, prior=[1, 2], depth=[0, 1, 2]), budget_s=300)},
        bounds='every fault kind at position 0-3 into a NON-EMPTY configuration (vw.dflt.a, vw.src.v, vw.kws.keep bound '
               'by an earlier parse_config_file or by bind_parameter), the failing text re-binding vw.dflt.a once or '
               'twice before the fault, the faulty statement targeting the bound vw.src.v: value and "# Set in" '
               'comment belong to the last successful setter (no comment after bind_parameter); quick: depth 1, unlocked'),
    'c16_entry': dict(
        fn='c16_entry',
        anchors=['gin.config:parse_config', 'gin.config:parse_config_file',
                 'gin.config:parse_config_files_and_bindings', 'gin.config:_should_skip',
                 'gin.utils:try_with_location'],
        smoke=[dict(fault=[4, 36, 37][e % 3], entry=e, skip=0, pos=2, depth=e % 3, amb=False, **_V) for e in range(1, NENTRY)] +
              [dict(fault=18, entry=4, skip=0, pos=0, depth=1, amb=False, **_V),
               dict(fault=5, entry=0, skip=1, pos=1, depth=1, amb=False, **_V),
               dict(fault=12, entry=5, skip=2, pos=1, depth=0, amb=True, **_V),
               dict(fault=6, entry=1, skip=2, pos=1, depth=2, amb=False, **_V)],
        tiers={'quick': dict(split=dict(fault=_ALLF), fixed=dict(pos=2, amb=False, depth=1), budget_s=100),
               'thorough': dict(split=dict(fault=_ALLF, depth=[0, 1, 2]), fixed=dict(amb=False), budget_s=300)},
        bounds='every fault kind through parse_config_file, parse_config(list with one element per statement), '
               'parse_config(StringIO), parse_config_files_and_bindings (fault in the 2nd file: 1st file applied, '
               'bindings not, not finalized; fault in the bindings), a nameless file object yielding bytes; '
               'skip_unknown False / True / a list: unknown configurable (binding, block) and (True only) bad import '
               'stop being faults, every other kind fails identically; quick: position 2, depth 1, no ambient scope'),
    'c16_locked': dict(
        fn='c16_locked',
        anchors=['gin.config:parse_config', 'gin.config:parse_config_file', 'gin.config:bind_parameter',
                 'gin.utils:try_with_location'],
        smoke=[dict(entry=0, depth=2, lead=1, pre=1, cont=False, amb=True, prior=1, **_V),
               dict(entry=1, depth=0, lead=0, pre=0, cont=True, amb=False, prior=0, **_V)],
        tiers={'quick': dict(split=dict(depth=[0, 1, 2], entry=[0, 1, 2, 3]), fixed=dict(lead=1), budget_s=100),
               'thorough': dict(split=dict(depth=[0, 1, 2], entry=[0, 1, 2, 3], lead=[0, 1, 2]), budget_s=300)},
        bounds='a finalized configuration that is not unlocked, include depth 0-2 with no binding before the includes, '
               'optionally imports before the first binding, 4 entry points, with/without continuation / ambient '
               'scope / prior state'),
}
OUTSIDE = ('an unknown macro %nosuch is accepted by every parse entry point and only rejected by finalize() (no '
           'statement fails): not a fault kind here; dynamic registration in the failing file; import of modules that '
           'raise while importing; include cycles; \\r\\n / BOM / form-feed layouts (C03)')
ASSUMPTIONS = ['the binding store is read through get_bindings(inherit_scopes=False) over the keys of the private '
               'gin.config._CONFIG; the parse-context depth through the private _PARSE_CONTEXTS',
               'interpretation (DESIGN.md section 9): a syntactic fault inside a block makes the block the failing '
               'statement; a semantic fault in member k leaves members < k applied; the line named for an unknown '
               'reference may be the statement line or the reference line',
               'for the block faults added later (24, 25, 33-37) both readings of "statement" are accepted: members '
               'before the bad one applied (error may name the member line) or no member applied (error may name the '
               'header line); never a member after it and never the loss of a statement before the block',
               'errors raised by the tokenizer itself (TokenError / IndentationError, faults 19-22) and the syntax '
               'errors added later (28, 29, 31-34) are not required to carry a location (the statement asks for one '
               'for semantic errors); what they leave behind is checked like for every other fault',
               'skip_unknown: an unknown reference kept as a placeholder (skip_unknown=True) and a bad import under a '
               'list-valued skip_unknown are left out (the statement does not fix the outcome)']
