"""C16 - a failed parse applies exactly the preceding statements; errors say where."""
import gin
from gin import config as gc
from vf import rt
from vf import world

GOOD = ['vw.dflt.a = %vwc.V0', 's/vw.dflt.b = %vwc.V1', 'vw.plain.a = [%vwc.V2, 7]']
# (lines of the faulty statement, 0-based offset of the line the error must name,
#  exception class, is_syntax)
FAULTS = [
    (['vw.src.v = 1 +'], 0, SyntaxError, True),                       # bad value
    (['vw.src.v ='], 0, SyntaxError, True),                           # missing value
    (['vw.src.v = [1, 2'], None, (SyntaxError, __import__('tokenize').TokenError), True),  # unbalanced
    (['vw..src.v = 1'], 0, SyntaxError, True),                        # bad selector
    (['vw.src.nope = 1'], 0, ValueError, False),                      # unknown parameter
    (['vw.nosuch.x = 1'], 0, ValueError, False),                      # unknown configurable
    (['vw.src.v = (1,', '    @nosuch())'], (0, 1), ValueError, False),   # unknown reference
    (['vw.deny_b.b = 1'], 0, ValueError, False),                      # deny-listed parameter
    (["include 'missing.gin'"], 0, IOError, False),                   # bad include
    (['import no_such_module_xyz'], 0, ImportError, False),           # bad import
    (['vw.src:', '  v = 3', '  nope = 1'], 2, ValueError, False),     # bad block member (semantic)
    (['vw.src:', '  v = 3', '  v = = 1'], 2, SyntaxError, True),      # bad block member (syntactic)
    (['vw.nosuch:', '  x = 1'], 0, ValueError, False),                # block of unknown configurable
    (['vw.src:', '  v = 3', '  nope = 1', '  v = 4'], 2, ValueError, False),   # duplicate member after the bad one
    (['vw.src:', '  nope = 0', '  v = 1', '  nope = 2'], 1, ValueError, False),  # the FIRST bad member is named
    (['fam.p = 1'], 0, KeyError, False),                                # ambiguous short selector (binding)
    (['fam:', '  p = 1'], 0, KeyError, False),                          # ambiguous short selector (block header)
    (['vw.src.v = @fam()'], (0, 1), KeyError, False),                    # ambiguous reference (its own line may be named)
    ([], None, None, False),                                          # no fault
]
NFAULT = len(FAULTS)
FILES = [None, 'mid.gin', 'inner.gin']     # name of the file at include depth d (0 = the string)


def snapshot():
  out = {}
  for (scope, sel) in list(gc._CONFIG):
    out[(scope, sel)] = gin.get_bindings((scope + '/' if scope else '') + sel,
                                         inherit_scopes=False)
  return out


def c16_fault(cont: bool, fault: int, pos: int, depth: int, lead: int, amb: bool, locked: bool,
              v0: int, v1: int, v2: int) -> bool:
  """
  pre: 0 <= fault < 19 and 0 <= pos < 4 and 0 <= depth < 3 and 0 <= lead < 3
  """
  world.fresh()
  fault = rt.pick(fault, NFAULT)
  pos = rt.pick(pos, 4)
  depth = rt.pick(depth, 3)
  lead = rt.pick(lead, 3)
  amb, locked, cont = rt.flag(amb), rt.flag(locked), rt.flag(cont)
  flines, errline, exc_cls, is_syntax = FAULTS[fault]
  if cont:
    # a backslash continuation right after the key / keyword: the statement still BEGINS on the first line
    if len(flines) != 1 or ' = ' not in flines[0] and not flines[0].startswith(('include', 'import')):
      if flines:
        rt.discard()
    if flines and is_syntax:
      rt.discard()
  if not flines and pos:
    rt.discard()
  rt.sig(('fault', cont, fault, pos, depth, lead, amb, locked), nontrivial=bool(flines))
  for name, v in (('V0', v0), ('V1', v1), ('V2', v2)):
    gin.constant('vwc.' + name, v)
  with rt.native():
    # ---- build the innermost text: 3 good statements with the fault at `pos` -----
    body = [['', '# leading comment'][i % 2] for i in range(lead)]
    stmt_line = {}
    def split_after_key(line):
      if not cont:
        return [line]
      if ' = ' in line:
        k, v = line.split(' = ', 1)
        return [k + ' \\', '    = ' + v]
      k, v = line.split(' ', 1)
      return [k + ' \\', '    ' + v]
    for i in range(4):
      if i == pos and flines:
        stmt_line['fault'] = len(body) + 1
        body.extend(split_after_key(flines[0]) if len(flines) == 1 else flines)
      if i < 3:
        stmt_line[i] = len(body) + 1
        body.extend(split_after_key(GOOD[i]))
    inner_text = '\n'.join(body) + '\n'
    files = {}
    texts = {depth: inner_text}
    inc_line = {}
    for d in range(depth - 1, -1, -1):
      # outer file: one statement before the include, one after it
      if cont:
        texts[d] = "vw.kws.pre%d = %d\n\ninclude \\\n    '%s'\nvw.kws.post%d = 1\n" % (d, d, FILES[d + 1], d)
      else:
        texts[d] = "vw.kws.pre%d = %d\n\ninclude '%s'\nvw.kws.post%d = 1\n" % (d, d, FILES[d + 1], d)
      inc_line[d] = 3
    for d in range(1, depth + 1):
      files[FILES[d]] = texts[d]
    world.use_mem_fs(files)
    prefix_good = [GOOD[i] for i in range(3) if i < pos] if flines else GOOD
    rest_good = [GOOD[i] for i in range(3) if i >= pos] if flines else []
  if locked:
    gin.finalize()
  # ---- the failing call --------------------------------------------------------------
  exc = None
  depth_before = len(gc._PARSE_CONTEXTS)

  def call():
    if locked:
      with gin.unlock_config():
        gin.parse_config(texts[0])
    else:
      gin.parse_config(texts[0])

  try:
    with rt.native():
      if amb:
        with gin.config_scope('amb'):
          call()
          if gin.current_scope() != ['amb']:
            return rt.no('1: if gin.current_scope() != ["amb"]:')
      else:
        call()
  except Exception as e:
    exc = e
  if gin.current_scope() != [] or gin.config_is_locked() != locked:
    return rt.no('2: if gin.current_scope() != [] or gin.config_is_locked() != locked:')
  if len(gc._PARSE_CONTEXTS) != depth_before:
    return rt.no('3: if len(gc._PARSE_CONTEXTS) != depth_before:')
  got = snapshot()
  # ---- reference: the prefix applied to a cleared configuration -----------------------
  with rt.native():
    saved_cfg = {k: dict(d) for k, d in gc._CONFIG.items()}
    saved_prov = {k: dict(d) for k, d in gc._CONFIG_PROVENANCE.items()}
    gc._CONFIG.clear()
    gc._CONFIG_PROVENANCE.clear()
    was_locked = gin.config_is_locked()
    gc._set_config_is_locked(False)
    pre = ['vw.kws.pre%d = %d' % (d, d) for d in range(depth)]
    post = ['vw.kws.post%d = 1' % d for d in range(depth)] if not flines else []
    extra = []
    if fault in (10, 11) and False:
      pass
    if fault in (10, 13):
      extra = ['vw.src.v = 3']          # members before a semantically bad member took effect
    gin.parse_config('\n'.join(pre + prefix_good + extra + post) + '\n')
  want = snapshot()
  with rt.native():
    gc._CONFIG.clear()
    gc._CONFIG.update(saved_cfg)
    gc._CONFIG_PROVENANCE.clear()
    gc._CONFIG_PROVENANCE.update(saved_prov)
    gc._set_config_is_locked(was_locked)
  if set(got) != set(want):
    return rt.no('4: if set(got) != set(want):')
  for k in want:
    if set(got[k]) != set(want[k]):
      return rt.no('5: if set(got[k]) != set(want[k]):')
    for pn in want[k]:
      if not rt.same('val', got[k][pn], want[k][pn]):
        return rt.no('6: if not rt.same("val", got[k][pn], want[k][pn]):')
  with rt.native():
    if not flines:
      if exc is not None:
        return rt.no('7: if exc is not None:')
    else:
      if exc is None or not isinstance(exc, exc_cls):
        return rt.no('8: if exc is None or not isinstance(exc, exc_cls):')
      msg = str(exc)
      fname = FILES[depth]
      if errline is not None:
        lines_ok = [stmt_line['fault'] + o for o in (errline if isinstance(errline, tuple) else (errline,))]
        if is_syntax:
          if getattr(exc, 'lineno', None) not in lines_ok:
            return rt.no('9: if getattr(exc, "lineno", None) not in lines_ok:')
          if getattr(exc, 'filename', None) != fname:
            return rt.no('10: if getattr(exc, "filename", None) != fname:')
        else:
          where = 'In file "%s", line ' % fname if fname else 'In bindings string line '
          if not any((where + str(l) + '\n') in msg for l in lines_ok):
            return rt.no('11: if not any((where + str(l) + "\n") in msg for l in lines_ok):')
          if msg.count(where) != 1:
            return rt.no('12: if msg.count(where) != 1:')
          # ... and once for each level of the include chain
          for d in range(depth):
            fn = FILES[d]
            w2 = ('In file "%s", line %d\n' % (fn, inc_line[d])) if fn else (
                'In bindings string line %d\n' % inc_line[d])
            if msg.count(w2) != 1:
              return rt.no('13: if msg.count(w2) != 1:')
    # ---- provenance of every surviving binding ---------------------------------------------
    prov = gin.config_str(show_provenance=True)
    loc = lambda d, l: '# Set in %s:%d:' % (FILES[d] or 'bindings string', l)
    expect_prov = []
    for i in range(3):
      if (not flines) or i < pos:
        expect_prov.append((loc(depth, stmt_line[i]), GOOD[i].split(' = ')[0].replace('vw.', '')))
    for d in range(depth):
      expect_prov.append((loc(d, 1), 'kws.pre%d' % d))
    plines = prov.split('\n')
    for tag, key in expect_prov:
      hit = [i for i, l in enumerate(plines) if l.startswith(key + ' =')]
      if __import__('os').environ.get('VERIF_EXPLAIN') and (len(hit) != 1 or plines[hit[0] - 1] != tag):
        print('PROV', tag, key, hit, plines)
      if len(hit) != 1 or plines[hit[0] - 1] != tag:
        return rt.no('14: if len(hit) != 1 or plines[hit[0] - 1] != tag:')
    # ---- later parsing behaves as after the prefix alone -------------------------------------
    if flines:
      def go():
        gin.parse_config('\n'.join(rest_good) + '\nvw.src2.v = 5\n')
      if locked:
        with gin.unlock_config():
          go()
      else:
        go()
  final = snapshot()
  if flines:
    for i in range(3):
      key = [('', 'vw.dflt'), ('s', 'vw.dflt'), ('', 'vw.plain')][i]
      if key not in final:
        return rt.no('15: if key not in final:')
    if not (rt.same('a', final[('', 'vw.dflt')]['a'], v0) and
            rt.same('b', final[('s', 'vw.dflt')]['b'], v1) and
            rt.same('p', final[('', 'vw.plain')]['a'][0], v2)):
      return rt.no('16: rt.same("p", final[("", "vw.plain")]["a"][0], v2)):')
    if final.get(('', 'vw.src2')) != {'v': 5}:
      return rt.no('17: if final.get(("", "vw.src2")) != {"v": 5}:')
  return True


HARNESSES = {
    'c16_fault': dict(
        fn='c16_fault',
        anchors=['gin.config:parse_config', 'gin.config:parse_config_file', 'gin.utils:try_with_location',
                 'gin.utils:augment_exception_message_and_reraise', 'gin.config:_parse_scope'],
        smoke=[dict(cont=False, fault=4, pos=2, depth=2, lead=1, amb=True, locked=True, v0=1, v1=2, v2=3),
               dict(cont=False, fault=0, pos=1, depth=1, lead=2, amb=False, locked=False, v0=1, v1=2, v2=3),
               dict(cont=True, fault=18, pos=0, depth=2, lead=0, amb=False, locked=False, v0=1, v1=2, v2=3),
               dict(cont=True, fault=5, pos=3, depth=0, lead=0, amb=False, locked=False, v0=1, v1=2, v2=3)],
        tiers={'quick': dict(split=dict(fault=list(range(NFAULT)), depth=[0, 1, 2]),
                             fixed=dict(lead=1), budget_s=100),
               'thorough': dict(split=dict(fault=list(range(NFAULT)), depth=[0, 1, 2], lead=[0, 1, 2]),
                                budget_s=300)},
        bounds='3 good statements (values: all ints, through constants) + one of 18 faults (bad value, missing value, '
               'unbalanced bracket, bad selector, unknown parameter / configurable / reference (on the 2nd line of its '
               'value), deny-listed parameter, bad include, bad import, semantically / syntactically bad block member, '
               'block of an unknown configurable, a bad member between / before duplicate members of one block, an ambiguous short selector as binding target / block header / reference) at position 0-3, include depth 0-2, 0-2 leading blank/comment '
               'lines, statements optionally written with a backslash continuation between the key / keyword and the rest, with/without an ambient scope, with/without a finalized config re-opened by unlock_config'),
}
ASSUMPTIONS = ['the binding store is read through get_bindings(inherit_scopes=False) over the keys of the private '
               'gin.config._CONFIG; the parse-context depth through the private _PARSE_CONTEXTS',
               'interpretation (DESIGN.md section 9): a syntactic fault inside a block makes the block the failing '
               'statement; a semantic fault in member k leaves members < k applied; the line named for an unknown '
               'reference may be the statement line or the reference line']
