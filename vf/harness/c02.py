"""C02 - literal values parse to exactly what Python evaluates them to.

Engine X through the tokenizer seam: the value part of a binding is a symbolic
token stream of at most N tokens over a vocabulary; the real statement/value
parser, bind_parameter and query_parameter run on it.  The binding is written in
one of three statement positions (`pos`): flat `vw.lit.p = <value>`, member of a
block `vw.lit:\\n  p = <value>`, macro definition `m = <value>`.
Oracle: vf.spec.literal (the grammar G of the property) + ast.literal_eval,
compared type- and sign-sensitively (repr for float/complex: -0.0, -0j, inf).

References (`@name`, `@name()`) and macros (`%name`) are legal Gin values that
are NOT literals; the property is silent about them.  The reference grammar is
therefore extended (class PX) so that a value MAY contain them wherever a value
may stand: a stream containing '@'/'%' may be rejected or accepted, but if it is
accepted it must be a sentence of the extended grammar with every literal part
equal to Python's (so `-@y`, `[-%m, 1]`, `1 @y`, `@y 1` accepted is a violation).
"""
import ast

import gin
from gin import config as _gc
from vf import rt
from vf import tokseam
from vf import world
from vf.spec import literal


@gin.configurable('y', module='vw02')
def _probe_y():
  return 7


END, ENDC = ('END', ''), ('ENDC', '# tail')
VOC_R = [END, ENDC, ('OP', '['), ('OP', ']'), ('OP', '('), ('OP', ')'), ('OP', '{'), ('OP', '}'),
         ('OP', ','), ('OP', ':'), ('OP', '-'), ('OP', '+'), ('NUMBER', '1'), ('STRING', "'a'"),
         ('STRING', "''"), ('NAME', 'True'), ('NAME', 'x'), ('NL', '\n'), ('COMMENT', '# c'),
         ('NUMBER', '007'), ('NUMBER', '00')]
VOC_F = VOC_R + [('NUMBER', '0x1F'), ('NUMBER', '1_0'), ('NUMBER', '1e3'), ('NUMBER', '.5'),
                 ('NUMBER', '1j'), ('STRING', '"b"'), ('STRING', "'''t'''"), ('STRING', "r'\\n'"),
                 ('STRING', "b'x'"), ('STRING', "rb'y'"), ('STRING', "u'z'"), ('STRING', '""'),
                 ('NAME', 'False'), ('NAME', 'None'), ('OP', '='), ('OP', '.'), ('OP', '*'),
                 ('NUMBER', '0_7'), ('NUMBER', '0o17'), ('NUMBER', '0b101'), ('NUMBER', '1.'), ('NUMBER', '1E-2')]
# structural vocabulary for deeper nesting (N = 7): brackets, comma, one number, one string
VOC_S = [END, ('OP', '('), ('OP', ')'), ('OP', '['), ('OP', ']'), ('OP', ','), ('NUMBER', '1')]
VOC_T = VOC_S + [('OP', '{'), ('OP', '}'), ('OP', ':'), ('STRING', "'a'")]
# other value kinds and junk: references, macros, characters that are no Python token ('$' as the 3.12
# tokenizer reports it (OP) and as the pure-Python tokenizer of <= 3.11 reported it (ERRORTOKEN ' ' +
# ERRORTOKEN '$')), text on which the tokenizer itself raises (unterminated string, bad hex literal)
VOC_X = [END, ENDC, ('OP', '-'), ('OP', '@'), ('OP', '%'), ('NAME', 'y'), ('OP', '('), ('OP', ')'),
         ('OP', '['), ('OP', ']'), ('OP', ','), ('NUMBER', '1'), ('OP', '$'), ('ERR', '$'),
         ('TOKERR', "'abc"), ('TOKERR', '0xG')]
VOC_XT = VOC_X + [('OP', '{'), ('OP', '}'), ('OP', ':'), ('STRING', "'a'"), ('NL', '\n')]
# negative numbers inside containers and as dict keys / values
VOC_N = [END, ('OP', '['), ('OP', ']'), ('OP', '{'), ('OP', '}'), ('OP', ':'), ('OP', ','), ('OP', '-'),
         ('NUMBER', '1')]
# line breaks and comments between the pieces of one scalar / around separators, inside brackets
VOC_L = [END, ('OP', '['), ('OP', ']'), ('OP', ','), ('OP', '-'), ('NUMBER', '1'), ('STRING', "'a'"),
         ('NL', '\n'), ('COMMENT', '# c')]
VOC_LT = VOC_L + [('OP', '('), ('OP', ')')]
VOC_LD = [END, ('OP', '{'), ('OP', '}'), ('OP', ':'), ('OP', ','), ('OP', '-'), ('NUMBER', '1'), ('STRING', "'a'"),
          ('NL', '\n'), ('COMMENT', '# c')]
# numerics whose sign / magnitude an '==' comparison cannot see, and leading-zero forms (legal: 09.5 00e1
# 09j 0 00; not Python: 09)
VOC_Z = [END, ('OP', '-'), ('OP', '('), ('OP', ')'), ('NUMBER', '0.0'), ('NUMBER', '0j'), ('NUMBER', '1e400'),
         ('NUMBER', '0'), ('NUMBER', '09.5'), ('NUMBER', '00e1'), ('NUMBER', '09j'), ('NUMBER', '09'),
         ('OP', '+'), ('OP', ',')]
# dict with repeated / equal-but-differently-typed keys
VOC_D = [END, ('OP', '{'), ('OP', '}'), ('OP', ':'), ('OP', ','), ('NUMBER', '1'), ('STRING', "'a'"),
         ('NAME', 'True'), ('NUMBER', '1.0')]
VOCS = [VOC_R, VOC_F, VOC_S, VOC_T, VOC_X, VOC_XT, VOC_N, VOC_L, VOC_LT, VOC_Z, VOC_D, VOC_LD]
I_X, I_XT, I_N, I_L, I_LT, I_Z, I_D, I_LD = 4, 5, 6, 7, 8, 9, 10, 11

# statement positions: (token, string, gap before it, text of the physical line) ... up to and including '='
HEADS = [
    [('NAME', 'vw', 0, 'vw.lit.p = ...\n'), ('OP', '.', 0, 'vw.lit.p = ...\n'), ('NAME', 'lit', 0, 'vw.lit.p = ...\n'),
     ('OP', '.', 0, 'vw.lit.p = ...\n'), ('NAME', 'p', 0, 'vw.lit.p = ...\n'), ('OP', '=', 1, 'vw.lit.p = ...\n')],
    [('NAME', 'vw', 0, 'vw.lit:\n'), ('OP', '.', 0, 'vw.lit:\n'), ('NAME', 'lit', 0, 'vw.lit:\n'),
     ('OP', ':', 0, 'vw.lit:\n'), ('NEWLINE', '\n', 0, None), ('INDENT', '  ', 0, '  p = ...\n'),
     ('NAME', 'p', 0, '  p = ...\n'), ('OP', '=', 1, '  p = ...\n')],
    [('NAME', 'm', 0, 'm = ...\n'), ('OP', '=', 1, 'm = ...\n')],
]
QUERY = ['vw.lit.p', 'vw.lit.p', 'm/gin.macro.value']
NPOS = len(HEADS)


class Ref:
  """What '@' NAME ['(' ')'] or '%' NAME stands for in the extended reference grammar."""

  def __init__(self, sigil, name, evaluate):
    self.key = (sigil, name, evaluate)

  def __eq__(self, other):
    return isinstance(other, Ref) and self.key == other.key

  def __hash__(self):
    return hash(self.key)

  def __repr__(self):
    return 'Ref%r' % (self.key,)


class PX(literal.P):
  """literal.P (the grammar G of the property, unchanged) + references and macros as values."""

  def value(self):
    typ, s = self.peek()
    if typ == 'OP' and s in ('@', '%'):
      self.take()
      t2, name = self.peek()
      if t2 != 'NAME':
        raise literal.Dead()
      self.take()
      evaluate = s == '%'
      if s == '@' and self.i < len(self.t) and self.t[self.i] == ('OP', '('):
        self.take()
        t3 = self.peek()
        if t3 != ('OP', ')'):
          raise literal.Dead()
        self.take()
        evaluate = True
      return Ref(s, name, evaluate)
    return literal.P.value(self)


def classify(tokens):
  """literal.classify over the extended grammar (identical on streams without '@' / '%')."""
  p = PX(list(tokens))
  try:
    v = p.value()
  except literal.NeedMore:
    return ('viable', None)
  except literal.Dead:
    return ('dead', None)
  except literal.Unhashable:
    return ('typeerror', None)
  if p.i < len(tokens):
    return ('dead', None)
  return ('accept', v)


def same_value(a, b):
  """literal.same_value (equal value AND equal type, recursively) made sign-sensitive: float and complex
  are compared by repr (-0.0 / 0.0, -0j, inf).  A Ref in `b` stands for any ConfigurableReference."""
  if isinstance(b, Ref):
    return isinstance(a, _gc.ConfigurableReference)
  if type(a) is not type(b):
    return False
  if isinstance(a, (list, tuple)):
    return len(a) == len(b) and all(same_value(x, y) for x, y in zip(a, b))
  if isinstance(a, dict):
    if len(a) != len(b):
      return False
    free = list(b)
    for k1, v1 in a.items():       # dict equality does not depend on insertion order
      match = [k2 for k2 in free if same_value(k1, k2) and same_value(v1, b[k2])]
      if not match:
        return False
      free.remove(match[0])
    return True
  if isinstance(a, (float, complex)):
    return repr(a) == repr(b)
  return a == b


def _same_but_key_identity(a, b):
  """same_value, except that of two equal dict keys of different type (1 / True / 1.0) either may have survived."""
  if isinstance(a, dict) and isinstance(b, dict):
    return len(a) == len(b) and all(k in b and _same_but_key_identity(v, b[k]) for k, v in a.items())
  if isinstance(a, (list, tuple)) and type(a) is type(b):
    return len(a) == len(b) and all(_same_but_key_identity(x, y) for x, y in zip(a, b))
  return same_value(a, b)


def _raised_by_crosshair(e):
  tb, last = e.__traceback__, None
  while tb is not None:
    tb, last = tb.tb_next, tb
  return last is not None and '/crosshair/' in last.tb_frame.f_code.co_filename


def c02_tokens(nk: int, n: int, voc: int, pos: int, k0: int, k1: int, k2: int, k3: int, k4: int, k5: int,
               k6: int, k7: int, k8: int) -> bool:
  """
  pre: 0 <= k0 < nk and 0 <= k1 < nk and 0 <= k2 < nk and 0 <= k3 < nk and 0 <= k4 < nk and 0 <= k5 < nk
  pre: 0 <= k6 < nk and 0 <= k7 < nk and 0 <= k8 < nk and 0 <= pos < 3
  """
  world.fresh()
  vocab = VOCS[voc]
  kinds = [k0, k1, k2, k3, k4, k5, k6, k7, k8]
  pos = rt.pick(pos, NPOS)
  w = tokseam.Writer()
  st = {'pulled': [], 'ended': False, 'eof_error': False, 'finished': False, 'refs': False, 'legacy': False}

  def gen():
    for typ, s, gap, line in HEADS[pos]:
      yield w.tok(typ, s, gap=gap, line=line)
    depth = 0
    i = 0
    while True:
      if i < n:
        k = rt.pick(kinds[i], len(vocab))
        typ, s = vocab[k]
      else:
        typ, s = END
      i += 1
      if typ == 'END' or typ == 'ENDC':
        if typ == 'ENDC':
          if depth > 0:
            rt.discard()
          st['ended'] = True       # a comment outside brackets ends the logical line
          yield w.tok('COMMENT', s)
        st['ended'] = True
        if depth > 0:
          yield w.tok('NL', '\n')
          st['eof_error'] = True
          st['finished'] = True
          raise tokseam.TokenError('unexpected EOF in multi-line statement', (w.row, 0))
        yield w.tok('NEWLINE', '\n')
        st['finished'] = True
        if pos == 1:
          yield w.tok('DEDENT', '')
        yield w.tok('ENDMARKER', '')
        return
      if typ in ('NL', 'COMMENT'):
        if depth == 0:
          rt.discard()              # tokenizer contract: only inside brackets
        yield w.tok(typ, s)
        if typ == 'COMMENT':
          yield w.tok('NL', '\n')
        continue
      if typ == 'TOKERR':
        # text on which the tokenizer itself raises instead of handing out a token
        st['pulled'].append((typ, s))
        w.raw(s)
        st['ended'] = st['finished'] = st['eof_error'] = True
        raise tokseam.TokenError('stub: tokenizer error on %s' % s, (w.row, 0))
      if typ == 'ERR':
        # a character that is no Python token, as the pure-Python tokenizer (<= 3.11) reports it:
        # ERRORTOKEN ' ' for the blank before it, then ERRORTOKEN <char>
        st['pulled'].append((typ, s))
        st['legacy'] = True
        if w.cur:
          yield w.tok('ERRORTOKEN', ' ', gap=0)
        yield w.tok('ERRORTOKEN', s, gap=0)
        continue
      if typ == 'OP' and s in '[({':
        depth += 1
      elif typ == 'OP' and s in '])}' and depth > 0:
        depth -= 1
      if typ == 'OP' and s in '@%':
        st['refs'] = True
      st['pulled'].append((typ, s))
      yield w.tok(typ, s)

  outcome, value, exc = None, None, None
  with tokseam.installed(gen):
    try:
      gin.parse_config('(symbolic token stream)')
      outcome = 'accepted'
      # (containers built under tracing are CrossHair proxies: make them plain)
      try:
        value = rt.realize(gin.query_parameter(QUERY[pos]))
      except TypeError as e:
        # CrossHair's dict model accepts unhashable keys; making the value plain
        # raises what CPython's dict() raises in the real run
        outcome, exc = 'typeerror', e
    except (SyntaxError, tokseam.TokenError) as e:
      outcome = 'rejected'
      exc = e
    except TypeError as e:
      outcome = 'typeerror'
      exc = e
    except ValueError as e:
      with rt.native():
        model = not e.args and _raised_by_crosshair(e)
      if model:
        # CrossHair's model of dict() raises a bare ValueError where CPython's raises TypeError (unhashable key)
        outcome = 'typeerror'
      elif st['refs']:
        outcome = 'valueerror'        # (an unknown configurable behind '@': not this property's concern)
      else:
        raise
      exc = e
  with rt.native():
    pulled = st['pulled']
    verdict, want = classify(pulled)
    rt.sig(('tokens', pos, tuple(s for _, s in pulled), st['ended']),
           nontrivial=verdict in ('accept',) or len(pulled) >= 2)
    text = w.text()
    # ---- validate the stub against the real tokenizer and the real parse ------
    real, real_exc = tokseam.real_tokens(text)
    emitted = tokseam.as_real_312(w.emitted)
    if real[:len(emitted)] != emitted[:len(real)] or (
        st['finished'] and (len(real) < len(emitted) or (real_exc is None) == st['eof_error'])):
      raise rt.HarnessError('token stub disagrees with tokenize on %r: %r vs %r (%r)' %
                            (text, emitted, real, real_exc))
    if st['ended'] and not st['legacy']:
      # (a stream with an 'ERR' kind follows the token contract of Python <= 3.11 on purpose: its parse
      # need not coincide with the parse of the 3.12 tokens of the same text)
      world.fresh()
      try:
        gin.parse_config(text)
        r_outcome, r_value = 'accepted', gin.query_parameter(QUERY[pos])
      except (SyntaxError, tokseam.TokenError):
        r_outcome, r_value = 'rejected', None
      except TypeError:
        r_outcome, r_value = 'typeerror', None
      except ValueError:
        if not st['refs']:
          raise
        r_outcome, r_value = 'valueerror', None
      if r_outcome != outcome or (outcome == 'accepted' and not _same_but_key_identity(r_value, value)):
        raise rt.HarnessError('stubbed parse and real parse differ on %r: %r/%r vs %r/%r' %
                              (text, outcome, value, r_outcome, r_value))
      if outcome == 'accepted':
        # CrossHair's model of dict keeps the LAST of two equal keys ({1: 'a', True: 'b'} -> {True: 'b'}), CPython
        # the first ({1: 'b'}): what is judged is the value the untraced parser stored for the same text
        value = r_value
    # ---- the property --------------------------------------------------------------
    if verdict == 'typeerror':
      return True                    # Python itself raises TypeError: in neither class
    if outcome == 'typeerror':
      return rt.no('TypeError on a stream whose evaluation Python does not refuse')
    if outcome == 'accepted':
      if verdict != 'accept':
        return rt.no('accepted text that is not a literal: %r' % (text,))
      if not same_value(value, want):
        return rt.no('stored %r, Python evaluates %r to %r' % (value, text, want))
      if not st['refs']:
        # the reference model itself is cross-checked against CPython
        py = ast.literal_eval(text.split('=', 1)[1].strip())
        if not same_value(py, want):
          raise rt.HarnessError('reference grammar disagrees with ast.literal_eval on %r' % text)
      return True
    if st['refs']:
      return True                    # the property is silent on whether / how references are accepted
    # rejected: only a dead prefix may be rejected before the end; at the end
    # only non-sentences may be rejected
    if st['ended']:
      if verdict not in ('dead', 'viable'):
        return rt.no('rejected the literal %r' % (text,))
      return True
    if verdict != 'dead':
      return rt.no('rejected %r although a literal starts like this' % (text,))
    return True


def _smoke(*ks, n=6, voc=1, pos=0):
  ks = list(ks) + [0] * (9 - len(ks))
  return dict(n=n, voc=voc, nk=len(VOCS[voc]), pos=pos, k0=ks[0], k1=ks[1], k2=ks[2], k3=ks[3], k4=ks[4],
              k5=ks[5], k6=ks[6], k7=ks[7], k8=ks[8])


def _sm(voc, text_tokens, n=9, pos=0):
  """Smoke input from token strings: _sm(4, "- @ y"); NL COMMENT ENDC ERR$ name the kinds without a plain text."""
  special = {'NL': ('NL', '\n'), 'COMMENT': ('COMMENT', '# c'), 'ENDC': ENDC, 'ERR$': ('ERR', '$')}
  vocab = VOCS[voc]
  strings = [s for _, s in vocab]
  ks = [vocab.index(special[t]) if t in special else strings.index(t) for t in text_tokens.split()]
  return _smoke(*ks, n=n, voc=voc, pos=pos)


_A_ALL = ['gin.config_parser:parse_value', 'gin.config_parser:_maybe_parse_container',
          'gin.config_parser:_maybe_parse_basic_type', 'gin.config_parser:parse_statement',
          'gin.config:bind_parameter']


def _zeros(frm):
  return {'k%d' % i: 0 for i in range(frm, 9)}


def _pair(name, voc_q, n_q, voc_t, n_t, smoke, bounds, anchors=('gin.config_parser:parse_value',)):
  """Two entries per vocabulary: almost all paths start with an opening bracket, so `<name>_open` splits those
  on the first two tokens and `<name>` takes every other first token (one small partition each)."""
  def tier(voc, n, opening, budget):
    vocab = VOCS[voc]
    op = [i for i, (t, s) in enumerate(vocab) if t == 'OP' and s in '[({']
    rest = [i for i in range(len(vocab)) if i not in op]
    fixed = dict(n=n, voc=voc, nk=len(vocab), pos=0, **_zeros(n))
    if opening:
      return dict(split=dict(k0=op, k1=list(range(len(vocab)))), fixed=fixed, budget_s=budget)
    return dict(split=dict(k0=rest), fixed=fixed, budget_s=budget)
  flat = [kw for kw in smoke if VOCS[kw['voc']][kw['k0']][1] not in '[({' or VOCS[kw['voc']][kw['k0']][1] == '']
  opening = [kw for kw in smoke if kw not in flat]
  return {
      name: dict(fn='c02_tokens', anchors=list(anchors), smoke=flat, bounds=bounds + ' [first token: anything but an opening bracket]',
                 tiers={'quick': tier(voc_q, n_q, False, 100), 'thorough': tier(voc_t, n_t, False, 900)}),
      name + '_open': dict(fn='c02_tokens', anchors=list(anchors) + ['gin.config_parser:_maybe_parse_container'],
                           smoke=opening, bounds=bounds + ' [first token: an opening bracket]',
                           tiers={'quick': tier(voc_q, n_q, True, 100), 'thorough': tier(voc_t, n_t, True, 900)}),
  }


# ---- real text below the token seam: literals that span physical lines, through every carrier -----------------
# The token seam cannot show what happens to the TEXT before it is tokenised (round d seed C02-d: the line reader
# expanded TABs in the leading whitespace of every physical line, also inside a triple-quoted literal).  Here the
# real tokenizer runs on real text: a value containing a multi-line str/bytes literal whose continuation line
# starts with some whitespace, in 5 contexts x 3 statement positions x 6 carriers; the stored value must be the
# one (value and type) that Python evaluates the same literal text to.
T_PREFIX = ['', 'b', 'r', 'Rb']
T_QUOTE = ["'''", '"""']
T_LEAD = ['', ' ', '    ', '\t', '\t ', ' \t', '\t\t', '\x0c', '\\t']     # the last one is the two characters \ t
T_REST = ['second', '', 'x\ty  ']
T_CONTEXT = ['%s', '[%s, 1]', '(%s,)', "{'k': %s}", "'x' %s", "[1,\n\t%s]"]
T_CARRIERS = ['str', 'list of lines', 'str readline', 'bytes readline', 'str, CRLF line ends', 'no final newline']


class _Lines:
  def __init__(self, text, as_bytes):
    import io
    self._f = io.BytesIO(text.encode('utf8')) if as_bytes else io.StringIO(text, newline='')   # lines end at \n only
    self.readline = self._f.readline


def c02_text(prefix: int, quote: int, lead: int, rest: int, ctx: int, pos: int, carrier: int) -> bool:
  """
  pre: 0 <= prefix < 4 and 0 <= quote < 2 and 0 <= lead < 9 and 0 <= rest < 3
  pre: 0 <= ctx < 6 and 0 <= pos < 3 and 0 <= carrier < 6
  """
  prefix, quote, lead, rest = rt.pick(prefix, 4), rt.pick(quote, 2), rt.pick(lead, 9), rt.pick(rest, 3)
  ctx, pos, carrier = rt.pick(ctx, 6), rt.pick(pos, 3), rt.pick(carrier, 6)
  rt.sig(('text', prefix, quote, lead, rest, ctx, pos, carrier), nontrivial=True)
  with rt.native():
    q = T_QUOTE[quote]
    if 'b' in T_PREFIX[prefix].lower() and ctx == 4:
      rt.discard()                                   # str + bytes concatenation is not a literal
    lit_text = '%s%sfirst\n%s%s%s' % (T_PREFIX[prefix], q, T_LEAD[lead], T_REST[rest], q)
    value_text = T_CONTEXT[ctx] % lit_text
    expected = ast.literal_eval(value_text)          # what Python evaluates that text to
    if pos == 0:
      text, query = 'vw.lit.p = %s\n' % value_text, 'vw.lit.p'
    elif pos == 1:
      text, query = 'vw.lit:\n  p = %s\nvw.dflt.a = 1\n' % value_text, 'vw.lit.p'
    else:
      text, query = 'm = %s\n' % value_text, 'm/gin.macro.value'
    if carrier == 4:
      text = text.replace('\n', '\r\n')
      expected = ast.literal_eval(value_text.replace('\n', '\r\n'))
    elif carrier == 5:
      text = text[:-1]
    world.fresh()
    try:
      if carrier == 1:
        gin.parse_config(text.split('\n'))
      elif carrier in (2, 3):
        gin.parse_config(_Lines(text, carrier == 3))
      else:
        gin.parse_config(text)
    except Exception as e:   # pylint: disable=broad-except
      return rt.no('a literal of the grammar was rejected: %r\n%r' % (e, text))
    got = gin.query_parameter(query)
    if not (type(got) is type(expected) and repr(got) == repr(expected)):
      return rt.no('stored %r, Python evaluates the text to %r\n%r' % (got, expected, text))
    if pos == 1 and gin.query_parameter('vw.dflt.a') != 1:
      return rt.no('the statement after the block was not read')
  return True


HARNESSES = {
    'c02_text': dict(
        fn='c02_text',
        anchors=['gin.config_parser:_maybe_parse_basic_type', 'gin.config_parser:parse_statement'],
        smoke=[dict(prefix=0, quote=0, lead=3, rest=0, ctx=0, pos=0, carrier=0),
               dict(prefix=1, quote=1, lead=5, rest=2, ctx=1, pos=1, carrier=3),
               dict(prefix=2, quote=0, lead=8, rest=1, ctx=5, pos=2, carrier=4),
               dict(prefix=3, quote=1, lead=7, rest=0, ctx=3, pos=0, carrier=1),
               dict(prefix=0, quote=0, lead=6, rest=0, ctx=4, pos=1, carrier=5),
               dict(prefix=0, quote=1, lead=1, rest=1, ctx=2, pos=2, carrier=2)],
        tiers={'quick': dict(split=dict(lead=list(range(9)), carrier=list(range(6))), fixed=dict(quote=0), budget_s=100),
               'thorough': dict(split=dict(lead=list(range(9)), carrier=list(range(6))), budget_s=300)},
        bounds='real text through the real tokenizer: a str/bytes literal (4 prefixes, 2 triple quotes) spanning two '
               'physical lines whose continuation line starts with one of 9 whitespace runs (spaces, TABs, mixes, form '
               'feed, the escape \\t) followed by 3 kinds of rest, in 6 contexts (alone, list, 1-tuple, dict value, '
               'after an adjacent string, on a TAB-indented continuation line inside brackets) x 3 statement positions '
               'x 6 carriers (str, list of lines, str readline, bytes readline, CRLF line ends, no final newline); '
               'stored value == (type and repr) what ast.literal_eval gives for the same text'),
    'c02_tokens': dict(
        fn='c02_tokens',
        anchors=_A_ALL,
        smoke=[_smoke(2, 12, 8, 13, 3), _smoke(14, 13), _smoke(6, 12, 9, 10, 12, 7),
               _smoke(4, 12, 8, 5, 1), _smoke(2, 17, 12, 18, 3)],
        tiers={'quick': dict(split=dict(k0=list(range(21)), k1=list(range(21))),
                             fixed=dict(n=4, voc=0, nk=21, pos=0, **_zeros(4)), budget_s=100),
               'thorough': dict(split=dict(k0=list(range(43)), k1=list(range(43))),
                                fixed=dict(n=4, voc=1, nk=43, pos=0, **_zeros(4)), budget_s=900)},
        bounds='value = at most 4 tokens; quick: 21-kind vocabulary (brackets , : - + NUMBER STRING empty-STRING '
               'True NAME NL COMMENT, END, END-with-comment, the near-miss NUMBER 007 and the legal 00); thorough: 43 kinds '
               '(13 NUMBER forms incl. near-misses, 8 STRING/bytes forms, True/False/None/x, = . *)'),
    'c02_deep': dict(
        fn='c02_tokens',
        anchors=['gin.config_parser:_maybe_parse_container'],
        smoke=[_smoke(1, 1, 6, 5, 6, 2, 2, n=7, voc=2), _smoke(7, 3, 4, 9, 10, 5, 8, n=7, voc=3)],
        # (quick: first token ( or [ - every other first token is in c02_deep_rest; the four partitions
        # (|[ x (|[ of the former k0 x k1 split held ~860 paths each and ran out of budget on a loaded machine)
        tiers={'quick': dict(split=dict(k0=[1, 3], k1=list(range(7)), k2=list(range(7))),
                             fixed=dict(n=7, voc=2, nk=7, pos=0, **_zeros(7)), budget_s=100),
               'thorough': dict(split=dict(k0=list(range(11)), k1=list(range(11)), k2=list(range(11))),
                                fixed=dict(n=8, voc=3, nk=11, pos=0, k8=0), budget_s=900)},
        bounds='value = at most 7 tokens over a 7-kind structural vocabulary (( ) [ ] , 1 END) (quick) / 8 tokens '
               'over 11 kinds (+ { } : \'a\') (thorough): nesting up to depth 3 with several items'),
    'c02_deep_rest': dict(
        fn='c02_tokens',
        anchors=['gin.config_parser:parse_value'],
        smoke=[_smoke(6, n=7, voc=2), _smoke(5, 6, n=7, voc=2), _smoke(2, n=7, voc=2)],
        tiers={'quick': dict(split=dict(k0=[0, 2, 4, 5, 6]), fixed=dict(n=7, voc=2, nk=7, pos=0, **_zeros(7)),
                             budget_s=100)},
        bounds='the remaining first tokens of the quick tier of c02_deep (END ) ] , 1); the thorough tier of c02_deep '
               'covers every first token itself'),
}
HARNESSES.update(_pair(
    'c02_other', I_X, 5, I_XT, 5,
    smoke=[_sm(I_X, '- @ y', n=5), _sm(I_X, '- % y', n=5), _sm(I_X, '[ - @ y ]', n=5), _sm(I_X, '@ y ( )', n=5),
           _sm(I_X, '% y ENDC', n=5), _sm(I_X, '( @ y , )', n=5), _sm(I_X, '[ 1 @ y', n=5), _sm(I_X, '1 % y', n=5),
           _sm(I_X, '@ y 1', n=5), _sm(I_X, '@ 1', n=5), _sm(I_X, '1 $', n=5), _sm(I_X, '[ 1 $ ]', n=5),
           _sm(I_X, '- $', n=5), _sm(I_X, '1 ERR$', n=5), _sm(I_X, '[ 1 ERR$ ]', n=5), _sm(I_X, 'ERR$ 1', n=5),
           _sm(I_X, "1 'abc", n=5), _sm(I_X, '[ 1 , 0xG', n=5), _sm(I_X, "- 'abc", n=5),
           _sm(I_XT, '{ @ y : 1 }', n=6), _sm(I_XT, '[ @ y ( NL ) ]', n=6), _sm(I_XT, "{ - % y", n=6)],
    bounds='value = at most 5 tokens over 16 kinds (quick) / 21 kinds (thorough): - @ % NAME(y, a registered '
           'configurable) ( ) [ ] , 1, the non-token character $ as OP (Python 3.12) and as ERRORTOKEN \' \'+ERRORTOKEN '
           '(tokenizer contract of Python <= 3.11), text on which the tokenizer raises (unterminated string, 0xG), '
           'END, END-with-comment; thorough adds { } : \'a\' NL'))
HARNESSES.update(_pair(
    'c02_neg', I_N, 6, I_N, 7,
    smoke=[_sm(I_N, '[ 1 , - 1 ]', n=6), _sm(I_N, '{ - 1 : 1 }', n=6), _sm(I_N, '{ 1 : - 1 }', n=6),
           _sm(I_N, '[ - 1 , ]', n=6), _sm(I_N, '[ - , 1 ]', n=6), _sm(I_N, '[ 1 - 1 ]', n=6), _sm(I_N, '- 1', n=6),
           _sm(I_N, '{ - 1 : - 1 }', n=7)],
    bounds='negative numbers inside containers and as dict keys / values: value = at most 6 (quick) / 7 (thorough) tokens '
           'over [ ] { } : , - 1 END'))
HARNESSES.update(_pair(
    'c02_breaks', I_L, 5, I_LT, 6,
    smoke=[_sm(I_L, '[ - NL 1 ]', n=5), _sm(I_L, "[ 'a' NL 'a' ]", n=5), _sm(I_L, "[ 'a' COMMENT 'a' ]", n=5),
           _sm(I_L, '[ 1 , NL ]', n=5), _sm(I_L, '[ 1 COMMENT ]', n=5), _sm(I_L, '[ NL - 1 ]', n=5),
           _sm(I_L, "[ - COMMENT 'a' ]", n=5), _sm(I_L, "- 1", n=5), _sm(I_LT, '[ 1 NL , NL ]', n=6),
           _sm(I_LT, '( 1 , NL )', n=6), _sm(I_LT, '( - COMMENT 1 )', n=6), _sm(I_LT, '( - 1 , )', n=6)],
    bounds='line breaks and comments between the pieces of one scalar (after the minus, between adjacent strings) and '
           'around separators, inside brackets, on accepting paths: value = at most 5 tokens over [ ] , - 1 \'a\' NL '
           'COMMENT END (quick) / 6 tokens, also ( ) (thorough)'))
HARNESSES.update(_pair(
    'c02_numeric', I_Z, 4, I_Z, 5,
    smoke=[_sm(I_Z, '- 0.0', n=4), _sm(I_Z, '- 0j', n=4), _sm(I_Z, '- 1e400', n=4), _sm(I_Z, '1e400', n=4),
           _sm(I_Z, '0.0', n=4), _sm(I_Z, '( - 0.0 , )', n=4), _sm(I_Z, '( - 0j )', n=4), _sm(I_Z, '09.5', n=4),
           _sm(I_Z, '00e1', n=4), _sm(I_Z, '- 09j', n=4), _sm(I_Z, '09', n=4), _sm(I_Z, '- 0', n=4), _sm(I_Z, '+ 0.0', n=4)],
    anchors=('gin.config_parser:_maybe_parse_basic_type',),
    bounds='numerics compared by repr (sign of zero, inf): value = at most 4 (quick) / 5 (thorough) tokens over - + ( ) , '
           'and the NUMBER tokens 0.0 0j 1e400 0 09.5 00e1 09j (legal leading zeros) 09 (not Python)'))
HARNESSES['c02_positions'] = dict(
    fn='c02_tokens',
    anchors=_A_ALL + ['gin.config_parser:_parse_binding_block'],
    smoke=[_smoke(2, 12, 3, n=3, voc=0, pos=1), _smoke(10, 12, 1, n=3, voc=0, pos=1), _smoke(12, 12, n=3, voc=0, pos=1),
           _smoke(2, 12, 0, n=3, voc=0, pos=1), _smoke(4, 17, 5, n=3, voc=0, pos=1), _smoke(16, n=3, voc=0, pos=1),
           _smoke(2, 12, 3, n=3, voc=0, pos=2), _smoke(10, 12, 1, n=3, voc=0, pos=2), _smoke(13, 14, n=3, voc=0, pos=2),
           _smoke(16, n=3, voc=0, pos=2), _smoke(6, 7, 12, n=3, voc=0, pos=2)],
    tiers={'quick': dict(split=dict(pos=[1, 2], k0=list(range(21))),
                         fixed=dict(n=3, voc=0, nk=21, **_zeros(3)), budget_s=100),
           'thorough': dict(split=dict(pos=[1, 2], k0=list(range(21)), k1=list(range(21))),
                            fixed=dict(n=4, voc=0, nk=21, **_zeros(4)), budget_s=900)},
    bounds='the value as member of a block (vw.lit:\\n  p = <value>, ended by NEWLINE DEDENT) and as a macro definition '
           '(m = <value>): at most 3 (quick) / 4 (thorough) tokens over the 21-kind vocabulary of c02_tokens')
_D = dict(k0=1, k2=3, k4=4, k6=3, k8=2)     # { . : . , . : . }
HARNESSES['c02_dupkeys'] = dict(
    fn='c02_tokens',
    anchors=['gin.config_parser:_parse_dict_item'],
    smoke=[_sm(I_D, "{ 1 : 1 , 1 : 'a' }"), _sm(I_D, "{ 1 : 'a' , True : 1 }"), _sm(I_D, "{ 1.0 : 'a' , True : 1 }"),
           _sm(I_D, "{ True : 1 , 1 : 'a' }"), _sm(I_D, "{ 'a' : 1 , 'a' : True }"), _sm(I_D, "{ 1 : { , 1 : 1 }")],
    tiers={'quick': dict(split=dict(k1=list(range(9))), fixed=dict(n=9, voc=I_D, nk=9, pos=0, **_D), budget_s=100),
           'thorough': dict(split=dict(k1=list(range(9)), pos=[0, 1, 2]), fixed=dict(n=9, voc=I_D, nk=9, **_D),
                            budget_s=300)},
    bounds='two-item dicts { k : v , k : v } (9 tokens, punctuation fixed) with keys and values over 1 \'a\' True 1.0 '
           '(and the punctuation kinds as near-misses): repeated keys, equal keys of different type (1 / True / 1.0)')
HARNESSES['c02_breaks_dict'] = dict(
    fn='c02_tokens',
    anchors=['gin.config_parser:_parse_dict_item', 'gin.config_parser:_skip_whitespace_and_comments'],
    smoke=[_sm(I_LD, "{ 'a' NL : 1 }", n=6), _sm(I_LD, '{ 1 : COMMENT 1 }', n=6), _sm(I_LD, '{ - NL 1 : 1', n=6),
           _sm(I_LD, "{ NL 1 : 'a' }", n=6), _sm(I_LD, '{ 1 NL 1 : 1 }', n=6), _sm(I_LD, "{ 1 : 'a' NL }", n=6)],
    tiers={'quick': dict(split=dict(k1=list(range(10))), fixed=dict(n=6, voc=I_LD, nk=10, pos=0, k0=1, k5=2, **_zeros(6)),
                         budget_s=100),
           'thorough': dict(split=dict(k1=list(range(10)), k2=list(range(10))),
                            fixed=dict(n=6, voc=I_LD, nk=10, pos=0, k0=1, **_zeros(6)), budget_s=300)},
    bounds='line breaks and comments inside a dict (before / after the colon, after the minus of a key): first token {, '
           'at most 6 tokens over { } : , - 1 \'a\' NL COMMENT END; quick: the sixth token is fixed to }')
RULE = ('one case per parser-distinguishable token sequence (tokens are chosen lazily when the parser pulls '
        'them); non-trivial: the grammar accepts it or at least two value tokens were consumed')
SOLVER_ROLE = 'decides control: the path tree over lazily chosen token kinds is exhausted (CONFIRMED); every leaf is concrete'
OUTSIDE = ('character-level lexing and the value of a single NUMBER/STRING token are CPython\'s (tokenize, '
           'ast.literal_eval), reached only through the vocabulary representatives; values longer than N tokens; '
           'references and macros (@, %) as values are not literals: whether and as what they are accepted is left to '
           'C03/C04/C05, here they only serve as near-misses (a stream containing them may be rejected; if accepted it '
           'must be a sentence of the literal grammar extended by @name, @name(), %name with all literal parts equal to '
           'Python\'s); multi-line STRING tokens, f-strings, the include operand, gin.parse_value (no statement, no '
           'end-of-statement check) and input carriers other than one str')
ASSUMPTIONS = ['tokenizer replaced by a contract-checked stub (vf/tokseam.py); each finished path is re-tokenised '
               'by the real tokenizer and re-parsed by the real tokenizer-driven parser, and must agree',
               'the ERR kind of c02_other follows the token contract of the pure-Python tokenizer of Python <= 3.11 '
               '(ERRORTOKEN for a blank before a non-token character, ERRORTOKEN for the character), which the 3.12 '
               'tokenizer of this sandbox no longer produces (it reports OP): those paths are checked against the real '
               'tokenizer modulo that mapping and are not re-parsed through it']
