"""C02 - literal values parse to exactly what Python evaluates them to.

Engine X through the tokenizer seam: the value part of `vw.lit.p = <value>` is a
symbolic token stream of at most N tokens over a vocabulary; the real
statement/value parser, bind_parameter and query_parameter run on it.
Oracle: vf.spec.literal (the grammar G of the property) + ast.literal_eval.
"""
import ast

import gin
from vf import rt
from vf import tokseam
from vf import world
from vf.spec import literal

END, ENDC = ('END', ''), ('ENDC', '# tail')
VOC_R = [END, ENDC, ('OP', '['), ('OP', ']'), ('OP', '('), ('OP', ')'), ('OP', '{'), ('OP', '}'),
         ('OP', ','), ('OP', ':'), ('OP', '-'), ('OP', '+'), ('NUMBER', '1'), ('STRING', "'a'"),
         ('STRING', "''"), ('NAME', 'True'), ('NAME', 'x'), ('NL', '\n'), ('COMMENT', '# c'),
         ('NUMBER', '007'), ('NUMBER', '00')]
VOC_F = VOC_R + [('NUMBER', '0x1F'), ('NUMBER', '1_0'), ('NUMBER', '1e3'), ('NUMBER', '.5'),
                 ('NUMBER', '1j'), ('STRING', '"b"'), ('STRING', "'''t'''"), ('STRING', "r'\\n'"),
                 ('STRING', "b'x'"), ('STRING', "rb'y'"), ('STRING', "u'z'"), ('STRING', '""'),
                 ('NAME', 'False'), ('NAME', 'None'), ('OP', '='), ('OP', '.'), ('OP', '*'),
                 ('NUMBER', '0_7'), ('NUMBER', '0o17'), ('NUMBER', '0b101'), ('NUMBER', '1.'), ('NUMBER', '1E-2')]
# structural vocabulary for deeper nesting (N = 7): brackets, comma, one number, one string
VOC_S = [END, ('OP', '('), ('OP', ')'), ('OP', '['), ('OP', ']'), ('OP', ','), ('NUMBER', '1')]
VOC_T = VOC_S + [('OP', '{'), ('OP', '}'), ('OP', ':'), ('STRING', "'a'")]
VOCS = [VOC_R, VOC_F, VOC_S, VOC_T]
PREFIX = [('NAME', 'vw'), ('OP', '.'), ('NAME', 'lit'), ('OP', '.'), ('NAME', 'p'), ('OP', '=')]
PREFIX_GAPS = [0, 0, 0, 0, 0, 1]


def c02_tokens(nk: int, n: int, voc: int, k0: int, k1: int, k2: int, k3: int, k4: int, k5: int,
               k6: int, k7: int) -> bool:
  """
  pre: 0 <= k0 < nk and 0 <= k1 < nk and 0 <= k2 < nk and 0 <= k3 < nk and 0 <= k4 < nk and 0 <= k5 < nk
  pre: 0 <= k6 < nk and 0 <= k7 < nk
  """
  world.fresh()
  vocab = VOCS[voc]
  kinds = [k0, k1, k2, k3, k4, k5, k6, k7]
  w = tokseam.Writer()
  st = {'pulled': [], 'ended': False, 'eof_error': False, 'finished': False}

  def gen():
    for (typ, s), gap in zip(PREFIX, PREFIX_GAPS):
      yield w.tok(typ, s, gap=gap, line='vw.lit.p = ...\n')
    depth = 0
    i = 0
    while True:
      if i < n:
        k = rt.pick(kinds[i], len(vocab))
        typ, s = vocab[k]
      else:
        typ, s = END
      i += 1
      if typ == 'END' or typ == 'ENDC':
        if typ == 'ENDC':
          if depth > 0:
            rt.discard()
          st['ended'] = True       # a comment outside brackets ends the logical line
          yield w.tok('COMMENT', s)
        st['ended'] = True
        if depth > 0:
          yield w.tok('NL', '\n')
          st['eof_error'] = True
          st['finished'] = True
          raise tokseam.TokenError('unexpected EOF in multi-line statement', (w.row, 0))
        yield w.tok('NEWLINE', '\n')
        st['finished'] = True
        yield w.tok('ENDMARKER', '')
        return
      if typ in ('NL', 'COMMENT'):
        if depth == 0:
          rt.discard()              # tokenizer contract: only inside brackets
        yield w.tok(typ, s)
        if typ == 'COMMENT':
          yield w.tok('NL', '\n')
        continue
      if typ == 'OP' and s in '[({':
        depth += 1
      elif typ == 'OP' and s in '])}' and depth > 0:
        depth -= 1
      st['pulled'].append((typ, s))
      yield w.tok(typ, s)

  outcome, value, exc = None, None, None
  with tokseam.installed(gen):
    try:
      gin.parse_config('(symbolic token stream)')
      outcome = 'accepted'
      # (containers built under tracing are CrossHair proxies: make them plain)
      try:
        value = rt.realize(gin.query_parameter('vw.lit.p'))
      except TypeError as e:
        # CrossHair's dict model accepts unhashable keys; making the value plain
        # raises what CPython's dict() raises in the real run
        outcome, exc = 'typeerror', e
    except (SyntaxError, tokseam.TokenError) as e:
      outcome = 'rejected'
      exc = e
    except TypeError as e:
      outcome = 'typeerror'
      exc = e
  with rt.native():
    pulled = st['pulled']
    verdict, want = literal.classify(pulled)
    rt.sig(('tokens', tuple(s for _, s in pulled), st['ended']),
           nontrivial=verdict in ('accept',) or len(pulled) >= 2)
    text = w.text()
    # ---- validate the stub against the real tokenizer and the real parse ------
    real, real_exc = tokseam.real_tokens(text)
    if real[:len(w.emitted)] != w.emitted[:len(real)] or (
        st['finished'] and (len(real) < len(w.emitted) or (real_exc is None) == st['eof_error'])):
      raise rt.HarnessError('token stub disagrees with tokenize on %r: %r vs %r (%r)' %
                            (text, w.emitted, real, real_exc))
    if st['ended']:
      world.fresh()
      try:
        gin.parse_config(text)
        r_outcome, r_value = 'accepted', gin.query_parameter('vw.lit.p')
      except (SyntaxError, tokseam.TokenError):
        r_outcome, r_value = 'rejected', None
      except TypeError:
        r_outcome, r_value = 'typeerror', None
      if r_outcome != outcome or (outcome == 'accepted' and not literal.same_value(r_value, value)):
        raise rt.HarnessError('stubbed parse and real parse differ on %r: %r/%r vs %r/%r' %
                              (text, outcome, value, r_outcome, r_value))
    # ---- the property --------------------------------------------------------------
    if verdict == 'typeerror':
      return True                    # Python itself raises TypeError: in neither class
    if outcome == 'typeerror':
      return False
    if outcome == 'accepted':
      if verdict != 'accept' or not literal.same_value(value, want):
        return False
      # the reference model itself is cross-checked against CPython
      py = ast.literal_eval(text.split('=', 1)[1].strip())
      if not literal.same_value(py, want):
        raise rt.HarnessError('reference grammar disagrees with ast.literal_eval on %r' % text)
      return True
    # rejected: only a dead prefix may be rejected before the end; at the end
    # only non-sentences may be rejected
    if st['ended']:
      return verdict in ('dead', 'viable')
    return verdict == 'dead'


def _smoke(*ks, n=6, voc=1):
  ks = list(ks) + [0] * (8 - len(ks))
  return dict(n=n, voc=voc, nk=len(VOCS[voc]), k0=ks[0], k1=ks[1], k2=ks[2], k3=ks[3], k4=ks[4], k5=ks[5],
              k6=ks[6], k7=ks[7])


HARNESSES = {
    'c02_tokens': dict(
        fn='c02_tokens',
        anchors=['gin.config_parser:parse_value', 'gin.config_parser:_maybe_parse_container',
                 'gin.config_parser:_maybe_parse_basic_type', 'gin.config_parser:parse_statement',
                 'gin.config:bind_parameter'],
        smoke=[_smoke(2, 12, 8, 13, 3), _smoke(14, 13), _smoke(6, 12, 9, 10, 12, 7),
               _smoke(4, 12, 8, 5, 1), _smoke(2, 17, 12, 18, 3)],
        tiers={'quick': dict(split=dict(k0=list(range(21)), k1=list(range(21))),
                             fixed=dict(n=4, voc=0, nk=21, k4=0, k5=0, k6=0, k7=0), budget_s=100),
               'thorough': dict(split=dict(k0=list(range(43)), k1=list(range(43))),
                                fixed=dict(n=4, voc=1, nk=43, k4=0, k5=0, k6=0, k7=0), budget_s=900)},
        bounds='value = at most 4 tokens; quick: 21-kind vocabulary (brackets , : - + NUMBER STRING empty-STRING '
               'True NAME NL COMMENT, END, END-with-comment, the near-miss NUMBER 007 and the legal 00); thorough: 43 kinds '
               '(13 NUMBER forms incl. near-misses, 8 STRING/bytes forms, True/False/None/x, = . *)'),
    'c02_deep': dict(
        fn='c02_tokens',
        anchors=['gin.config_parser:_maybe_parse_container'],
        smoke=[_smoke(1, 1, 6, 5, 6, 2, 2, n=7, voc=2), _smoke(7, 3, 4, 9, 10, 5, 8, n=7, voc=3)],
        tiers={'quick': dict(split=dict(k0=list(range(7)), k1=list(range(7))),
                             fixed=dict(n=7, voc=2, nk=7, k7=0), budget_s=100),
               'thorough': dict(split=dict(k0=list(range(11)), k1=list(range(11)), k2=list(range(11))),
                                fixed=dict(n=8, voc=3, nk=11), budget_s=900)},
        bounds='value = at most 7 tokens over a 7-kind structural vocabulary (( ) [ ] , 1 END) (quick) / 8 tokens '
               'over 11 kinds (+ { } : \'a\') (thorough): nesting up to depth 3 with several items'),
}
RULE = ('one case per parser-distinguishable token sequence (tokens are chosen lazily when the parser pulls '
        'them); non-trivial: the grammar accepts it or at least two value tokens were consumed')
SOLVER_ROLE = 'decides control: the path tree over lazily chosen token kinds is exhausted (CONFIRMED); every leaf is concrete'
OUTSIDE = ('character-level lexing and the value of a single NUMBER/STRING token are CPython\'s (tokenize, '
           'ast.literal_eval), reached only through the vocabulary representatives; values longer than N tokens; '
           'references and macros (@, %) as values are not literals (C03/C04/C05)')
ASSUMPTIONS = ['tokenizer replaced by a contract-checked stub (vf/tokseam.py); each finished path is re-tokenised '
               'by the real tokenizer and re-parsed by the real tokenizer-driven parser, and must agree']
