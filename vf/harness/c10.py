"""C10 - REQUIRED parameters are filled from the config or the call fails cleanly."""
import gin
from gin import config as gc
from vf import rt
from vf import world

R = gin.REQUIRED
MODES = ['omitted', 'pos REQUIRED', 'kw REQUIRED', 'pos value', 'kw value']


def _bound(active_s, p_root, v_root, p_s, v_s):
  if active_s and p_s:
    return True, v_s
  if p_root:
    return True, v_root
  return False, None


def _parse_missing(msg):
  with rt.native():
    i = msg.find('not provided in config: ')
    if i < 0:
      return None, None
    head = msg[:i]
    tail = msg[i + len('not provided in config: '):].split('\n')[0]
    import ast
    return head, ast.literal_eval(tail)


def c10_req(nonev: int, ins: bool, ma: int, mb: int, mc: int,
            ba0: bool, ba1: bool, bb0: bool, bb1: bool, bc0: bool, bc1: bool,
            va0: int, va1: int, vb0: int, vb1: int, vc0: int, vc1: int,
            ca: int, cb: int, cc: int) -> bool:
  """
  pre: 0 <= ma < 5 and 0 <= mb < 5 and 0 <= mc < 3 and 0 <= nonev < 4
  """
  world.fresh()
  # a bound value may be a perfectly legal None (root bindings of a / b / both)
  nonev = rt.pick(nonev, 4)
  if nonev in (1, 3):
    va0 = None
  if nonev in (2, 3):
    vb0 = None
  ins = rt.flag(ins)
  ma = rt.pick(ma, 5)
  mb = rt.pick(mb, 5)
  mc = [0, 2, 4][rt.pick(mc, 3)]
  if mb in (1, 3) and ma not in (1, 3):
    rt.discard()
  pres = {}
  for key, scope, p, v in (('a0', '', ba0, va0), ('a1', 's', ba1, va1),
                           ('b0', '', bb0, vb0), ('b1', 's', bb1, vb1),
                           ('c0', '', bc0, vc0), ('c1', 's', bc1, vc1)):
    pres[key] = rt.flag(p)
    if pres[key]:
      gin.bind_parameter((scope, 'vw.req', key[0]), v)
  has_a, bnd_a = _bound(ins, pres['a0'], va0, pres['a1'], va1)
  has_b, bnd_b = _bound(ins, pres['b0'], vb0, pres['b1'], vb1)
  has_c, bnd_c = _bound(ins, pres['c0'], vc0, pres['c1'], vc1)

  pos, kw = [], {}
  if ma == 1: pos.append(R)
  elif ma == 3: pos.append(ca)
  elif ma == 2: kw['a'] = R
  elif ma == 4: kw['a'] = ca
  if mb == 1: pos.append(R)
  elif mb == 3: pos.append(cb)
  elif mb == 2: kw['b'] = R
  elif mb == 4: kw['b'] = cb
  if mc == 2: kw['c'] = R
  elif mc == 4: kw['c'] = cc

  # ---- oracle: who supplies each parameter ---------------------------------
  missing = []
  type_error = False
  if ma in (3, 4):
    exp_a = ca
  elif ma in (1, 2):
    if has_a: exp_a = bnd_a
    else: missing.append('a'); exp_a = None
  else:  # omitted, no default, not marked
    if has_a: exp_a = bnd_a
    else: type_error = True; exp_a = None
  if mb in (3, 4):
    exp_b = cb
  else:  # caller REQUIRED or the signature default REQUIRED
    if has_b: exp_b = bnd_b
    else: missing.append('b'); exp_b = None
  if mc == 4:
    exp_c = cc
  else:
    if has_c: exp_c = bnd_c
    else: missing.append('c'); exp_c = None
  rt.sig(('req', nonev, ins, ma, mb, mc, tuple(sorted(k for k in pres if pres[k]))),
         nontrivial=bool(missing) or (ma in (1, 2) or mb != 3))

  exc = None
  try:
    if ins:
      with gin.config_scope('s'):
        world.req(*pos, **kw)
    else:
      world.req(*pos, **kw)
  except Exception as e:
    exc = e
  if missing:
    if not isinstance(exc, RuntimeError) or world.LOG:
      return False
    head, names = _parse_missing(str(exc))
    with rt.native():
      return names == missing and '`req`' in head
  if type_error:
    return isinstance(exc, TypeError) and not world.LOG
  if exc is not None or len(world.LOG) != 1:
    return False
  _, args, kwargs, _ = world.LOG[0]
  for got in (args[0], args[1], kwargs['c'], kwargs['d']):
    if got is R:
      return False
  return (rt.same('a', args[0], exp_a) and rt.same('b', args[1], exp_b) and
          rt.same('c', kwargs['c'], exp_c) and kwargs['d'] == world.DD)


def c10_shapes(shape: int, mx: int, my: int, m2: int, bx: bool, by: bool, b2: bool,
               vx: int, vy: int, v2: int, cx: int, cy: int, c2: int, ca: int) -> bool:
  """
  pre: 0 <= shape < 6 and 0 <= mx < 3 and 0 <= my < 3 and 0 <= m2 < 4
  """
  world.fresh()
  shape = rt.pick(shape, 6)
  mx = rt.pick(mx, 3)   # **kwargs name x: absent / REQUIRED / value
  my = rt.pick(my, 3)
  m2 = rt.pick(m2, 4)
  bx, by, b2 = rt.flag(bx), rt.flag(by), rt.flag(b2)
  rt.sig(('shapes', shape, mx, my, m2, bx, by, b2), nontrivial=True)
  exc = None
  if shape == 0:
    # reqkw(a, **kw): REQUIRED passed for names that only **kwargs can take;
    # keyword order y-then-x when m2 is odd (leftover order = caller's order)
    if bx: gin.bind_parameter('vw.reqkw.x', vx)
    if by: gin.bind_parameter('vw.reqkw.y', vy)
    items = []
    if mx == 1: items.append(('x', R))
    elif mx == 2: items.append(('x', cx))
    if my == 1: items.append(('y', R))
    elif my == 2: items.append(('y', cy))
    if m2 % 2:
      items.reverse()
    kw = dict(items)
    missing = [k for k, v in items if v is R and not {'x': bx, 'y': by}[k]]
    try:
      world.reqkw(ca, **kw)
    except Exception as e:
      exc = e
    if missing:
      if not isinstance(exc, RuntimeError) or world.LOG:
        return False
      head, names = _parse_missing(str(exc))
      with rt.native():
        return names == missing and '`reqkw`' in head
    if exc is not None or len(world.LOG) != 1:
      return False
    _, args, kwargs, _ = world.LOG[0]
    want = {}
    if mx == 2: want['x'] = cx
    elif mx == 1 or bx: want['x'] = vx
    if my == 2: want['y'] = cy
    elif my == 1 or by: want['y'] = vy
    for v in kwargs.values():
      if v is R:
        return False
    return rt.same('a', args[0], ca) and kwargs == want
  if shape == 5:
    # a registered method of a registered class (its selector was re-keyed under the class)
    if bx: gin.bind_parameter('vw.ReqM.run.steps', vx)
    if by: gin.bind_parameter('vw.ReqM.run.seed', vy)
    obj = gin.get_configurable(world.ReqM)()
    try:
      obj.run()
    except Exception as e:
      exc = e
    missing = [n_ for n_, b_ in (('steps', bx), ('seed', by)) if not b_]
    if missing:
      if not isinstance(exc, RuntimeError) or world.LOG:
        with rt.native():
          return rt.no('expected RuntimeError, got %r' % (exc,))
      head, names = _parse_missing(str(exc))
      with rt.native():
        return (names == missing and 'run`' in head) or rt.no('message %r' % str(exc))
    if exc is not None or len(world.LOG) != 1:
      return False
    return rt.same('steps', world.LOG[0][1][0], vx) and rt.same('seed', world.LOG[0][1][1], vy)
  if shape in (1, 3, 4):
    # class: b has signature REQUIRED; m2: omitted / pos REQUIRED / kw REQUIRED / value
    # (shape 1: @gin.configurable class; 3: @gin.register class reached through get_configurable;
    #  4: external_configurable wrapper)
    cname = {1: 'ReqK', 3: 'ReqReg', 4: 'ReqExt'}[shape]
    target = {1: world.ReqK, 3: gin.get_configurable(world.ReqReg), 4: world.ReqExt}[shape]
    if b2: gin.bind_parameter('vw.%s.b' % cname, v2)
    pos, kw = [ca], {}
    if m2 == 1: pos.append(R)
    elif m2 == 2: kw['b'] = R
    elif m2 == 3: kw['b'] = c2
    try:
      target(*pos, **kw)
    except Exception as e:
      exc = e
    if m2 != 3 and not b2:
      if not isinstance(exc, RuntimeError) or world.LOG:
        return False
      head, names = _parse_missing(str(exc))
      with rt.native():
        return names == ['b'] and ('`%s`' % cname) in head
    if exc is not None or len(world.LOG) != 1:
      return False
    _, args, kwargs, _ = world.LOG[0]
    if args[1] is R:
      return False
    return rt.same('a', args[0], ca) and rt.same('b', args[1], c2 if m2 == 3 else v2)
  # shape 2: REQUIRED in the *args tail is rejected, also when bindings exist
  if b2: gin.bind_parameter('vw.reqvar.a', v2)
  tail = [cx, cy]
  if m2 == 1: tail[0] = R
  elif m2 == 2: tail[1] = R
  elif m2 == 3: tail = [R, R]
  try:
    world.reqvar(ca, *tail)
  except Exception as e:
    exc = e
  if m2 == 0:
    if exc is not None or len(world.LOG) != 1:
      return False
    _, args, _, _ = world.LOG[0]
    return rt.same('a', args[0], ca) and rt.same('x', args[1], cx) and rt.same('y', args[2], cy)
  return isinstance(exc, ValueError) and not world.LOG


def c10_register(kind: int, sig_a: bool, sig_b: bool, allow: int, deny: int, api: int, v: int) -> bool:
  """
  pre: 0 <= allow < 4 and 0 <= deny < 4 and 0 <= api < 3 and 0 <= kind < 2
  """
  world.fresh()
  sig_a, sig_b = rt.flag(sig_a), rt.flag(sig_b)
  allow = [None, ['a'], ['b'], ['a', 'b']][rt.pick(allow, 4)]
  deny = [None, ['a'], ['b'], ['a', 'b']][rt.pick(deny, 4)]
  api = rt.pick(api, 3)
  kind = rt.pick(kind, 2)            # 0: a function, 1: a class (its __init__ carries the markers)
  rt.sig(('register', kind, sig_a, sig_b, allow, deny, api), nontrivial=sig_a or sig_b)
  with rt.native():
    da = R if sig_a else 1
    db = R if sig_b else 2

    def c10tmp(a=da, b=db):
      world.rec('c10tmp', a, b)

    if kind == 1:
      class c10tmp:   # noqa: F811
        def __init__(self, a=da, b=db):
          world.rec('c10tmp', a, b)

    before = set(gc._REGISTRY._selector_map)
  exc = None
  try:
    try:
      if api == 0:
        gin.configurable(c10tmp.__name__, module='vw', allowlist=allow, denylist=deny)(c10tmp)
      elif api == 1:
        gin.register(c10tmp.__name__, module='vw', allowlist=allow, denylist=deny)(c10tmp)
      else:
        gin.external_configurable(c10tmp, module='vw', allowlist=allow, denylist=deny)
    except Exception as e:
      exc = e
    after = set(gc._REGISTRY._selector_map)
    bad = False
    if allow and deny:
      bad = True
    for name, marked in (('a', sig_a), ('b', sig_b)):
      if marked and ((deny and name in deny) or (allow and name not in allow)):
        bad = True
    if bad:
      return isinstance(exc, ValueError) and after == before
    if exc is not None or after != before | {'vw.c10tmp'}:
      return False
    # a correctly registered REQUIRED parameter is filled from a binding
    if sig_a:
      gin.bind_parameter('vw.c10tmp.a', v)
      if sig_b:
        gin.bind_parameter('vw.c10tmp.b', v)
      gin.get_configurable('vw.c10tmp')()
      return len(world.LOG) == 1 and rt.same('v', world.LOG[0][1][0], v)
    return True
  finally:
    with rt.native():
      gc._REGISTRY._selector_map.pop('vw.c10tmp', None)
      if 'vw.c10tmp' in before:
        pass
      else:
        try:
          # rebuild nothing: remove the trie entry through the public pop when present
          gc._REGISTRY['vw.c10tmp'] = None
          gc._REGISTRY.pop('vw.c10tmp')
        except Exception:
          pass
      gc._INVERSE_REGISTRY.pop(c10tmp, None)


HARNESSES = {
    'c10_req': dict(
        fn='c10_req',
        anchors=['gin.config:gin_wrapper', 'gin.config:_order_by_signature'],
        smoke=[dict(nonev=1, ins=True, ma=1, mb=0, mc=1, ba0=True, ba1=False, bb0=False, bb1=False,
                    bc0=False, bc1=False, va0=1, va1=2, vb0=3, vb1=4, vc0=5, vc1=6,
                    ca=7, cb=8, cc=9)],
        tiers={
            'quick': dict(split=dict(ma=list(range(5)), mb=list(range(5)), nonev=[0, 3]),
                          fixed=dict(bc1=False, ba1=False), budget_s=100),
            'thorough': dict(split=dict(ma=list(range(5)), mb=list(range(5)),
                                        mc=list(range(3)), nonev=[0, 1, 2, 3]), budget_s=600),
        },
        bounds='req(a, b=REQUIRED, *, c=REQUIRED, d=default): 5 caller modes for a and b, 3 for c; '
               'bindings at root and in scope s; active scope [] or [s]; values: all ints, and None for the root bindings'),
    'c10_shapes': dict(
        fn='c10_shapes',
        anchors=['gin.config:gin_wrapper'],
        smoke=[dict(shape=0, mx=1, my=1, m2=1, bx=False, by=False, b2=False, vx=1, vy=2,
                    v2=3, cx=4, cy=5, c2=6, ca=7)],
        tiers={'quick': dict(split=dict(shape=[0, 1, 2, 3, 4, 5]), budget_s=100),
               'thorough': dict(split=dict(shape=[0, 1, 2, 3, 4, 5], m2=[0, 1, 2, 3]), budget_s=300)},
        bounds='**kwargs names marked REQUIRED in both keyword orders; classes with signature '
               'REQUIRED (@configurable, @register reached through get_configurable, external_configurable); REQUIRED at each *args position; a registered method (re-keyed under its registered class) with signature REQUIRED'),
    'c10_register': dict(
        fn='c10_register',
        anchors=['gin.config:_get_validated_required_kwargs', 'gin.config:_make_configurable'],
        smoke=[dict(kind=0, sig_a=True, sig_b=False, allow=2, deny=0, api=0, v=5),
               dict(kind=1, sig_a=True, sig_b=False, allow=1, deny=0, api=1, v=5)],
        tiers={'quick': dict(split=dict(api=[0, 1, 2], kind=[0, 1]), budget_s=100),
               'thorough': dict(split=dict(api=[0, 1, 2], kind=[0, 1], allow=[0, 1, 2, 3]), budget_s=300)},
        bounds='a function or a class with signature REQUIRED on a and/or b x 4 allowlists x 4 denylists x 3 registration APIs'),
}
